//! C12 correspondence harness: drives compio_io::compat::{SyncStream, AsyncStream}
//! over a recording scripted inner stream with the programs the Coq model
//! (coq/model/RunC12.v) interprets, printing the same result encoding.
use std::{
    cell::RefCell,
    collections::VecDeque,
    future::Future,
    io::{BufRead, Read, Write},
    mem::MaybeUninit,
    panic::AssertUnwindSafe,
    pin::Pin,
    rc::Rc,
    sync::{
        Arc,
        atomic::{AtomicUsize, Ordering},
    },
    task::{Context, Poll, Wake, Waker},
};

use compio_buf::{BufResult, IoBuf, IoBufMut, IoBufMutExt, SetLenExt};
use compio_io::{
    AsyncRead, AsyncWrite,
    compat::{AsyncStream, SyncStream},
};
use futures_util::io::{AsyncBufRead as FBufRead, AsyncRead as FRead, AsyncWrite as FWrite};
use verif_harness::*;

/// iteration budget of one poll_* call (coq/model/Compat.v POLL_FUEL): the
/// scripted writer gives up on the POLL_FUEL-th successful inner flush inside
/// one adapter call (the call is spinning).
const POLL_FUEL: usize = 8;
const NWAKERS: usize = 4;

struct Spin;

/// one direction of the scripted inner stream: answers + blocking state
#[derive(Default)]
struct Side {
    sched: VecDeque<(u64, u64)>,
    /// poll adapter: a Pending answer blocks the operation until the wake step
    block_mode: bool,
    blocked: bool,
    woken: bool,
    waker: Option<Waker>,
    /// final phase: reads answer 0, writes accept everything silently
    drain: bool,
    // reader
    src: Vec<u8>,
    pos: usize,
    // writer
    log: Vec<Vec<u64>>,
    drained: Vec<u64>,
    flush_ok_in_call: usize,
}

enum Ans {
    Chunk(usize),
    Err(u64),
    Zero,
    Exhausted,
    Drain,
}

/// the hand-written future every inner operation starts with: takes the next
/// answer; for a Pending answer it stores the waker, returns Pending and stays
/// blocked until the harness' wake step
struct Gate<'a>(&'a RefCell<Side>);

impl Future for Gate<'_> {
    type Output = Ans;

    fn poll(self: Pin<&mut Self>, cx: &mut Context<'_>) -> Poll<Ans> {
        let mut s = self.0.borrow_mut();
        loop {
            if s.drain {
                s.blocked = false;
                return Poll::Ready(Ans::Drain);
            }
            if s.blocked {
                if s.woken {
                    s.blocked = false;
                    s.woken = false;
                } else {
                    s.waker = Some(cx.waker().clone());
                    return Poll::Pending;
                }
            }
            match s.sched.pop_front() {
                None => return Poll::Ready(Ans::Exhausted),
                Some((0, n)) => return Poll::Ready(Ans::Chunk(n as usize)),
                Some((1, e)) => return Poll::Ready(Ans::Err(e)),
                Some((3, _)) => {
                    s.blocked = true;
                    if s.block_mode {
                        s.woken = false;
                        s.waker = Some(cx.waker().clone());
                    } else {
                        // sync adapter: the awaiting future is suspended once
                        // and resumed at once
                        s.woken = true;
                        cx.waker().wake_by_ref();
                    }
                    return Poll::Pending;
                }
                Some(_) => return Poll::Ready(Ans::Zero),
            }
        }
    }
}

#[derive(Clone)]
struct ScriptReader(Rc<RefCell<Side>>);
#[derive(Clone)]
struct ScriptWriter(Rc<RefCell<Side>>);

impl AsyncRead for ScriptReader {
    async fn read<B: IoBufMut>(&mut self, mut buf: B) -> BufResult<usize, B> {
        match Gate(&self.0).await {
            Ans::Chunk(n) => {
                let mut s = self.0.borrow_mut();
                let cap = buf.buf_capacity();
                let k = n.min(cap).min(s.src.len() - s.pos);
                if k > 0 {
                    let dst = buf.as_uninit();
                    for i in 0..k {
                        dst[i].write(s.src[s.pos + i]);
                    }
                    s.pos += k;
                    unsafe { buf.advance_to(k) };
                }
                BufResult(Ok(k), buf)
            }
            Ans::Err(e) => BufResult(Err(mk_err(e)), buf),
            Ans::Zero | Ans::Exhausted | Ans::Drain => BufResult(Ok(0), buf),
        }
    }
}

impl AsyncWrite for ScriptWriter {
    async fn write<T: IoBuf>(&mut self, buf: T) -> BufResult<usize, T> {
        match Gate(&self.0).await {
            Ans::Drain => {
                let mut s = self.0.borrow_mut();
                let b = buf.as_init();
                s.drained.extend(b.iter().map(|&x| x as u64));
                let n = b.len();
                drop(s);
                BufResult(Ok(n), buf)
            }
            Ans::Chunk(n) => {
                let mut s = self.0.borrow_mut();
                let b = buf.as_init();
                let k = n.min(b.len());
                if k > 0 {
                    let mut e = vec![1, k as u64];
                    e.extend(b[..k].iter().map(|&x| x as u64));
                    s.log.push(e);
                }
                drop(s);
                BufResult(Ok(k), buf)
            }
            Ans::Err(e) => BufResult(Err(mk_err(e)), buf),
            Ans::Zero | Ans::Exhausted => BufResult(Ok(0), buf),
        }
    }

    async fn flush(&mut self) -> std::io::Result<()> {
        match Gate(&self.0).await {
            Ans::Drain => Ok(()),
            Ans::Err(e) => Err(mk_err(e)),
            _ => {
                let mut s = self.0.borrow_mut();
                s.log.push(vec![2]);
                s.flush_ok_in_call += 1;
                if s.flush_ok_in_call >= POLL_FUEL {
                    drop(s);
                    std::panic::panic_any(Spin);
                }
                Ok(())
            }
        }
    }

    async fn shutdown(&mut self) -> std::io::Result<()> {
        match Gate(&self.0).await {
            Ans::Drain => Ok(()),
            Ans::Err(e) => Err(mk_err(e)),
            _ => {
                self.0.borrow_mut().log.push(vec![3]);
                Ok(())
            }
        }
    }
}

/// one stream with both directions, for SyncStream
struct Duplex(ScriptReader, ScriptWriter);

impl AsyncRead for Duplex {
    async fn read<B: IoBufMut>(&mut self, buf: B) -> BufResult<usize, B> {
        self.0.read(buf).await
    }
}

impl AsyncWrite for Duplex {
    async fn write<T: IoBuf>(&mut self, buf: T) -> BufResult<usize, T> {
        self.1.write(buf).await
    }

    async fn flush(&mut self) -> std::io::Result<()> {
        self.1.flush().await
    }

    async fn shutdown(&mut self) -> std::io::Result<()> {
        self.1.shutdown().await
    }
}

struct CountWaker(AtomicUsize);

impl Wake for CountWaker {
    fn wake(self: Arc<Self>) {
        self.0.fetch_add(1, Ordering::SeqCst);
    }

    fn wake_by_ref(self: &Arc<Self>) {
        self.0.fetch_add(1, Ordering::SeqCst);
    }
}

/// manual poll with a no-op waker (the sync adapter's async methods)
fn drive<F: Future>(f: F) -> F::Output {
    let mut f = std::pin::pin!(f);
    let mut cx = Context::from_waker(Waker::noop());
    for _ in 0..10_000 {
        if let Poll::Ready(x) = f.as_mut().poll(&mut cx) {
            return x;
        }
    }
    std::panic::panic_any(Spin)
}

fn enc_io<T>(out: &mut Vec<u64>, r: &std::io::Result<T>, val: impl Fn(&T, &mut Vec<u64>)) {
    match r {
        Ok(v) => {
            out.push(0);
            val(v, out);
        }
        Err(e) => {
            out.push(1);
            out.push(code_of(e.kind()));
        }
    }
}

fn enc_poll<T>(out: &mut Vec<u64>, r: &Poll<std::io::Result<T>>, val: impl Fn(&T, &mut Vec<u64>)) {
    match r {
        Poll::Pending => out.push(3),
        Poll::Ready(r) => enc_io(out, r, val),
    }
}

fn push_bytes(out: &mut Vec<u64>, b: &[u8]) {
    out.push(b.len() as u64);
    out.extend(b.iter().map(|&x| x as u64));
}

fn enc_log(out: &mut Vec<u64>, side: &Rc<RefCell<Side>>) {
    let s = side.borrow();
    out.push(s.log.len() as u64);
    for e in &s.log {
        out.extend_from_slice(e);
    }
}

enum Op {
    Read(usize, usize, usize), // entry point (0 read, 1 read_uninit), waker, n
    FillBuf(usize),
    Consume(usize),
    Write(usize, Vec<u8>),
    Flush(usize),
    Close(usize),
    FillRead,
    FlushWrite,
    WakeR,
    WakeW,
}

fn waker_id(c: &mut Case) -> Result<usize, BadCase> {
    let w = c.take()? as usize;
    if w < NWAKERS { Ok(w) } else { Err(BadCase) }
}

fn bytes_of(s: &[u64]) -> Vec<u8> {
    s.iter().map(|&b| b as u8).collect()
}

fn run_inner(case: &[u64]) -> Result<Vec<u64>, BadCase> {
    let mut c = Case::new(case);
    let adapter = c.take()?;
    let base = c.take()? as usize;
    let max = c.take()? as usize;
    let nr = c.take()? as usize;
    let rs = c.sched(nr)?;
    let nw = c.take()? as usize;
    let ws = c.sched(nw)?;
    let src = bytes_of(c.bytes()?);
    let no = c.take()? as usize;
    let mut ops = Vec::new();
    for _ in 0..no {
        let t = c.take()?;
        ops.push(match (adapter, t) {
            (1, 1) => Op::Read(0, 0, c.take()? as usize),
            (1, 2) => Op::FillBuf(0),
            (1, 4) => Op::Write(0, bytes_of(c.bytes()?)),
            (1, 5) => Op::Flush(0),
            (1, 6) => Op::FillRead,
            (1, 7) => Op::FlushWrite,
            (_, 3) => Op::Consume(c.take()? as usize),
            (2, 1) => {
                let w = waker_id(&mut c)?;
                Op::Read(0, w, c.take()? as usize)
            }
            (2, 8) => {
                let w = waker_id(&mut c)?;
                Op::Read(1, w, c.take()? as usize)
            }
            (2, 2) => Op::FillBuf(waker_id(&mut c)?),
            (2, 4) => {
                let w = waker_id(&mut c)?;
                Op::Write(w, bytes_of(c.bytes()?))
            }
            (2, 5) => Op::Flush(waker_id(&mut c)?),
            (2, 6) => Op::Close(waker_id(&mut c)?),
            (2, 9) => Op::WakeR,
            (2, 10) => Op::WakeW,
            _ => return Err(BadCase),
        });
    }
    if c.i != c.v.len() || !(adapter == 1 || adapter == 2) {
        return Err(BadCase);
    }
    let block_mode = adapter == 2;
    let rside = Rc::new(RefCell::new(Side {
        sched: rs,
        block_mode,
        src,
        ..Default::default()
    }));
    let wside = Rc::new(RefCell::new(Side {
        sched: ws,
        block_mode,
        ..Default::default()
    }));
    let reader = ScriptReader(rside.clone());
    let writer = ScriptWriter(wside.clone());
    let mut out = Vec::new();

    if adapter == 1 {
        let mut s = SyncStream::with_limits(base, max, Duplex(reader, writer));
        for op in ops {
            wside.borrow_mut().flush_ok_in_call = 0;
            match op {
                Op::Read(_, _, n) => {
                    let mut buf = vec![0u8; n];
                    let r = Read::read(&mut s, &mut buf);
                    enc_io(&mut out, &r, |k, o| push_bytes(o, &buf[..*k]));
                }
                Op::FillBuf(_) => {
                    let r = BufRead::fill_buf(&mut s).map(|w| w.to_vec());
                    enc_io(&mut out, &r, |w, o| push_bytes(o, w));
                }
                Op::Consume(n) => {
                    BufRead::consume(&mut s, n);
                    out.extend([0, 0]);
                }
                Op::Write(_, d) => {
                    let r = Write::write(&mut s, &d);
                    enc_io(&mut out, &r, |k, o| o.push(*k as u64));
                }
                Op::Flush(_) => {
                    let r = Write::flush(&mut s);
                    enc_io(&mut out, &r, |_, o| o.push(0));
                }
                Op::FillRead => {
                    let r = drive(s.fill_read_buf());
                    enc_io(&mut out, &r, |k, o| o.push(*k as u64));
                }
                Op::FlushWrite => {
                    let r = drive(s.flush_write_buf());
                    enc_io(&mut out, &r, |k, o| o.push(*k as u64));
                }
                _ => return Err(BadCase),
            }
        }
        // final state: what is still buffered on both sides
        let remaining = {
            let r = rside.borrow();
            (r.src.len() - r.pos) as u64
        };
        wside.borrow_mut().drain = true;
        let _ = drive(s.flush_write_buf());
        let eof = s.is_eof();
        let (_, buffered) = s.into_parts();
        out.push(remaining);
        push_bytes(&mut out, &buffered);
        out.push(eof as u64);
        enc_log(&mut out, &wside);
        let w = wside.borrow();
        out.push(w.drained.len() as u64);
        out.extend_from_slice(&w.drained);
        return Ok(out);
    }

    let counters: Vec<Arc<CountWaker>> = (0..NWAKERS)
        .map(|_| Arc::new(CountWaker(AtomicUsize::new(0))))
        .collect();
    let wakers: Vec<Waker> = counters.iter().map(|c| Waker::from(c.clone())).collect();
    let wake_side = |side: &Rc<RefCell<Side>>, out: &mut Vec<u64>| {
        let before: Vec<usize> = counters.iter().map(|c| c.0.load(Ordering::SeqCst)).collect();
        let w = {
            let mut s = side.borrow_mut();
            if s.blocked && !s.woken {
                s.woken = true;
                s.waker.take()
            } else {
                None
            }
        };
        if let Some(w) = w {
            w.wake();
        }
        out.push(5);
        for (c, b) in counters.iter().zip(before) {
            out.push((c.0.load(Ordering::SeqCst) - b) as u64);
        }
    };

    let mut s = Box::pin(AsyncStream::with_limits(base, max, (reader, writer)));
    for op in ops {
        wside.borrow_mut().flush_ok_in_call = 0;
        match op {
            Op::Read(0, w, n) => {
                let mut buf = vec![0u8; n];
                let r = FRead::poll_read(s.as_mut(), &mut Context::from_waker(&wakers[w]), &mut buf);
                enc_poll(&mut out, &r, |k, o| push_bytes(o, &buf[..*k]));
            }
            Op::Read(_, w, n) => {
                let mut buf = vec![MaybeUninit::<u8>::uninit(); n];
                let r = s
                    .as_mut()
                    .poll_read_uninit(&mut Context::from_waker(&wakers[w]), &mut buf);
                enc_poll(&mut out, &r, |k, o| {
                    let b: Vec<u8> = buf[..*k].iter().map(|x| unsafe { x.assume_init() }).collect();
                    push_bytes(o, &b)
                });
            }
            Op::FillBuf(w) => {
                let r = FBufRead::poll_fill_buf(s.as_mut(), &mut Context::from_waker(&wakers[w]))
                    .map(|r| r.map(|w| w.to_vec()));
                enc_poll(&mut out, &r, |w, o| push_bytes(o, w));
            }
            Op::Consume(n) => {
                FBufRead::consume(s.as_mut(), n);
                out.extend([0, 0]);
            }
            Op::Write(w, d) => {
                let r = FWrite::poll_write(s.as_mut(), &mut Context::from_waker(&wakers[w]), &d);
                enc_poll(&mut out, &r, |k, o| o.push(*k as u64));
            }
            Op::Flush(w) => {
                let r = FWrite::poll_flush(s.as_mut(), &mut Context::from_waker(&wakers[w]));
                enc_poll(&mut out, &r, |_, o| o.push(0));
            }
            Op::Close(w) => {
                let r = FWrite::poll_close(s.as_mut(), &mut Context::from_waker(&wakers[w]));
                enc_poll(&mut out, &r, |_, o| o.push(0));
            }
            Op::WakeR => wake_side(&rside, &mut out),
            Op::WakeW => wake_side(&wside, &mut out),
            _ => return Err(BadCase),
        }
    }
    // final state: complete what is in flight against a draining inner stream
    let remaining = {
        let r = rside.borrow();
        (r.src.len() - r.pos) as u64
    };
    rside.borrow_mut().drain = true;
    wside.borrow_mut().drain = true;
    let mut cx = Context::from_waker(Waker::noop());
    let mut buffered = Vec::new();
    for _ in 0..1000 {
        let mut buf = [0u8; 64];
        match FRead::poll_read(s.as_mut(), &mut cx, &mut buf) {
            Poll::Ready(Ok(n)) if n > 0 => buffered.extend_from_slice(&buf[..n]),
            _ => break,
        }
    }
    // twice: the first success may only complete a flush that was already in
    // flight; the second one starts from whatever is buffered now
    for _ in 0..2 {
        for _ in 0..1000 {
            if FWrite::poll_flush(s.as_mut(), &mut cx).is_ready() {
                break;
            }
        }
    }
    out.push(remaining);
    push_bytes(&mut out, &buffered);
    enc_log(&mut out, &wside);
    let w = wside.borrow();
    out.push(w.drained.len() as u64);
    out.extend_from_slice(&w.drained);
    Ok(out)
}

fn run(case: &[u64]) -> Result<Vec<u64>, BadCase> {
    match std::panic::catch_unwind(AssertUnwindSafe(|| run_inner(case))) {
        Ok(r) => r,
        Err(p) => {
            if p.is::<Spin>() {
                // the call did not return within its budget: hang
                Ok(vec![2, 8])
            } else {
                std::panic::resume_unwind(p)
            }
        }
    }
}

fn main() {
    main_loop(run);
}
