//! C10 correspondence harness: builds the view tree of a case over real
//! compio-buf buffers (nesting at run time through an enum whose variants hold
//! the real `Slice` / `Uninit` / `VectoredSlice` / `VectoredBufIter`), fills a
//! recognisable pattern through `as_uninit()` / `iter_uninit_slice()`, and
//! prints the encoding of coq/model/RunC10.v: every reported range as an
//! offset relative to the base pointer of the root allocation.
use std::mem::MaybeUninit;

use compio_buf::{
    IntoInner, IoBuf, IoBufExt, IoBufMut, IoBufMutExt, IoVectoredBuf, IoVectoredBufMut, SetLen,
    SetLenExt, Slice, Uninit, VectoredBufIter, VectoredSlice,
};
use verif_harness::*;

// `UbTrap` (node module): also raised for SmallVec::set_len beyond the capacity, which has no
// check at all (silent UB); reported like the Vec abort: `2 4`

struct Sv(smallvec::SmallVec<[u8; 4]>);
impl IoBuf for Sv {
    fn as_init(&self) -> &[u8] {
        self.0.as_init()
    }
}
impl IoBufMut for Sv {
    fn as_uninit(&mut self) -> &mut [MaybeUninit<u8>] {
        self.0.as_uninit()
    }

    fn reserve(&mut self, len: usize) -> Result<(), compio_buf::ReserveError> {
        IoBufMut::reserve(&mut self.0, len)
    }
}
impl AsRef<[u8]> for Sv {
    fn as_ref(&self) -> &[u8] {
        &self.0
    }
}
impl AsMut<[u8]> for Sv {
    fn as_mut(&mut self) -> &mut [u8] {
        &mut self.0
    }
}
impl SetLen for Sv {
    unsafe fn set_len(&mut self, len: usize) {
        if len > self.0.capacity() {
            std::panic::panic_any(UbTrap);
        }
        unsafe { SetLen::set_len(&mut self.0, len) }
    }
}

/// the concrete root types: compio-buf's traits plus the type's own immutable / mutable
/// view of its initialised bytes (as_slice / as_mut_slice, Deref / DerefMut)
trait RootBuf: IoBufMut {
    fn views(&mut self) -> [(usize, usize); 2];
    fn bump(&mut self);
}
impl<T: IoBufMut + AsRef<[u8]> + AsMut<[u8]>> RootBuf for T {
    fn views(&mut self) -> [(usize, usize); 2] {
        let a = {
            let s: &[u8] = (*self).as_ref();
            (s.as_ptr() as usize, s.len())
        };
        let b = {
            let s: &mut [u8] = (*self).as_mut();
            (s.as_mut_ptr() as usize, s.len())
        };
        [a, b]
    }
    fn bump(&mut self) {
        for b in (*self).as_mut().iter_mut() {
            *b = b.wrapping_add(1);
        }
    }
}

/// a root buffer: any of the real buffer types behind compio's `Box<B>` impls
type M = Box<dyn RootBuf>;

#[path = "../c10_node.rs"]
mod node;
use node::{Node, RootCap, UbTrap, decode_bsteps, pat, run_bsteps};

impl RootCap for M {
    fn alloc_len(&mut self) -> usize {
        (**self).as_uninit().len()
    }
    fn deref_views(&mut self) -> [(usize, usize); 2] {
        (**self).views()
    }
    fn bump_deref_mut(&mut self) {
        (**self).bump()
    }
}

fn arr<const N: usize>(_len: usize) -> M {
    let mut a = [0u8; N];
    for (i, c) in a.iter_mut().enumerate() {
        *c = canary(i);
    }
    Box::new(a)
}

fn av<const N: usize>(len: usize) -> M {
    let mut a = arrayvec::ArrayVec::<u8, N>::new();
    for i in 0..N {
        a.push(canary(i));
    }
    a.truncate(len);
    Box::new(a)
}

macro_rules! with_n {
    ($f:ident, $cap:expr, $len:expr, $($n:literal)*) => {
        match $cap { $($n => $f::<$n>($len),)* _ => return Err(BadCase) }
    };
}

fn mk_root(kind: u64, len: usize, cap: usize) -> Result<M, BadCase> {
    if len > cap || cap > 64 {
        return Err(BadCase);
    }
    let m: M = match kind {
        0 => Box::new(canary_vec(len, cap)),
        1 => {
            if len != cap {
                return Err(BadCase);
            }
            with_n!(arr, cap, len, 0 1 2 3 4 5 6 7 8 9 10 11 12 13 14 15 16)
        }
        2 => {
            if len != cap {
                return Err(BadCase);
            }
            let b: Box<[u8]> = canary_vec(cap, cap).into_boxed_slice();
            Box::new(b)
        }
        3 => with_n!(av, cap, len, 0 1 2 3 4 5 6 7 8 9 10 11 12 13 14 15 16),
        4 => {
            if cap < 4 {
                return Err(BadCase);
            }
            let mut s = smallvec::SmallVec::<[u8; 4]>::with_capacity(cap);
            assert_eq!(s.capacity(), cap);
            for i in 0..cap {
                s.push(canary(i));
            }
            s.truncate(len);
            Box::new(Sv(s))
        }
        5 => {
            let mut b = bytes::BytesMut::with_capacity(cap);
            assert_eq!(b.capacity(), cap);
            for i in 0..cap {
                b.extend_from_slice(&[canary(i)]);
            }
            assert_eq!(b.capacity(), cap);
            b.truncate(len);
            Box::new(b)
        }
        _ => return Err(BadCase),
    };
    Ok(m)
}

fn base_of(m: &mut M) -> usize {
    (**m).as_uninit().as_ptr() as usize
}

fn enc_root(out: &mut Vec<u64>, m: &mut M) {
    let len = (**m).as_init().len();
    let u = (**m).as_uninit();
    out.push(len as u64);
    out.push(u.len() as u64);
    for c in u.iter() {
        // every cell of the capacity was initialised by mk_root
        out.push(unsafe { c.assume_init_read() } as u64);
    }
}

/// run-time nesting of the real owned views over a base buffer `R`
// ---- buffer cases --------------------------------------------------------

fn run_buffer(c: &mut Case) -> Result<Vec<u64>, BadCase> {
    let kind = c.take()?;
    let len = c.take()? as usize;
    let cap = c.take()? as usize;
    if len > 64 || cap > 64 {
        return Err(BadCase);
    }
    let steps = decode_bsteps(c)?;
    let mut root = mk_root(kind, len, cap)?;
    let mut out = Vec::new();
    let mut root = run_bsteps(&mut out, root, steps);
    enc_root(&mut out, &mut root);
    Ok(out)
}

// ---- vectored cases ------------------------------------------------------

enum VNode {
    List(Vec<M>),
    U0(()),
    T1((M,)),
    T2((M, (M,))),
    T3((M, (M, (M,)))),
    U1((M, ())),
    U2((M, (M, ()))),
    U3((M, (M, (M, ())))),
    Sl(Box<VectoredSlice<VNode>>),
}

impl IoVectoredBuf for VNode {
    fn iter_slice(&self) -> impl Iterator<Item = &[u8]> {
        let b: Box<dyn Iterator<Item = &[u8]> + '_> = match self {
            VNode::List(v) => Box::new(v.iter_slice()),
            VNode::U0(v) => Box::new(v.iter_slice()),
            VNode::T1(v) => Box::new(v.iter_slice()),
            VNode::T2(v) => Box::new(v.iter_slice()),
            VNode::T3(v) => Box::new(v.iter_slice()),
            VNode::U1(v) => Box::new(v.iter_slice()),
            VNode::U2(v) => Box::new(v.iter_slice()),
            VNode::U3(v) => Box::new(v.iter_slice()),
            VNode::Sl(v) => Box::new(v.iter_slice()),
        };
        b
    }
}

impl IoVectoredBufMut for VNode {
    fn iter_uninit_slice(&mut self) -> impl Iterator<Item = &mut [MaybeUninit<u8>]> {
        let b: Box<dyn Iterator<Item = &mut [MaybeUninit<u8>]> + '_> = match self {
            VNode::List(v) => Box::new(v.iter_uninit_slice()),
            VNode::U0(v) => Box::new(v.iter_uninit_slice()),
            VNode::T1(v) => Box::new(v.iter_uninit_slice()),
            VNode::T2(v) => Box::new(v.iter_uninit_slice()),
            VNode::T3(v) => Box::new(v.iter_uninit_slice()),
            VNode::U1(v) => Box::new(v.iter_uninit_slice()),
            VNode::U2(v) => Box::new(v.iter_uninit_slice()),
            VNode::U3(v) => Box::new(v.iter_uninit_slice()),
            VNode::Sl(v) => Box::new(v.iter_uninit_slice()),
        };
        b
    }
}

impl SetLen for VNode {
    unsafe fn set_len(&mut self, len: usize) {
        unsafe {
            match self {
                VNode::List(v) => SetLen::set_len(v, len),
                VNode::U0(v) => SetLen::set_len(v, len),
                VNode::T1(v) => SetLen::set_len(v, len),
                VNode::T2(v) => SetLen::set_len(v, len),
                VNode::T3(v) => SetLen::set_len(v, len),
                VNode::U1(v) => SetLen::set_len(v, len),
                VNode::U2(v) => SetLen::set_len(v, len),
                VNode::U3(v) => SetLen::set_len(v, len),
                VNode::Sl(v) => SetLen::set_len(&mut **v, len),
            }
        }
    }
}

impl VNode {
    fn members(self) -> Vec<M> {
        match self {
            VNode::List(v) => v,
            VNode::U0(()) => vec![],
            VNode::T1((a,)) => vec![a],
            VNode::T2((a, (b,))) => vec![a, b],
            VNode::T3((a, (b, (c,)))) => vec![a, b, c],
            VNode::U1((a, ())) => vec![a],
            VNode::U2((a, (b, ()))) => vec![a, b],
            VNode::U3((a, (b, (c, ())))) => vec![a, b, c],
            VNode::Sl(v) => (*v).into_inner().members(),
        }
    }
    fn write_pat(&mut self, j: usize, n: usize) {
        let mut w = 0usize;
        for s in self.iter_uninit_slice() {
            for cell in s.iter_mut() {
                if w < n {
                    cell.write(pat(j, w));
                    w += 1;
                }
            }
        }
    }
}

fn mk_container(kind: u64, mut ms: Vec<M>) -> Result<VNode, BadCase> {
    let n = ms.len();
    let mut it = ms.drain(..);
    let mut nx = || it.next().unwrap();
    Ok(match (kind, n) {
        (0, n) if n <= 6 => {
            let mut v = Vec::new();
            for _ in 0..n {
                v.push(nx());
            }
            VNode::List(v)
        }
        (1, 1) => VNode::T1((nx(),)),
        (1, 2) => VNode::T2((nx(), (nx(),))),
        (1, 3) => VNode::T3((nx(), (nx(), (nx(),)))),
        (2, 0) => VNode::U0(()),
        (2, 1) => VNode::U1((nx(), ())),
        (2, 2) => VNode::U2((nx(), (nx(), ()))),
        (2, 3) => VNode::U3((nx(), (nx(), (nx(), ())))),
        _ => return Err(BadCase),
    })
}

/// `7 ns (m o n)* nu (m o n)*`: the k-th slice yielded belongs to member
/// nm - count + k (a VectoredSlice only skips from the front)
fn query_v(out: &mut Vec<u64>, v: &mut VNode, bases: &[usize]) {
    let nm = bases.len();
    let li: Vec<(usize, usize)> = v.iter_slice().map(|s| (s.as_ptr() as usize, s.len())).collect();
    let lu: Vec<(usize, usize)> = v
        .iter_uninit_slice()
        .map(|s| (s.as_ptr() as usize, s.len()))
        .collect();
    out.push(7);
    for l in [li, lu] {
        out.push(l.len() as u64);
        for (k, (p, n)) in l.iter().enumerate() {
            let m = nm - l.len() + k;
            out.push(m as u64);
            out.push(p.wrapping_sub(bases[m]) as u64);
            out.push(*n as u64);
        }
    }
}

/// `8 m o l o' c` for the buffer view over the iterator; m = current member
fn query_i(out: &mut Vec<u64>, node: &mut Node<VectoredBufIter<VNode>>, m: usize, bases: &[usize]) {
    let (ip, il) = {
        let s = (*node).as_init();
        (s.as_ptr() as usize, s.len())
    };
    let (up, ul) = {
        let s = (*node).as_uninit();
        (s.as_ptr() as usize, s.len())
    };
    out.extend_from_slice(&[
        8,
        m as u64,
        ip.wrapping_sub(bases[m]) as u64,
        il as u64,
        up.wrapping_sub(bases[m]) as u64,
        ul as u64,
    ]);
}

enum Mode {
    V(VNode),
    /// iterator (possibly under Slice/Uninit wrappers), index of the current member
    I(Node<VectoredBufIter<VNode>>, usize),
}

fn run_vectored(c: &mut Case) -> Result<Vec<u64>, BadCase> {
    let container = c.take()?;
    let nm = c.take()?;
    if nm > 6 {
        return Err(BadCase);
    }
    let nm = nm as usize;
    match (container, nm) {
        (0, _) | (1, 1..=3) | (2, 0..=3) => {}
        _ => return Err(BadCase),
    }
    let mut specs = Vec::new();
    for _ in 0..nm {
        let kind = c.take()?;
        let len = c.take()?;
        let cap = c.take()?;
        if len > 64 || cap > 64 {
            return Err(BadCase);
        }
        specs.push((kind, len as usize, cap as usize));
    }
    // validate the specs before anything runs (the model rejects the whole case)
    for &(k, l, cp) in &specs {
        let ok = l <= cp
            && match k {
                0 | 5 => true,
                1 => l == cp && cp <= 16,
                2 => l == cp,
                3 => cp <= 16,
                4 => cp >= 4,
                _ => false,
            };
        if !ok {
            return Err(BadCase);
        }
    }
    let ns = c.take()?;
    if ns > 64 {
        return Err(BadCase);
    }
    let mut steps = Vec::new();
    for _ in 0..ns {
        let code = c.take()?;
        let a = c.take()? as usize;
        if code > 13 {
            return Err(BadCase);
        }
        steps.push((code, a));
    }
    if !c.rest().is_empty() {
        return Err(BadCase);
    }
    let mut ms = Vec::new();
    let mut bases = Vec::new();
    let mut caps = Vec::new();
    for (k, l, cp) in specs {
        let mut m = mk_root(k, l, cp)?;
        bases.push(base_of(&mut m));
        caps.push(cp);
        ms.push(m);
    }
    let mut out = Vec::new();
    let mut j = 0usize;
    let mut mode = Mode::V(mk_container(container, ms)?);
    if let Mode::V(v) = &mut mode {
        query_v(&mut out, v, &bases);
    }
    for (code, a) in steps {
        mode = match (mode, code) {
            (Mode::V(v), 0) => Mode::V(v),
            (Mode::V(v), 1) => Mode::V(VNode::Sl(Box::new(v.slice(a)))),
            (Mode::V(v), 2) => Mode::V(VNode::Sl(Box::new(v.slice_mut(a)))),
            (Mode::V(mut v), 3) => {
                v.write_pat(j, a);
                unsafe { v.advance_vec_to(a) };
                j += 1;
                Mode::V(v)
            }
            (Mode::V(mut v), 4) => {
                v.write_pat(j, a);
                unsafe { v.set_len(a) };
                j += 1;
                Mode::V(v)
            }
            (Mode::V(v), 5) => {
                let count = v.iter_slice().count();
                match v.owned_iter() {
                    Ok(it) => Mode::I(Node::Root(it), nm - count),
                    Err(v) => {
                        out.push(9);
                        Mode::V(v)
                    }
                }
            }
            (Mode::I(mut n, m), 6) => {
                n.write_pat(j, a);
                unsafe { n.advance_to(a) };
                j += 1;
                Mode::I(n, m)
            }
            (Mode::I(mut n, m), 7) => {
                n.write_pat(j, a);
                unsafe { n.set_len(a) };
                j += 1;
                Mode::I(n, m)
            }
            (Mode::I(n, m), 8) => {
                if n.wrapped() {
                    return Err(BadCase);
                }
                match n.into_root().next() {
                    Ok(it) => Mode::I(Node::Root(it), m + 1),
                    Err(v) => {
                        out.push(9);
                        Mode::V(v)
                    }
                }
            }
            (Mode::I(mut n, m), 9) => {
                n.write_pat(j, a);
                unsafe { n.advance(a) };
                j += 1;
                Mode::I(n, m)
            }
            (Mode::I(n, m), 10) => Mode::I(n.wrap_slice(a, None), m),
            (Mode::I(n, m), 11) => Mode::I(n.wrap_uninit(), m),
            (Mode::I(n, m), 12) => Mode::I(n.wrap_slice(0, Some(a)), m),
            (Mode::I(mut n, m), 13) => {
                let chunk: Vec<u8> = (0..a).map(|i| pat(j, i)).collect();
                let end = bases[m] + caps[m];
                let res = n.pre_extend(a, &|_| end, &|_| {});
                let real = match n.extend_from_slice(&chunk) {
                    Ok(()) => 0,
                    Err(e) if e.is_not_supported() => 1,
                    Err(_) => 2,
                };
                assert_eq!(res, real, "reserve and extend_from_slice disagree");
                out.push(real);
                j += 1;
                Mode::I(n, m)
            }
            _ => return Err(BadCase),
        };
        match &mut mode {
            Mode::V(v) => query_v(&mut out, v, &bases),
            Mode::I(n, m) => query_i(&mut out, n, *m, &bases),
        }
    }
    let v = match mode {
        Mode::V(v) => v,
        Mode::I(n, _) => n.into_root().into_inner(),
    };
    for mut m in v.members() {
        enc_root(&mut out, &mut m);
    }
    Ok(out)
}

fn run_inner(case: &[u64]) -> Result<Vec<u64>, BadCase> {
    let mut c = Case::new(case);
    match c.take()? {
        1 => run_buffer(&mut c),
        2 => run_vectored(&mut c),
        _ => Err(BadCase),
    }
}

fn run(case: &[u64]) -> Result<Vec<u64>, BadCase> {
    match std::panic::catch_unwind(|| run_inner(case)) {
        Ok(r) => r,
        Err(p) => {
            if p.is::<UbTrap>() {
                Ok(vec![2, 4])
            } else {
                std::panic::resume_unwind(p)
            }
        }
    }
}

fn main() {
    main_loop(run);
}
