//! C13 correspondence harness: runs compio-io's framers / `Framed` sink and
//! stream / ancillary builder and iterator on the cases the Coq model
//! (coq/model/RunC13.v) interprets, printing the same result encoding.
use std::{
    cell::{Cell, RefCell},
    collections::VecDeque,
    mem::MaybeUninit,
    rc::Rc,
};

use compio_buf::{BufResult, IoBuf, IoBufExt, IoBufMut, IoBufMutExt, SetLen, SetLenExt, bytes::Bytes};
use compio_io::{
    AsyncRead, AsyncWrite,
    ancillary::{AncillaryBuf, AncillaryBuilder, AncillaryData, AncillaryIter, CodecError},
    framed::{
        Framed,
        codec::{Decoder, Encoder, bytes::BytesCodec},
        frame::{AnyDelimited, CharDelimited, Framer, LengthDelimited, LineDelimited, NoopFramer},
    },
};
use futures_executor::block_on;
use futures_util::{SinkExt, StreamExt};
use verif_harness::*;

type IoResult<T> = std::io::Result<T>;

// ---------------------------------------------------------------------------
// the environment: one byte stream shared by the sink's writer and the
// stream's reader; the reader delivers it as the schedule says

#[derive(Default)]
struct Pipe {
    data: Vec<u8>,
    pos: usize,
    sched: VecDeque<(u64, u64)>,
    reads: u64,
    wchunk: usize,
}

#[derive(Clone, Default)]
struct Shared(Rc<RefCell<Pipe>>);

impl AsyncRead for Shared {
    async fn read<B: IoBufMut>(&mut self, mut buf: B) -> BufResult<usize, B> {
        let mut p = self.0.borrow_mut();
        p.reads += 1;
        match p.sched.pop_front() {
            // exhausted script = end of file, for ever
            None => BufResult(Ok(0), buf),
            Some((0, n)) => {
                let cap = buf.buf_capacity();
                let k = (n as usize).min(cap).min(p.data.len() - p.pos);
                if k > 0 {
                    let dst = buf.as_uninit();
                    for i in 0..k {
                        dst[i].write(p.data[p.pos + i]);
                    }
                    p.pos += k;
                    unsafe { buf.advance_to(k) };
                }
                BufResult(Ok(k), buf)
            }
            Some((_, kind)) => BufResult(Err(mk_err(kind)), buf),
        }
    }
}

impl AsyncWrite for Shared {
    async fn write<T: IoBuf>(&mut self, buf: T) -> BufResult<usize, T> {
        let mut p = self.0.borrow_mut();
        let s = buf.as_init();
        let k = s.len().min(p.wchunk.max(1));
        p.data.extend_from_slice(&s[..k]);
        drop(p);
        BufResult(Ok(k), buf)
    }

    async fn flush(&mut self) -> IoResult<()> {
        Ok(())
    }

    async fn shutdown(&mut self) -> IoResult<()> {
        Ok(())
    }
}

// ---------------------------------------------------------------------------
// framer parameters

enum Fr {
    Len(usize, bool),
    Any(Vec<u8>),
    Char(u64),
    Noop,
}

fn byte_vec(s: &[u64]) -> Result<Vec<u8>, BadCase> {
    s.iter()
        .map(|&b| if b < 256 { Ok(b as u8) } else { Err(BadCase) })
        .collect()
}

thread_local! {
    /// the construction path of the case: 0 new(), 1 default(), 2 new().clone(), 3 default().clone()
    static CTOR: Cell<u64> = const { Cell::new(0) };
}

/// a framer / codec value through the construction path of the case
fn via<T: Clone>(new: impl FnOnce() -> T, default: impl FnOnce() -> T) -> T {
    match CTOR.with(|c| c.get()) {
        0 => new(),
        1 => default(),
        2 => {
            let v = new();
            v.clone()
        }
        _ => {
            let v = default();
            v.clone()
        }
    }
}

fn bytes_codec() -> BytesCodec {
    via(BytesCodec::new, BytesCodec::default)
}

/// `kind + 10 * ctor`; AnyDelimited has no Default (ctor 0 or 2 only)
fn dec_framer(c: &mut Case) -> Result<Fr, BadCase> {
    let k = c.take()?;
    let (kind, ctor) = (k % 10, k / 10);
    if ctor > 3 || (kind == 2 && ctor % 2 == 1) {
        return Err(BadCase);
    }
    CTOR.with(|c| c.set(ctor));
    match kind {
        1 => {
            let lfl = c.take()? as usize;
            let be = c.take()?;
            if !(1..=8).contains(&lfl) || be > 1 {
                return Err(BadCase);
            }
            Ok(Fr::Len(lfl, be == 1))
        }
        2 => {
            let d = byte_vec(c.bytes()?)?;
            if d.is_empty() {
                return Err(BadCase);
            }
            Ok(Fr::Any(d))
        }
        3 => {
            let id = c.take()?;
            if id > 4 {
                return Err(BadCase);
            }
            Ok(Fr::Char(id))
        }
        4 => Ok(Fr::Noop),
        _ => Err(BadCase),
    }
}

macro_rules! dispatch {
    ($fr:expr, $func:ident $(, $arg:expr)*) => {
        match $fr {
            Fr::Len(l, be) => $func(
                via(LengthDelimited::new, LengthDelimited::default)
                    .set_length_field_len(*l)
                    .set_length_field_is_big_endian(*be),
                $($arg),*
            ),
            Fr::Any(d) => $func(via(|| AnyDelimited::new(d), || AnyDelimited::new(d)), $($arg),*),
            Fr::Char(0) => $func(via(CharDelimited::<'\n'>::new, LineDelimited::default), $($arg),*),
            Fr::Char(1) => $func(via(CharDelimited::<'é'>::new, CharDelimited::<'é'>::default), $($arg),*),
            Fr::Char(2) => $func(via(CharDelimited::<'ℝ'>::new, CharDelimited::<'ℝ'>::default), $($arg),*),
            Fr::Char(3) => $func(via(CharDelimited::<'😀'>::new, CharDelimited::<'😀'>::default), $($arg),*),
            Fr::Char(_) => $func(via(CharDelimited::<'€'>::new, CharDelimited::<'€'>::default), $($arg),*),
            Fr::Noop => $func(via(NoopFramer::new, NoopFramer::default), $($arg),*),
        }
    };
}

fn dec_frames(c: &mut Case) -> Result<Vec<Vec<u8>>, BadCase> {
    let n = c.take()? as usize;
    let mut v = Vec::new();
    for _ in 0..n {
        v.push(byte_vec(c.bytes()?)?);
    }
    Ok(v)
}

fn dec_sched(c: &mut Case) -> Result<VecDeque<(u64, u64)>, BadCase> {
    let n = c.take()? as usize;
    let s = c.sched(n)?;
    if s.iter().any(|&(k, _)| k > 1) {
        return Err(BadCase);
    }
    Ok(s)
}

const HANG: [u64; 2] = [2, 8];

/// sink side: start_send + flush for every frame, then close
fn encode_with<F: Framer<Vec<u8>> + Unpin>(framer: F, pipe: &Shared, frames: &[Vec<u8>]) {
    let mut framed = Framed::symmetric::<Bytes>(bytes_codec(), framer).with_writer(pipe.clone());
    block_on(async {
        for f in frames {
            framed.send(Bytes::from(f.clone())).await.expect("sink error");
        }
        framed.close().await.expect("close error");
    });
}

/// stream side: poll until the stream ends; `[nitems; items..; nreads; remaining]`
fn decode_with<F: Framer<Vec<u8>> + Unpin>(framer: F, pipe: &Shared, out: &mut Vec<u64>) -> bool {
    decode_generic(bytes_codec(), framer, pipe, out)
}

fn decode_probe_with<F: Framer<Vec<u8>> + Unpin>(framer: F, pipe: &Shared, out: &mut Vec<u64>) -> bool {
    decode_generic(ProbeCodec, framer, pipe, out)
}

fn decode_generic<C, F>(codec: C, framer: F, pipe: &Shared, out: &mut Vec<u64>) -> bool
where
    C: Decoder<Bytes, Vec<u8>, Error = std::io::Error> + Unpin,
    F: Framer<Vec<u8>> + Unpin,
{
    let mut framed = Framed::new::<(), Bytes>(codec, framer).with_reader(pipe.clone());
    let mut items: Vec<u64> = Vec::new();
    let mut n = 0u64;
    let mut hang = false;
    block_on(async {
        while let Some(item) = framed.next().await {
            n += 1;
            match item {
                Ok(b) => {
                    items.push(0);
                    items.push(b.len() as u64);
                    items.extend(b.iter().map(|&x| x as u64));
                }
                Err(e) => {
                    items.push(1);
                    items.push(code_of(e.kind()));
                }
            }
            if n > 2_000_000 {
                hang = true;
                break;
            }
        }
    });
    if hang {
        return false;
    }
    let p = pipe.0.borrow();
    out.push(n);
    out.extend_from_slice(&items);
    out.push(p.reads);
    out.push((p.data.len() - p.pos) as u64);
    true
}

/// `Framer::extract` on `vec.slice(begin..)`, then `Frame::slice`
fn extract_with<F: Framer<Vec<u8>>>(mut framer: F, begin: usize, data: Vec<u8>, out: &mut Vec<u64>) {
    let total = data.len();
    let buf = data.slice(begin..);
    match framer.extract(&buf) {
        Ok(None) => out.extend_from_slice(&[0, 0]),
        Ok(Some(frame)) => {
            // the fields are private: read them from the Debug rendering
            let dbg = format!("{:?}", frame);
            let mut nums: Vec<u64> = Vec::new();
            let mut cur: Option<u64> = None;
            for ch in dbg.chars() {
                if let Some(d) = ch.to_digit(10) {
                    cur = Some(cur.unwrap_or(0) * 10 + d as u64);
                } else if let Some(v) = cur.take() {
                    nums.push(v);
                }
            }
            if let Some(v) = cur {
                nums.push(v);
            }
            assert_eq!(nums.len(), 3, "Frame debug format");
            out.extend_from_slice(&[0, 1, nums[0], nums[1], nums[2]]);
            let flen = frame.len();
            out.push(flen as u64);
            let payload = frame.slice(buf);
            let p = payload.as_init();
            out.push(p.len() as u64);
            out.extend(p.iter().map(|&x| x as u64));
            let _ = total;
        }
        Err(e) => out.extend_from_slice(&[1, code_of(e.kind())]),
    }
}

// ---------------------------------------------------------------------------
// a codec that can fail: `encode` writes the first k bytes of a flagged item
// into the buffer and then returns an error (as a serialiser does when it hits
// an unrepresentable value half way); `decode` rejects frames starting with 255

struct ProbeCodec;

struct SItem {
    data: Vec<u8>,
    fail: Option<usize>,
}

impl Encoder<SItem, Vec<u8>> for ProbeCodec {
    type Error = std::io::Error;

    fn encode(&mut self, item: SItem, buf: &mut Vec<u8>) -> Result<(), Self::Error> {
        match item.fail {
            None => {
                IoBufMutExt::extend_from_slice(buf, &item.data).expect("reserve");
                Ok(())
            }
            Some(k) => {
                let k = k.min(item.data.len());
                IoBufMutExt::extend_from_slice(buf, &item.data[..k]).expect("reserve");
                Err(mk_err(22))
            }
        }
    }
}

impl Decoder<Bytes, Vec<u8>> for ProbeCodec {
    type Error = std::io::Error;

    fn decode(&mut self, buf: &compio_buf::Slice<Vec<u8>>) -> Result<Bytes, Self::Error> {
        let s: &[u8] = buf;
        if s.first() == Some(&255) {
            Err(mk_err(22))
        } else {
            Ok(Bytes::from(s.to_vec()))
        }
    }
}

/// scripted writer with an event log (same conventions as the C11 harness):
/// (0, n) accept at most n bytes (0 = Ok(0)); (1, kind) error; (2, _) Pending
/// once, then the next answer; exhausted script accepts nothing
#[derive(Default)]
struct WScript {
    sched: VecDeque<(u64, u64)>,
    log: Vec<Vec<u64>>,
}

#[derive(Clone, Default)]
struct LogWriter(Rc<RefCell<WScript>>);

struct YieldOnce(bool);

impl std::future::Future for YieldOnce {
    type Output = ();

    fn poll(mut self: std::pin::Pin<&mut Self>, cx: &mut std::task::Context<'_>) -> std::task::Poll<()> {
        if self.0 {
            std::task::Poll::Ready(())
        } else {
            self.0 = true;
            cx.waker().wake_by_ref();
            std::task::Poll::Pending
        }
    }
}

impl AsyncWrite for LogWriter {
    async fn write<T: IoBuf>(&mut self, buf: T) -> BufResult<usize, T> {
        loop {
            let a = self.0.borrow_mut().sched.pop_front();
            match a {
                None => return BufResult(Ok(0), buf),
                Some((0, n)) => {
                    let s = buf.as_init();
                    let k = (n as usize).min(s.len());
                    if k > 0 {
                        let mut e = vec![1, k as u64];
                        e.extend(s[..k].iter().map(|&b| b as u64));
                        self.0.borrow_mut().log.push(e);
                    }
                    return BufResult(Ok(k), buf);
                }
                Some((1, kind)) => return BufResult(Err(mk_err(kind)), buf),
                Some(_) => YieldOnce(false).await,
            }
        }
    }

    async fn flush(&mut self) -> IoResult<()> {
        self.0.borrow_mut().log.push(vec![2]);
        Ok(())
    }

    async fn shutdown(&mut self) -> IoResult<()> {
        self.0.borrow_mut().log.push(vec![3]);
        Ok(())
    }
}

enum SOp {
    Feed(SItem),
    Send(SItem),
    Flush,
    Close,
}

fn dec_sitem(c: &mut Case) -> Result<SItem, BadCase> {
    let fail = c.take()?;
    let k = c.take()? as usize;
    let data = byte_vec(c.bytes()?)?;
    if fail > 1 {
        return Err(BadCase);
    }
    Ok(SItem {
        data,
        fail: if fail == 1 { Some(k) } else { None },
    })
}

fn dec_sops(c: &mut Case) -> Result<Vec<SOp>, BadCase> {
    let n = c.take()? as usize;
    let mut v = Vec::new();
    for _ in 0..n {
        v.push(match c.take()? {
            1 => SOp::Feed(dec_sitem(c)?),
            2 => SOp::Send(dec_sitem(c)?),
            3 => SOp::Flush,
            4 => SOp::Close,
            _ => return Err(BadCase),
        });
    }
    Ok(v)
}

/// the real Framed sink driven by a program of feed / send / flush / close
fn sink_with<F: Framer<Vec<u8>> + Unpin>(framer: F, w: &LogWriter, ops: Vec<SOp>, out: &mut Vec<u64>) {
    let mut framed = Framed::new::<SItem, Bytes>(ProbeCodec, framer).with_writer(w.clone());
    block_on(async {
        for op in ops {
            let r = match op {
                SOp::Feed(it) => framed.feed(it).await,
                SOp::Send(it) => framed.send(it).await,
                SOp::Flush => SinkExt::<SItem>::flush(&mut framed).await,
                SOp::Close => SinkExt::<SItem>::close(&mut framed).await,
            };
            match r {
                Ok(()) => out.extend_from_slice(&[0, 0]),
                Err(e) => out.extend_from_slice(&[1, code_of(e.kind())]),
            }
        }
    });
    let st = w.0.borrow();
    out.push(st.log.len() as u64);
    for e in &st.log {
        out.extend_from_slice(e);
    }
}

// ---------------------------------------------------------------------------
// ancillary data

/// a control buffer of run-time capacity, aligned like cmsghdr
struct DynBuf {
    words: Vec<u64>,
    cap: usize,
    len: usize,
}

impl DynBuf {
    fn new(cap: usize) -> Self {
        Self {
            words: vec![0u64; cap.div_ceil(8) + 1],
            cap,
            len: 0,
        }
    }
    fn from_bytes(bs: &[u8]) -> Self {
        let mut b = Self::new(bs.len());
        b.bytes_mut()[..bs.len()].copy_from_slice(bs);
        b.len = bs.len();
        b
    }
    fn bytes_mut(&mut self) -> &mut [u8] {
        unsafe { std::slice::from_raw_parts_mut(self.words.as_mut_ptr() as *mut u8, self.cap) }
    }
}

impl IoBuf for DynBuf {
    fn as_init(&self) -> &[u8] {
        unsafe { std::slice::from_raw_parts(self.words.as_ptr() as *const u8, self.len) }
    }
}

impl SetLen for DynBuf {
    unsafe fn set_len(&mut self, len: usize) {
        assert!(len <= self.cap, "assertion failed: set_len beyond capacity");
        self.len = len;
    }
}

impl IoBufMut for DynBuf {
    fn as_uninit(&mut self) -> &mut [MaybeUninit<u8>] {
        unsafe { std::slice::from_raw_parts_mut(self.words.as_mut_ptr() as *mut MaybeUninit<u8>, self.cap) }
    }
}

thread_local! {
    static PROBE: Cell<(usize, usize)> = const { Cell::new((0, 0)) };
}

/// reports the slice `decode` is handed, without touching it
struct Probe;

impl AncillaryData for Probe {
    const SIZE: usize = 0;

    fn encode(&self, _: &mut [MaybeUninit<u8>]) -> Result<(), CodecError> {
        Ok(())
    }

    fn decode(buffer: &[u8]) -> Result<Self, CodecError> {
        PROBE.with(|p| p.set((buffer.as_ptr() as usize, buffer.len())));
        Ok(Probe)
    }
}

struct Msg {
    level: u32,
    ty: u32,
    kind: u64, // 0 = [u8; n], 1 = in_addr, 2 = in_pktinfo, 3 = in6_pktinfo
    data: Vec<u8>,
}

const MAX_DATA: usize = 40;

macro_rules! by_size {
    ($n:expr, $f:ident, $args:tt) => {
        by_size!(@go $n, $f, $args,
            0 1 2 3 4 5 6 7 8 9 10 11 12 13 14 15 16 17 18 19 20 21 22 23 24 25 26 27 28 29 30
            31 32 33 34 35 36 37 38 39 40)
    };
    (@go $n:expr, $f:ident, $args:tt, $($s:literal)*) => {
        match $n {
            $($s => $f::<$s> $args,)*
            _ => unreachable!(),
        }
    };
}

fn push_arr<const S: usize>(
    b: &mut AncillaryBuilder<'_, dyn IoBufMut>,
    level: i32,
    ty: i32,
    data: &[u8],
) -> Result<(), CodecError> {
    let mut a = [0u8; S];
    a.copy_from_slice(data);
    b.push(level, ty, &a)
}

fn data_arr<const S: usize>(r: &compio_io::ancillary::AncillaryRef<'_>) -> Result<Vec<u8>, CodecError> {
    r.data::<[u8; S]>().map(|a| a.to_vec())
}

fn push_msg(b: &mut AncillaryBuilder<'_, dyn IoBufMut>, m: &Msg) -> Result<(), CodecError> {
    let (level, ty) = (m.level as i32, m.ty as i32);
    match m.kind {
        0 => by_size!(m.data.len(), push_arr, (b, level, ty, &m.data)),
        1 => {
            let v = libc::in_addr {
                s_addr: u32::from_ne_bytes(m.data[..4].try_into().unwrap()),
            };
            b.push(level, ty, &v)
        }
        2 => {
            let w = |i: usize| u32::from_ne_bytes(m.data[i..i + 4].try_into().unwrap());
            let v = libc::in_pktinfo {
                ipi_ifindex: w(0) as i32,
                ipi_spec_dst: libc::in_addr { s_addr: w(4) },
                ipi_addr: libc::in_addr { s_addr: w(8) },
            };
            b.push(level, ty, &v)
        }
        _ => {
            let mut a = [0u8; 16];
            a.copy_from_slice(&m.data[..16]);
            let v = libc::in6_pktinfo {
                ipi6_addr: libc::in6_addr { s6_addr: a },
                ipi6_ifindex: u32::from_ne_bytes(m.data[16..20].try_into().unwrap()),
            };
            b.push(level, ty, &v)
        }
    }
}

fn typed_data(r: &compio_io::ancillary::AncillaryRef<'_>, kind: u64, want: usize) -> Result<Vec<u8>, CodecError> {
    match kind {
        0 => by_size!(want, data_arr, (r)),
        1 => r.data::<libc::in_addr>().map(|v| v.s_addr.to_ne_bytes().to_vec()),
        2 => r.data::<libc::in_pktinfo>().map(|v| {
            let mut o = (v.ipi_ifindex as u32).to_ne_bytes().to_vec();
            o.extend(v.ipi_spec_dst.s_addr.to_ne_bytes());
            o.extend(v.ipi_addr.s_addr.to_ne_bytes());
            o
        }),
        _ => r.data::<libc::in6_pktinfo>().map(|v| {
            let mut o = v.ipi6_addr.s6_addr.to_vec();
            o.extend(v.ipi6_ifindex.to_ne_bytes());
            o
        }),
    }
}

fn dec_msgs(c: &mut Case) -> Result<Vec<Msg>, BadCase> {
    let n = c.take()? as usize;
    let mut v = Vec::new();
    for _ in 0..n {
        let level = c.take()?;
        let ty = c.take()?;
        let kind = c.take()?;
        let data = byte_vec(c.bytes()?)?;
        let ok = match kind {
            0 => data.len() <= MAX_DATA,
            1 => data.len() == 4,
            2 => data.len() == 12,
            3 => data.len() == 20,
            _ => false,
        };
        if !ok || level >= 1 << 32 || ty >= 1 << 32 {
            return Err(BadCase);
        }
        v.push(Msg {
            level: level as u32,
            ty: ty as u32,
            kind,
            data,
        });
    }
    Ok(v)
}

/// real `AncillaryBuf<N>` for the sizes listed, a run-time sized buffer otherwise
enum Ctl {
    A0(AncillaryBuf<0>),
    A8(AncillaryBuf<8>),
    A15(AncillaryBuf<15>),
    A16(AncillaryBuf<16>),
    A17(AncillaryBuf<17>),
    A24(AncillaryBuf<24>),
    A32(AncillaryBuf<32>),
    A40(AncillaryBuf<40>),
    A48(AncillaryBuf<48>),
    A56(AncillaryBuf<56>),
    A64(AncillaryBuf<64>),
    A80(AncillaryBuf<80>),
    A96(AncillaryBuf<96>),
    Dyn(DynBuf),
}

impl Ctl {
    fn new(n: usize) -> Self {
        match n {
            0 => Ctl::A0(AncillaryBuf::new()),
            8 => Ctl::A8(AncillaryBuf::new()),
            15 => Ctl::A15(AncillaryBuf::new()),
            16 => Ctl::A16(AncillaryBuf::new()),
            17 => Ctl::A17(AncillaryBuf::new()),
            24 => Ctl::A24(AncillaryBuf::new()),
            32 => Ctl::A32(AncillaryBuf::new()),
            40 => Ctl::A40(AncillaryBuf::new()),
            48 => Ctl::A48(AncillaryBuf::new()),
            56 => Ctl::A56(AncillaryBuf::new()),
            64 => Ctl::A64(AncillaryBuf::new()),
            80 => Ctl::A80(AncillaryBuf::new()),
            96 => Ctl::A96(AncillaryBuf::new()),
            _ => Ctl::Dyn(DynBuf::new(n)),
        }
    }
    fn as_dyn(&mut self) -> &mut (dyn IoBufMut + 'static) {
        match self {
            Ctl::A0(b) => b,
            Ctl::A8(b) => b,
            Ctl::A15(b) => b,
            Ctl::A16(b) => b,
            Ctl::A17(b) => b,
            Ctl::A24(b) => b,
            Ctl::A32(b) => b,
            Ctl::A40(b) => b,
            Ctl::A48(b) => b,
            Ctl::A56(b) => b,
            Ctl::A64(b) => b,
            Ctl::A80(b) => b,
            Ctl::A96(b) => b,
            Ctl::Dyn(b) => b,
        }
    }
}

/// pushes every message; returns the statuses (0 pushed, 1 BufferTooSmall, 2 other error)
fn build(ctl: &mut Ctl, msgs: &[Msg]) -> Vec<u64> {
    let mut b = AncillaryBuilder::new(ctl.as_dyn());
    msgs.iter()
        .map(|m| match push_msg(&mut b, m) {
            Ok(()) => 0,
            Err(CodecError::BufferTooSmall) => 1,
            Err(_) => 2,
        })
        .collect()
}

fn lo_hi(out: &mut Vec<u64>, x: u64) {
    out.push(x & 0xffff_ffff);
    out.push(x >> 32);
}

/// `[nitems; (level ty len_lo len_hi off plen_lo plen_hi status [n bytes..])*]`;
/// `kinds[i]`/`want`: which typed decode is tried on message i
fn iterate(bytes: &[u8], kinds: Option<&[(u64, usize)]>, want: usize, out: &mut Vec<u64>) {
    let base = bytes.as_ptr() as usize;
    let total = bytes.len();
    let mut items = Vec::new();
    let mut n = 0u64;
    for (i, cmsg) in unsafe { AncillaryIter::new(bytes) }.enumerate() {
        n += 1;
        items.push(cmsg.level() as u32 as u64);
        items.push(cmsg.ty() as u32 as u64);
        lo_hi(&mut items, cmsg.len() as u64);
        let _ = cmsg.data::<Probe>();
        let (ptr, plen) = PROBE.with(|p| p.get());
        let off = ptr.wrapping_sub(base);
        items.push(off as u64);
        lo_hi(&mut items, plen as u64);
        let (kind, w) = match kinds {
            Some(k) => k.get(i).copied().unwrap_or((0, 0)),
            None => (0, want),
        };
        if w <= plen && off.checked_add(w).is_none_or(|e| e > total) {
            // the typed decode would read outside the buffer: not attempted
            items.push(2);
        } else {
            match typed_data(&cmsg, kind, w) {
                Ok(d) => {
                    items.push(0);
                    items.push(d.len() as u64);
                    items.extend(d.iter().map(|&x| x as u64));
                }
                Err(CodecError::BufferTooSmall) => items.push(1),
                Err(_) => items.push(3),
            }
        }
        if n > 1_000_000 {
            out.clear();
            out.extend_from_slice(&HANG);
            return;
        }
    }
    out.push(n);
    out.extend_from_slice(&items);
}

// ---------------------------------------------------------------------------

fn run(case: &[u64]) -> Result<Vec<u64>, BadCase> {
    let mut c = Case::new(case);
    let mut out = vec![0];
    match c.take()? {
        1 => {
            // encode: framer, wchunk, frames
            let fr = dec_framer(&mut c)?;
            let wchunk = c.take()? as usize;
            let frames = dec_frames(&mut c)?;
            let pipe = Shared::default();
            pipe.0.borrow_mut().wchunk = wchunk;
            dispatch!(&fr, encode_with, &pipe, &frames);
            let p = pipe.0.borrow();
            out.push(p.data.len() as u64);
            out.extend(p.data.iter().map(|&x| x as u64));
        }
        2 => {
            // decode a given byte stream: framer, schedule, bytes
            let fr = dec_framer(&mut c)?;
            let sched = dec_sched(&mut c)?;
            let data = byte_vec(c.rest())?;
            let pipe = Shared::default();
            {
                let mut p = pipe.0.borrow_mut();
                p.sched = sched;
                p.data = data;
            }
            if !dispatch!(&fr, decode_with, &pipe, &mut out) {
                return Ok(HANG.to_vec());
            }
        }
        3 => {
            // round trip: framer, wchunk, frames, schedule
            let fr = dec_framer(&mut c)?;
            let wchunk = c.take()? as usize;
            let frames = dec_frames(&mut c)?;
            let sched = dec_sched(&mut c)?;
            let pipe = Shared::default();
            pipe.0.borrow_mut().wchunk = wchunk;
            dispatch!(&fr, encode_with, &pipe, &frames);
            {
                let mut p = pipe.0.borrow_mut();
                p.sched = sched;
                out.push(p.data.len() as u64);
                let d: Vec<u64> = p.data.iter().map(|&x| x as u64).collect();
                out.extend(d);
            }
            if !dispatch!(&fr, decode_with, &pipe, &mut out) {
                return Ok(HANG.to_vec());
            }
        }
        4 => {
            // extract on hostile bytes: framer, begin, bytes
            let fr = dec_framer(&mut c)?;
            let begin = c.take()? as usize;
            let data = byte_vec(c.rest())?;
            if begin > data.len() {
                return Err(BadCase);
            }
            dispatch!(&fr, extract_with, begin, data, &mut out);
        }
        5 | 6 => {
            // build [and iterate]: capacity, messages
            let op = case[0];
            let n = c.take()? as usize;
            if n > 4096 {
                return Err(BadCase);
            }
            let msgs = dec_msgs(&mut c)?;
            let mut ctl = Ctl::new(n);
            let st = build(&mut ctl, &msgs);
            out.extend_from_slice(&st);
            let filled: Vec<u8> = <dyn IoBufMut as IoBuf>::as_init(ctl.as_dyn()).to_vec();
            out.push(filled.len() as u64);
            if op == 5 {
                out.extend(filled.iter().map(|&x| x as u64));
            } else {
                let kinds: Vec<(u64, usize)> = msgs
                    .iter()
                    .zip(&st)
                    .filter(|(_, s)| **s == 0)
                    .map(|(m, _)| (m.kind, m.data.len()))
                    .collect();
                // iterate over the filled part, in place (aligned)
                let d = DynBuf::from_bytes(&filled);
                iterate(d.as_init(), Some(&kinds), 0, &mut out);
            }
        }
        7 => {
            // iterate over given bytes: want, bytes
            let want = c.take()? as usize;
            if want > MAX_DATA {
                return Err(BadCase);
            }
            let data = byte_vec(c.rest())?;
            let d = DynBuf::from_bytes(&data);
            iterate(d.as_init(), None, want, &mut out);
        }
        8 => {
            // sink program with the failing codec: framer, ops, writer script
            let fr = dec_framer(&mut c)?;
            let ops = dec_sops(&mut c)?;
            let n = c.take()? as usize;
            let sched = c.sched(n)?;
            if sched.iter().any(|&(k, _)| k > 2) {
                return Err(BadCase);
            }
            let w = LogWriter::default();
            w.0.borrow_mut().sched = sched;
            dispatch!(&fr, sink_with, &w, ops, &mut out);
        }
        9 => {
            // decode with the failing decoder: framer, schedule, bytes
            let fr = dec_framer(&mut c)?;
            let sched = dec_sched(&mut c)?;
            let data = byte_vec(c.rest())?;
            let pipe = Shared::default();
            {
                let mut p = pipe.0.borrow_mut();
                p.sched = sched;
                p.data = data;
            }
            if !dispatch!(&fr, decode_probe_with, &pipe, &mut out) {
                return Ok(HANG.to_vec());
            }
        }
        _ => return Err(BadCase),
    }
    Ok(out)
}

fn main() {
    main_loop(run);
}
