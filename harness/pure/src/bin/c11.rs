//! C11 correspondence harness: runs compio-io's helper algorithms on the
//! cases the Coq model (coq/model/RunC11.v) interprets, printing the same
//! result encoding.
use std::{cell::RefCell, collections::VecDeque, rc::Rc};

use compio_buf::{BufResult, IoBuf, IoBufExt, IoBufMut, IoBufMutExt, SetLenExt};
use compio_io::{util::copy_with_size, *};
type IoResult<T> = std::io::Result<T>;
use futures_executor::block_on;
use verif_harness::*;

struct ScriptReader {
    sched: VecDeque<(u64, u64)>,
    src: Vec<u8>,
    pos: usize,
}

impl ScriptReader {
    fn new(sched: VecDeque<(u64, u64)>, src: &[u64]) -> Self {
        Self {
            sched,
            src: src.iter().map(|&b| b as u8).collect(),
            pos: 0,
        }
    }
    fn remaining(&self) -> u64 {
        (self.src.len() - self.pos) as u64
    }
}

impl AsyncRead for ScriptReader {
    async fn read<B: IoBufMut>(&mut self, mut buf: B) -> BufResult<usize, B> {
        match self.sched.pop_front() {
            None => BufResult(Ok(0), buf),
            Some((0, n)) => {
                let cap = buf.buf_capacity();
                let k = (n as usize).min(cap).min(self.src.len() - self.pos);
                if k > 0 {
                    let dst = buf.as_uninit();
                    for i in 0..k {
                        dst[i].write(self.src[self.pos + i]);
                    }
                    self.pos += k;
                    unsafe { buf.advance_to(k) };
                }
                BufResult(Ok(k), buf)
            }
            Some((1, kind)) => BufResult(Err(mk_err(kind)), buf),
            Some(_) => BufResult(Ok(0), buf),
        }
    }
}

#[derive(Default)]
struct WState {
    sched: VecDeque<(u64, u64)>,
    log: Vec<Vec<u64>>, // encoded events
    drain: bool,
    drained: Vec<u64>,
}

#[derive(Clone, Default)]
struct ScriptWriter(Rc<RefCell<WState>>);

impl std::fmt::Debug for ScriptWriter {
    fn fmt(&self, f: &mut std::fmt::Formatter<'_>) -> std::fmt::Result {
        f.write_str("ScriptWriter")
    }
}

impl ScriptWriter {
    fn new(sched: VecDeque<(u64, u64)>) -> Self {
        Self(Rc::new(RefCell::new(WState {
            sched,
            ..Default::default()
        })))
    }
    fn enc_log(&self, out: &mut Vec<u64>) {
        let st = self.0.borrow();
        out.push(st.log.len() as u64);
        for e in &st.log {
            out.extend_from_slice(e);
        }
    }
}

impl AsyncWrite for ScriptWriter {
    async fn write<T: IoBuf>(&mut self, buf: T) -> BufResult<usize, T> {
        let mut st = self.0.borrow_mut();
        if st.drain {
            let s = buf.as_init();
            st.drained.extend(s.iter().map(|&b| b as u64));
            let n = s.len();
            drop(st);
            return BufResult(Ok(n), buf);
        }
        match st.sched.pop_front() {
            None => BufResult(Ok(0), buf),
            Some((0, n)) => {
                let s = buf.as_init();
                let k = (n as usize).min(s.len());
                if k > 0 {
                    let mut e = vec![1, k as u64];
                    e.extend(s[..k].iter().map(|&b| b as u64));
                    st.log.push(e);
                }
                drop(st);
                BufResult(Ok(k), buf)
            }
            Some((1, kind)) => BufResult(Err(mk_err(kind)), buf),
            Some(_) => BufResult(Ok(0), buf),
        }
    }

    async fn flush(&mut self) -> IoResult<()> {
        let mut st = self.0.borrow_mut();
        if !st.drain {
            st.log.push(vec![2]);
        }
        Ok(())
    }

    async fn shutdown(&mut self) -> IoResult<()> {
        let mut st = self.0.borrow_mut();
        if !st.drain {
            st.log.push(vec![3]);
        }
        Ok(())
    }
}

fn enc_res<T>(out: &mut Vec<u64>, r: &std::io::Result<T>, val: impl Fn(&T) -> u64) {
    match r {
        Ok(v) => {
            out.push(0);
            out.push(val(v));
        }
        Err(e) => {
            out.push(1);
            out.push(code_of(e.kind()));
        }
    }
}

fn bytes_of(s: &[u64]) -> Vec<u8> {
    s.iter().map(|&b| b as u8).collect()
}

fn run(case: &[u64]) -> Result<Vec<u64>, BadCase> {
    let mut c = Case::new(case);
    let mut out = Vec::new();
    match c.take()? {
        1 => {
            let (len, cap) = c.len_cap()?;
            let ns = c.take()? as usize;
            let sched = c.sched(ns)?;
            let mut r = ScriptReader::new(sched, c.rest());
            let v = canary_vec(len, cap);
            let BufResult(res, v) = block_on(r.read_exact(v));
            // the model reports the number of bytes placed on success
            enc_res(&mut out, &res, |_| cap as u64);
            enc_vec(&mut out, cap, &v);
            out.push(r.remaining());
        }
        2 => {
            let (len, cap) = c.len_cap()?;
            let ns = c.take()? as usize;
            let sched = c.sched(ns)?;
            let mut r = ScriptReader::new(sched, c.rest());
            let v = canary_vec(len, cap);
            let BufResult(res, v) = block_on(r.read_to_end(v));
            enc_res(&mut out, &res, |n| *n as u64);
            enc_vec(&mut out, cap, &v);
            out.push(r.remaining());
        }
        3 => {
            let (len, cap) = c.len_cap()?;
            let sched = c.sched(1)?;
            let mut r = ScriptReader::new(sched, c.rest());
            let v = canary_vec(len, cap);
            let BufResult(res, v) = block_on(r.append(v));
            enc_res(&mut out, &res, |n| *n as u64);
            enc_vec(&mut out, cap, &v);
            out.push(r.remaining());
        }
        4 => {
            let ns = c.take()? as usize;
            let sched = c.sched(ns)?;
            let data = bytes_of(c.rest());
            let n = data.len();
            let mut w = ScriptWriter::new(sched);
            let BufResult(res, _) = block_on(w.write_all(data));
            enc_res(&mut out, &res, |_| n as u64);
            w.enc_log(&mut out);
        }
        5 => {
            let bsz = c.take()? as usize;
            let nr = c.take()? as usize;
            let rs = c.sched(nr)?;
            let nw = c.take()? as usize;
            let ws = c.sched(nw)?;
            let mut r = ScriptReader::new(rs, c.rest());
            let mut w = ScriptWriter::new(ws);
            let res = block_on(copy_with_size(&mut r, &mut w, bsz));
            enc_res(&mut out, &res, |n| *n);
            w.enc_log(&mut out);
            out.push(r.remaining());
        }
        6 => {
            let limit = c.take()?;
            let nr = c.take()? as usize;
            let mut reads = Vec::new();
            for _ in 0..nr {
                reads.push(c.len_cap()?);
            }
            let ns = c.take()? as usize;
            let sched = c.sched(ns)?;
            let r = ScriptReader::new(sched, c.rest());
            let mut t = r.take(limit);
            for (len, cap) in reads {
                let v = canary_vec(len, cap);
                let BufResult(res, v) = block_on(t.read(v));
                enc_res(&mut out, &res, |n| *n as u64);
                enc_vec(&mut out, cap, &v);
            }
            out.push(t.limit());
            out.push(t.get_ref().remaining());
        }
        7 => {
            let cap = c.take()? as usize;
            let no = c.take()? as usize;
            let mut ops = Vec::new();
            let mut vsegs: Vec<Vec<Vec<u8>>> = Vec::new();
            for _ in 0..no {
                match c.take()? {
                    1 => ops.push((1, bytes_of(c.bytes()?))),
                    2 => ops.push((2, vec![])),
                    3 => ops.push((3, vec![])),
                    4 => {
                        // write_vectored: the segments, each length-prefixed
                        let n = c.take()? as usize;
                        let mut segs = Vec::new();
                        for _ in 0..n {
                            segs.push(bytes_of(c.bytes()?));
                        }
                        vsegs.push(segs);
                        ops.push((4, vec![]));
                    }
                    _ => return Err(BadCase),
                }
            }
            let mut vsegs = vsegs.into_iter();
            let ns = c.take()? as usize;
            let sched = c.sched(ns)?;
            let w = ScriptWriter::new(sched);
            let mut bw = BufWriter::with_capacity(cap, w.clone());
            for (op, data) in ops {
                match op {
                    1 => {
                        let BufResult(res, _) = block_on(bw.write(data));
                        enc_res(&mut out, &res, |n| *n as u64);
                    }
                    2 => {
                        let res = block_on(bw.flush());
                        enc_res(&mut out, &res, |_| 0);
                    }
                    4 => {
                        let segs = vsegs.next().ok_or(BadCase)?;
                        let BufResult(res, _) = block_on(bw.write_vectored(segs));
                        enc_res(&mut out, &res, |n| *n as u64);
                    }
                    _ => {
                        let res = block_on(bw.shutdown());
                        enc_res(&mut out, &res, |_| 0);
                    }
                }
            }
            w.enc_log(&mut out);
            // what is still buffered: drain it with an always-accepting writer
            w.0.borrow_mut().drain = true;
            let _ = block_on(bw.flush());
            let st = w.0.borrow();
            out.push(st.drained.len() as u64);
            out.extend_from_slice(&st.drained);
        }
        8 => {
            let cap = c.take()? as usize;
            let no = c.take()? as usize;
            let mut ops = Vec::new();
            for _ in 0..no {
                match c.take()? {
                    1 => {
                        let (l, cp) = c.len_cap()?;
                        ops.push((1, l, cp));
                    }
                    2 => ops.push((2, 0, 0)),
                    3 => ops.push((3, c.take()? as usize, 0)),
                    _ => return Err(BadCase),
                }
            }
            let ns = c.take()? as usize;
            let sched = c.sched(ns)?;
            let r = ScriptReader::new(sched, c.rest());
            let mut br = BufReader::with_capacity(cap, r);
            for (op, a, b) in ops {
                match op {
                    1 => {
                        let v = canary_vec(a, b);
                        let BufResult(res, v) = block_on(br.read(v));
                        enc_res(&mut out, &res, |n| *n as u64);
                        enc_vec(&mut out, b, &v);
                    }
                    2 => match block_on(br.fill_buf()) {
                        Ok(w) => {
                            out.push(0);
                            out.push(w.len() as u64);
                            out.extend(w.iter().map(|&x| x as u64));
                        }
                        Err(e) => {
                            out.push(1);
                            out.push(code_of(e.kind()));
                        }
                    },
                    _ => {
                        br.consume(a);
                        out.push(0);
                        out.push(0);
                    }
                }
            }
            use compio_buf::IntoInner;
            out.push(br.into_inner().remaining());
        }
        10 => {
            let (len, cap) = c.len_cap()?;
            let this = bytes_of(c.rest());
            let mut s: &[u8] = &this;
            let v = canary_vec(len, cap);
            let BufResult(res, v) = block_on(s.read(v));
            enc_res(&mut out, &res, |n| *n as u64);
            enc_vec(&mut out, cap, &v);
            out.push(s.len() as u64);
        }
        11 => {
            let (len, cap) = c.len_cap()?;
            let pos = c.take()?;
            let this = bytes_of(c.rest());
            let v = canary_vec(len, cap);
            let BufResult(res, v) = block_on(this.as_slice().read_at(v, pos));
            enc_res(&mut out, &res, |n| *n as u64);
            enc_vec(&mut out, cap, &v);
        }
        12 => {
            let nm = c.take()? as usize;
            let caps = c.take_n(nm)?;
            let ms: Vec<Vec<u8>> = caps.iter().map(|&cp| canary_vec(0, cp as usize)).collect();
            let this = bytes_of(c.rest());
            let mut s: &[u8] = &this;
            let BufResult(res, ms) = block_on(s.read_vectored(ms));
            enc_res(&mut out, &res, |n| *n as u64);
            for (m, &cp) in ms.iter().zip(caps) {
                enc_vec(&mut out, cp as usize, m);
            }
            out.push(s.len() as u64);
        }
        13 => {
            let pos = c.take()?;
            let nm = c.take()? as usize;
            let caps = c.take_n(nm)?;
            let ms: Vec<Vec<u8>> = caps.iter().map(|&cp| canary_vec(0, cp as usize)).collect();
            let this = bytes_of(c.rest());
            let BufResult(res, ms) = block_on(this.as_slice().read_vectored_at(ms, pos));
            enc_res(&mut out, &res, |n| *n as u64);
            for (m, &cp) in ms.iter().zip(caps) {
                enc_vec(&mut out, cp as usize, m);
            }
        }
        14 => {
            let cap = c.take()? as usize;
            let content = c.bytes()?;
            if content.len() > cap {
                return Err(BadCase);
            }
            let mut d = content_vec(cap, content);
            let data = bytes_of(c.rest());
            let BufResult(res, _) = block_on(AsyncWrite::write(&mut d, data));
            enc_res(&mut out, &res, |n| *n as u64);
            out.push(d.len() as u64);
            out.extend(d.iter().map(|&b| b as u64));
        }
        15 => {
            let cap = c.take()? as usize;
            let content = c.bytes()?;
            if content.len() > cap {
                return Err(BadCase);
            }
            let mut d = content_vec(cap, content);
            let n = c.take()? as usize;
            let mut bufs = Vec::new();
            for _ in 0..n {
                bufs.push(bytes_of(c.bytes()?));
            }
            let BufResult(res, _) = block_on(AsyncWrite::write_vectored(&mut d, bufs));
            enc_res(&mut out, &res, |n| *n as u64);
            out.push(d.len() as u64);
            out.extend(d.iter().map(|&b| b as u64));
        }
        16 => {
            let cap = c.take()? as usize;
            let content = c.bytes()?;
            if content.len() > cap {
                return Err(BadCase);
            }
            let mut d = content_vec(cap, content);
            let pos = c.take()?;
            let data = bytes_of(c.rest());
            let BufResult(res, _) = block_on(AsyncWriteAt::write_at(&mut d, data, pos));
            enc_res(&mut out, &res, |n| *n as u64);
            out.push(d.len() as u64);
            out.extend(d.iter().map(|&b| b as u64));
        }
        17 => {
            let cap = c.take()? as usize;
            let content = c.bytes()?;
            if content.len() > cap {
                return Err(BadCase);
            }
            let mut d = content_vec(cap, content);
            let pos = c.take()?;
            let n = c.take()? as usize;
            let mut bufs = Vec::new();
            for _ in 0..n {
                bufs.push(bytes_of(c.bytes()?));
            }
            let BufResult(res, _) = block_on(AsyncWriteAt::write_vectored_at(&mut d, bufs, pos));
            enc_res(&mut out, &res, |n| *n as u64);
            out.push(d.len() as u64);
            out.extend(d.iter().map(|&b| b as u64));
        }
        18 => {
            let mut d = bytes_of(c.bytes()?);
            let pos = c.take()?;
            let data = bytes_of(c.rest());
            let BufResult(res, _) = block_on(AsyncWriteAt::write_at(&mut d[..], data, pos));
            enc_res(&mut out, &res, |n| *n as u64);
            out.push(d.len() as u64);
            out.extend(d.iter().map(|&b| b as u64));
        }
        19 => {
            let b = c.take()? as u8;
            let (len, cap) = c.len_cap()?;
            let v = canary_vec(len, cap);
            let BufResult(res, v) = block_on(repeat(b).read(v));
            enc_res(&mut out, &res, |n| *n as u64);
            enc_vec(&mut out, cap, &v);
        }
        20 => {
            // read_vectored_exact over the scripted reader, which has only the DEFAULT
            // read_vectored (loop_read_vectored! over VectoredBufIter)
            let (ms, caps) = members(&mut c)?;
            let ns = c.take()? as usize;
            let sched = c.sched(ns)?;
            let mut r = ScriptReader::new(sched, c.rest());
            let total: usize = caps.iter().sum();
            let BufResult(res, ms) = block_on(r.read_vectored_exact(ms));
            enc_res(&mut out, &res, |_| total as u64);
            for (m, &cp) in ms.iter().zip(&caps) {
                enc_vec(&mut out, cp, m);
            }
            out.push(r.remaining());
        }
        21 => {
            let pos = c.take()?;
            if pos > 4096 {
                return Err(BadCase);
            }
            let (ms, caps) = members(&mut c)?;
            let this = bytes_of(c.rest());
            let total: usize = caps.iter().sum();
            let BufResult(res, ms) = block_on(this.as_slice().read_vectored_exact_at(ms, pos));
            enc_res(&mut out, &res, |_| total as u64);
            for (m, &cp) in ms.iter().zip(&caps) {
                enc_vec(&mut out, cp, m);
            }
        }
        22 => {
            let (ms, caps) = members(&mut c)?;
            let sched = c.sched(1)?;
            let mut r = ScriptReader::new(sched, c.rest());
            let BufResult(res, ms) = block_on(r.read_vectored(ms));
            enc_res(&mut out, &res, |n| *n as u64);
            for (m, &cp) in ms.iter().zip(&caps) {
                enc_vec(&mut out, cp, m);
            }
            out.push(r.remaining());
        }
        _ => return Err(BadCase),
    }
    Ok(out)
}

/// `nm (len cap)*`: Vec<u8> members with pre-existing content and spare capacity
fn members(c: &mut Case) -> Result<(Vec<Vec<u8>>, Vec<usize>), BadCase> {
    let nm = c.take()?;
    if nm > 8 {
        return Err(BadCase);
    }
    let mut ms = Vec::new();
    let mut caps = Vec::new();
    for _ in 0..nm {
        let (len, cap) = c.len_cap()?;
        ms.push(canary_vec(len, cap));
        caps.push(cap);
    }
    Ok((ms, caps))
}

fn main() {
    main_loop(run);
}
