//! Shared by harness/pure/src/bin/c10.rs and harness/rt/src/bin/c10b.rs: run-time nesting
//! of the real owned views (`Slice`, `Uninit`, `Slice<Slice<_>>::flatten`) over a base
//! buffer, the buffer-case steps of coq/model/RunC10.v and their interpreter.
use std::mem::MaybeUninit;

use compio_buf::{IntoInner, IoBuf, IoBufExt, IoBufMut, IoBufMutExt, SetLen, SetLenExt, Slice, Uninit};
use verif_harness::{BadCase, Case};

pub fn pat(j: usize, i: usize) -> u8 {
    (1 + ((j * 17 + i) % 120)) as u8
}

/// what the interpreter needs from a root buffer besides the compio-buf traits
pub trait RootCap {
    /// `set_capacity` of pool buffers; nothing for the others
    fn set_capacity_step(&mut self, _n: usize) {}
    /// size of the allocation the buffer lives in (pool buffers: the full buffer)
    fn alloc_len(&mut self) -> usize;
    /// (pointer, length) of the immutable and of the mutable view of the initialised bytes
    /// the concrete type offers (Deref / DerefMut, as_slice / as_mut_slice)
    fn deref_views(&mut self) -> [(usize, usize); 2];
    /// every byte of the mutable view += 1
    fn bump_deref_mut(&mut self);
}

/// payload of the trap that stands for memory corruption the real code would commit
/// (a raw copy / a slice that leaves the allocation); reported as `2 4`
pub struct UbTrap;

pub enum Node<R> {
    Root(R),
    Slice(Slice<Box<Node<R>>>),
    Uninit(Uninit<Box<Node<R>>>),
}

impl<R: IoBufMut> IoBuf for Node<R> {
    fn as_init(&self) -> &[u8] {
        match self {
            Node::Root(r) => r.as_init(),
            Node::Slice(s) => s.as_init(),
            Node::Uninit(u) => u.as_init(),
        }
    }
}
impl<R: IoBufMut> IoBufMut for Node<R> {
    fn as_uninit(&mut self) -> &mut [MaybeUninit<u8>] {
        match self {
            Node::Root(r) => r.as_uninit(),
            Node::Slice(s) => s.as_uninit(),
            Node::Uninit(u) => u.as_uninit(),
        }
    }

    fn reserve(&mut self, len: usize) -> Result<(), compio_buf::ReserveError> {
        match self {
            Node::Root(r) => r.reserve(len),
            Node::Slice(s) => s.reserve(len),
            Node::Uninit(u) => u.reserve(len),
        }
    }
}
impl<R: IoBufMut> SetLen for Node<R> {
    unsafe fn set_len(&mut self, len: usize) {
        unsafe {
            match self {
                Node::Root(r) => r.set_len(len),
                Node::Slice(s) => s.set_len(len),
                Node::Uninit(u) => u.set_len(len),
            }
        }
    }
}
impl<R: IoBufMut> Node<R> {
    pub fn into_root(self) -> R {
        match self {
            Node::Root(r) => r,
            Node::Slice(s) => (*s.into_inner()).into_root(),
            Node::Uninit(u) => (*u.into_inner()).into_root(),
        }
    }
    pub fn root_mut(&mut self) -> &mut R {
        match self {
            Node::Root(r) => r,
            Node::Slice(s) => s.as_inner_mut().root_mut(),
            Node::Uninit(u) => u.as_inner_mut().root_mut(),
        }
    }
    pub fn wrapped(&self) -> bool {
        !matches!(self, Node::Root(_))
    }
    /// IoBufExt::slice with begin / optional end
    pub fn wrap_slice(self, b: usize, e: Option<usize>) -> Self {
        let inner = Box::new(self);
        Node::Slice(match e {
            Some(e) => inner.slice(b..e),
            None => inner.slice(b..),
        })
    }
    pub fn wrap_uninit(self) -> Self {
        Node::Uninit(Box::new(self).uninit())
    }
    /// write min(k, capacity) pattern bytes at the start of the writable region
    pub fn write_pat(&mut self, j: usize, k: usize) {
        let u = self.as_uninit();
        let n = k.min(u.len());
        for i in 0..n {
            u[i].write(pat(j, i));
        }
    }

    /// reserve(k) as extend_from_slice does first; after a growth the new spare capacity of
    /// the root is refilled with canaries (`recanary`), so that it stays comparable
    pub fn reserve_step(&mut self, k: usize, recanary: &dyn Fn(&mut R)) -> u64 {
        let cap0 = (*self.root_mut()).as_uninit().len();
        let res = IoBufMut::reserve(self, k);
        if (*self.root_mut()).as_uninit().len() != cap0 {
            recanary(self.root_mut());
        }
        match res {
            Ok(()) => 0,
            Err(e) if e.is_not_supported() => 1,
            Err(_) => 2,
        }
    }

    /// the reserve of extend_from_slice, then the trap for a copy that would leave the
    /// allocation `[.., alloc_end)`; returns the reserve result
    pub fn pre_extend(&mut self, k: usize, alloc_end: &dyn Fn(&mut R) -> usize, recanary: &dyn Fn(&mut R)) -> u64 {
        let init = (*self).as_init().len();
        let res = self.reserve_step(k, recanary);
        if res == 0 {
            let dst = (*self).as_uninit().as_ptr() as usize + init;
            if dst + k > alloc_end(self.root_mut()) {
                std::panic::panic_any(UbTrap);
            }
        }
        res
    }

    /// `Slice<Slice<T>>::flatten` when the view is a slice of a slice (else unchanged).
    /// The nested value of the static type is rebuilt from the inner `Slice` with the outer
    /// begin/end (`slice(0..)` + `set_begin_unchecked` + `set_end`), then the real
    /// `flatten` is called.
    pub fn flatten(self) -> Self {
        match self {
            Node::Slice(outer) => {
                if !matches!(**outer.as_inner(), Node::Slice(_)) {
                    return Node::Slice(outer);
                }
                let (b2, e2) = (outer.begin(), outer.end());
                let inner = match *outer.into_inner() {
                    Node::Slice(s) => s,
                    _ => unreachable!(),
                };
                let mut nested: Slice<Slice<Box<Node<R>>>> = inner.slice(0..);
                unsafe { nested.set_begin_unchecked(b2) };
                if let Some(e) = e2 {
                    nested.set_end(e);
                }
                Node::Slice(nested.flatten())
            }
            other => other,
        }
    }
}

pub enum BStep {
    Query,
    Slice(usize, Option<usize>),
    Uninit,
    FillTo(usize),
    FillAdv(usize),
    FillSet(usize),
    Flatten,
    SetCap(usize),
    Extend(usize),
    Reserve(usize),
    Writer(usize),
    Views,
    BumpRoot,
}

/// `ns (code a b)*` and nothing after it
pub fn decode_bsteps(c: &mut Case) -> Result<Vec<BStep>, BadCase> {
    let ns = c.take()?;
    if ns > 64 {
        return Err(BadCase);
    }
    let mut steps = Vec::new();
    for _ in 0..ns {
        let code = c.take()?;
        let a = c.take()? as usize;
        let b = c.take()? as usize;
        steps.push(match code {
            0 => BStep::Query,
            1 => BStep::Slice(a, if b == 0 { None } else { Some(b - 1) }),
            2 => BStep::Uninit,
            3 => BStep::FillTo(a),
            4 => BStep::FillAdv(a),
            5 => BStep::FillSet(a),
            6 => BStep::Flatten,
            7 => BStep::SetCap(a),
            8 => BStep::Extend(a),
            9 => BStep::Reserve(a),
            10 => BStep::Writer(a),
            11 => BStep::Views,
            12 => BStep::BumpRoot,
            _ => return Err(BadCase),
        });
    }
    if !c.rest().is_empty() {
        return Err(BadCase);
    }
    Ok(steps)
}

/// `o l o' c rlen`: offsets relative to the base pointer of the root allocation (taken now:
/// a growing reserve moves it)
pub fn query_b<R: IoBufMut>(out: &mut Vec<u64>, node: &mut Node<R>) {
    let base = (*node.root_mut()).as_uninit().as_ptr() as usize;
    let (ip, il) = {
        let s = (*node).as_init();
        (s.as_ptr() as usize, s.len())
    };
    let (up, ul) = {
        let s = (*node).as_uninit();
        (s.as_ptr() as usize, s.len())
    };
    out.push(ip.wrapping_sub(base) as u64);
    out.push(il as u64);
    out.push(up.wrapping_sub(base) as u64);
    out.push(ul as u64);
    out.push((*node.root_mut()).as_init().len() as u64);
}

/// refill the spare capacity [len, cap) of a root with canaries (after a growth)
pub fn recanary<R: IoBufMut>(r: &mut R) {
    let len = (*r).as_init().len();
    let u = (*r).as_uninit();
    for i in len..u.len() {
        u[i].write(verif_harness::canary(i));
    }
}

fn alloc_end<R: IoBufMut + RootCap>(r: &mut R) -> usize {
    (*r).as_uninit().as_ptr() as usize + r.alloc_len()
}

/// runs the steps, printing the query after each; returns the root
pub fn run_bsteps<R: IoBufMut + RootCap>(out: &mut Vec<u64>, root: R, steps: Vec<BStep>) -> R {
    let mut node: Node<R> = Node::Root(root);
    let mut j = 0usize;
    query_b(out, &mut node);
    for st in steps {
        match st {
            BStep::Query => {}
            BStep::Slice(b, e) => node = node.wrap_slice(b, e),
            BStep::Uninit => node = node.wrap_uninit(),
            BStep::FillTo(k) => {
                node.write_pat(j, k);
                unsafe { node.advance_to(k) };
                j += 1;
            }
            BStep::FillAdv(k) => {
                node.write_pat(j, k);
                unsafe { node.advance(k) };
                j += 1;
            }
            BStep::FillSet(k) => {
                node.write_pat(j, k);
                unsafe { node.set_len(k) };
                j += 1;
            }
            BStep::Flatten => node = node.flatten(),
            BStep::SetCap(n) => node.root_mut().set_capacity_step(n),
            BStep::Extend(k) => {
                let chunk: Vec<u8> = (0..k).map(|i| pat(j, i)).collect();
                let res = node.pre_extend(k, &alloc_end::<R>, &recanary::<R>);
                // the real call (its own reserve now finds the room, or fails the same way)
                let real = match node.extend_from_slice(&chunk) {
                    Ok(()) => 0,
                    Err(e) if e.is_not_supported() => 1,
                    Err(_) => 2,
                };
                assert_eq!(res, real, "reserve and extend_from_slice disagree");
                out.push(real);
                j += 1;
            }
            BStep::Reserve(k) => {
                let res = node.reserve_step(k, &recanary::<R>);
                out.push(res);
            }
            BStep::Writer(k) => {
                use std::io::Write;
                let chunk: Vec<u8> = (0..k).map(|i| pat(j, i)).collect();
                node.pre_extend(k, &alloc_end::<R>, &recanary::<R>);
                match node.as_writer().write(&chunk) {
                    Ok(n) => {
                        out.push(0);
                        out.push(n as u64);
                    }
                    Err(_) => {
                        out.push(1);
                        out.push(0);
                    }
                }
                j += 1;
            }
            BStep::Views => {
                let base = (*node.root_mut()).as_uninit().as_ptr() as usize;
                let end = alloc_end(node.root_mut());
                let (mp, ml) = {
                    let s = node.as_mut_slice();
                    (s.as_mut_ptr() as usize, s.len())
                };
                let (sp, sl) = match &mut node {
                    Node::Slice(s) => {
                        let d: &mut [u8] = &mut **s;
                        (d.as_mut_ptr() as usize, d.len())
                    }
                    other => {
                        let d = (*other).as_init();
                        (d.as_ptr() as usize, d.len())
                    }
                };
                if mp + ml > end {
                    // a mutable slice that leaves the allocation: do not touch it
                    std::panic::panic_any(UbTrap);
                }
                let dv = node.root_mut().deref_views();
                for x in [(mp, ml), (sp, sl), dv[0], dv[1]] {
                    out.push(x.0.wrapping_sub(base) as u64);
                    out.push(x.1 as u64);
                }
                for b in node.as_mut_slice().iter_mut() {
                    *b = b.wrapping_add(1);
                }
            }
            BStep::BumpRoot => node.root_mut().bump_deref_mut(),
        }
        query_b(out, &mut node);
    }
    node.into_root()
}
