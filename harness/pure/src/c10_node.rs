//! Shared by harness/pure/src/bin/c10.rs and harness/rt/src/bin/c10b.rs: run-time nesting
//! of the real owned views (`Slice`, `Uninit`, `Slice<Slice<_>>::flatten`) over a base
//! buffer, the buffer-case steps of coq/model/RunC10.v and their interpreter.
use std::mem::MaybeUninit;

use compio_buf::{IntoInner, IoBuf, IoBufExt, IoBufMut, IoBufMutExt, SetLen, SetLenExt, Slice, Uninit};
use verif_harness::{BadCase, Case};

pub fn pat(j: usize, i: usize) -> u8 {
    (1 + ((j * 17 + i) % 120)) as u8
}

/// root buffers that have a user-settable capacity (pool buffers); nothing for the others
pub trait RootCap {
    fn set_capacity_step(&mut self, _n: usize) {}
}

pub enum Node<R> {
    Root(R),
    Slice(Slice<Box<Node<R>>>),
    Uninit(Uninit<Box<Node<R>>>),
}

impl<R: IoBufMut> IoBuf for Node<R> {
    fn as_init(&self) -> &[u8] {
        match self {
            Node::Root(r) => r.as_init(),
            Node::Slice(s) => s.as_init(),
            Node::Uninit(u) => u.as_init(),
        }
    }
}
impl<R: IoBufMut> IoBufMut for Node<R> {
    fn as_uninit(&mut self) -> &mut [MaybeUninit<u8>] {
        match self {
            Node::Root(r) => r.as_uninit(),
            Node::Slice(s) => s.as_uninit(),
            Node::Uninit(u) => u.as_uninit(),
        }
    }
}
impl<R: IoBufMut> SetLen for Node<R> {
    unsafe fn set_len(&mut self, len: usize) {
        unsafe {
            match self {
                Node::Root(r) => r.set_len(len),
                Node::Slice(s) => s.set_len(len),
                Node::Uninit(u) => u.set_len(len),
            }
        }
    }
}
impl<R: IoBufMut> Node<R> {
    pub fn into_root(self) -> R {
        match self {
            Node::Root(r) => r,
            Node::Slice(s) => (*s.into_inner()).into_root(),
            Node::Uninit(u) => (*u.into_inner()).into_root(),
        }
    }
    pub fn root_mut(&mut self) -> &mut R {
        match self {
            Node::Root(r) => r,
            Node::Slice(s) => s.as_inner_mut().root_mut(),
            Node::Uninit(u) => u.as_inner_mut().root_mut(),
        }
    }
    pub fn wrapped(&self) -> bool {
        !matches!(self, Node::Root(_))
    }
    /// IoBufExt::slice with begin / optional end
    pub fn wrap_slice(self, b: usize, e: Option<usize>) -> Self {
        let inner = Box::new(self);
        Node::Slice(match e {
            Some(e) => inner.slice(b..e),
            None => inner.slice(b..),
        })
    }
    pub fn wrap_uninit(self) -> Self {
        Node::Uninit(Box::new(self).uninit())
    }
    /// write min(k, capacity) pattern bytes at the start of the writable region
    pub fn write_pat(&mut self, j: usize, k: usize) {
        let u = self.as_uninit();
        let n = k.min(u.len());
        for i in 0..n {
            u[i].write(pat(j, i));
        }
    }

    /// `Slice<Slice<T>>::flatten` when the view is a slice of a slice (else unchanged).
    /// The nested value of the static type is rebuilt from the inner `Slice` with the outer
    /// begin/end (`slice(0..)` + `set_begin_unchecked` + `set_end`), then the real
    /// `flatten` is called.
    pub fn flatten(self) -> Self {
        match self {
            Node::Slice(outer) => {
                if !matches!(**outer.as_inner(), Node::Slice(_)) {
                    return Node::Slice(outer);
                }
                let (b2, e2) = (outer.begin(), outer.end());
                let inner = match *outer.into_inner() {
                    Node::Slice(s) => s,
                    _ => unreachable!(),
                };
                let mut nested: Slice<Slice<Box<Node<R>>>> = inner.slice(0..);
                unsafe { nested.set_begin_unchecked(b2) };
                if let Some(e) = e2 {
                    nested.set_end(e);
                }
                Node::Slice(nested.flatten())
            }
            other => other,
        }
    }
}

pub enum BStep {
    Query,
    Slice(usize, Option<usize>),
    Uninit,
    FillTo(usize),
    FillAdv(usize),
    FillSet(usize),
    Flatten,
    SetCap(usize),
}

/// `ns (code a b)*` and nothing after it
pub fn decode_bsteps(c: &mut Case) -> Result<Vec<BStep>, BadCase> {
    let ns = c.take()?;
    if ns > 64 {
        return Err(BadCase);
    }
    let mut steps = Vec::new();
    for _ in 0..ns {
        let code = c.take()?;
        let a = c.take()? as usize;
        let b = c.take()? as usize;
        steps.push(match code {
            0 => BStep::Query,
            1 => BStep::Slice(a, if b == 0 { None } else { Some(b - 1) }),
            2 => BStep::Uninit,
            3 => BStep::FillTo(a),
            4 => BStep::FillAdv(a),
            5 => BStep::FillSet(a),
            6 => BStep::Flatten,
            7 => BStep::SetCap(a),
            _ => return Err(BadCase),
        });
    }
    if !c.rest().is_empty() {
        return Err(BadCase);
    }
    Ok(steps)
}

/// `o l o' c rlen`: offsets relative to the base pointer of the root allocation
pub fn query_b<R: IoBufMut>(out: &mut Vec<u64>, node: &mut Node<R>, base: usize) {
    let (ip, il) = {
        let s = (*node).as_init();
        (s.as_ptr() as usize, s.len())
    };
    let (up, ul) = {
        let s = (*node).as_uninit();
        (s.as_ptr() as usize, s.len())
    };
    out.push(ip.wrapping_sub(base) as u64);
    out.push(il as u64);
    out.push(up.wrapping_sub(base) as u64);
    out.push(ul as u64);
    out.push((*node.root_mut()).as_init().len() as u64);
}

/// runs the steps, printing the query after each; returns the root
pub fn run_bsteps<R: IoBufMut + RootCap>(out: &mut Vec<u64>, root: R, base: usize, steps: Vec<BStep>) -> R {
    let mut node: Node<R> = Node::Root(root);
    let mut j = 0usize;
    query_b(out, &mut node, base);
    for st in steps {
        match st {
            BStep::Query => {}
            BStep::Slice(b, e) => node = node.wrap_slice(b, e),
            BStep::Uninit => node = node.wrap_uninit(),
            BStep::FillTo(k) => {
                node.write_pat(j, k);
                unsafe { node.advance_to(k) };
                j += 1;
            }
            BStep::FillAdv(k) => {
                node.write_pat(j, k);
                unsafe { node.advance(k) };
                j += 1;
            }
            BStep::FillSet(k) => {
                node.write_pat(j, k);
                unsafe { node.set_len(k) };
                j += 1;
            }
            BStep::Flatten => node = node.flatten(),
            BStep::SetCap(n) => node.root_mut().set_capacity_step(n),
        }
        query_b(out, &mut node, base);
    }
    node.into_root()
}
