//! Line-by-line port of /repo/compio-driver/src/fd.rs (feature "sync": Shared = Arc,
//! WakerSlot = AtomicWaker) onto loom's instrumented types.  The waker slot is a
//! mutex-protected `Option<Waker>`: `register` stores, `wake` takes and wakes, each as one
//! atomic action — the linearizable behaviour futures' AtomicWaker guarantees and exactly the
//! granularity of the labels in coq/model/SharedFd.v.
use std::{
    future::{Future, poll_fn},
    mem::ManuallyDrop,
    ops::Deref,
    ptr,
    task::{Poll, Waker},
};

use loom::sync::{
    Arc as Shared, Mutex,
    atomic::{AtomicBool, Ordering},
};

pub struct WakerSlot(Mutex<Option<Waker>>);

impl WakerSlot {
    pub fn new() -> Self {
        Self(Mutex::new(None))
    }

    pub fn register(&self, waker: &Waker) {
        *self.0.lock().unwrap() = Some(waker.clone());
    }

    pub fn wake(&self) {
        let w = self.0.lock().unwrap().take();
        if let Some(w) = w {
            w.wake()
        }
    }
}

struct Inner<T> {
    fd: T,
    // whether there is a future waiting
    waits: AtomicBool,
    waker: WakerSlot,
}

pub struct SharedFd<T>(Shared<Inner<T>>);

impl<T> SharedFd<T> {
    pub fn new(fd: T) -> Self {
        Self(Shared::new(Inner {
            fd,
            waits: AtomicBool::new(false),
            waker: WakerSlot::new(),
        }))
    }

    fn into_inner(self) -> Shared<Inner<T>> {
        let this = ManuallyDrop::new(self);
        // SAFETY: `this` is not dropped here.
        unsafe { ptr::read(&this.0) }
    }

    pub fn try_unwrap(self) -> Result<T, Self> {
        let inner = self.into_inner();
        Shared::try_unwrap(inner).map(|t| t.fd).map_err(|i| Self(i))
    }

    /// Wait and take the inner owned fd (as in fd.rs after d4ec641).
    pub fn take(self) -> impl Future<Output = Option<T>> {
        async move {
            if !self.0.waits.swap(true, Ordering::AcqRel) {
                let mut inner = Some(self);
                poll_fn(move |cx| {
                    let i = inner.take().unwrap().into_inner();
                    let this = match Shared::try_unwrap(i) {
                        Ok(fd) => return Poll::Ready(Some(fd.fd)),
                        Err(this) => this,
                    };

                    this.waker.register(cx.waker());

                    match Shared::try_unwrap(this) {
                        Ok(fd) => Poll::Ready(Some(fd.fd)),
                        Err(tt) => {
                            inner = Some(Self(tt));
                            Poll::Pending
                        }
                    }
                })
                .await
            } else {
                None
            }
        }
    }
}

impl<T> Drop for SharedFd<T> {
    fn drop(&mut self) {
        // It's OK to wake multiple times.
        if Shared::strong_count(&self.0) == 2 && self.0.waits.load(Ordering::Acquire) {
            self.0.waker.wake()
        }
    }
}

impl<T> Clone for SharedFd<T> {
    fn clone(&self) -> Self {
        Self(self.0.clone())
    }
}

impl<T> Deref for SharedFd<T> {
    type Target = T;

    fn deref(&self) -> &Self::Target {
        &self.0.fd
    }
}
