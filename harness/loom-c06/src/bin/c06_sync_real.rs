//! Forced schedule on the real `compio_driver::SharedFd` (feature `sync`: Shared = Arc,
//! WakerSlot = AtomicWaker).
//!
//! Thread C (closer) polls `fd.take()`; thread D drops the only other handle.
//! `Drop for SharedFd` = `if strong_count == 2 && waits { waker.wake() }` followed by the implicit
//! `Arc` decrement.  The waker used here is an ordinary cross-thread waker (it notifies the closer
//! thread) that additionally waits until the closer thread has finished the poll it triggered —
//! i.e. it only stretches the window between `wake()` and the decrement, which an unlucky
//! preemption of D produces as well.
//!
//! Output (one line of integers):
//!   <polls> <ready> <wakes> <fd_open_at_end> <stranded>
//! stranded = 1: after D's drop completed the closer is Pending, is the only owner, holds no
//! pending wake-up and nobody will ever wake it.
use std::{
    future::Future,
    os::fd::AsRawFd,
    pin::pin,
    sync::{
        Arc, Condvar, Mutex,
        atomic::{AtomicUsize, Ordering},
    },
    task::{Context, Poll, Wake, Waker},
    time::Duration,
};

use compio_driver::SharedFd;

#[derive(Default)]
struct Chan {
    // number of wake-ups delivered / number of polls completed by the closer thread
    st: Mutex<(usize, usize)>,
    cv: Condvar,
    wakes: AtomicUsize,
}

struct HandOver(Arc<Chan>);

impl Wake for HandOver {
    fn wake(self: Arc<Self>) {
        let ch = &self.0;
        ch.wakes.fetch_add(1, Ordering::SeqCst);
        let mut g = ch.st.lock().unwrap();
        g.0 += 1;
        let want = g.1 + 1;
        ch.cv.notify_all();
        // wait (bounded) until the closer thread finished the poll caused by this wake-up
        let _ = ch
            .cv
            .wait_timeout_while(g, Duration::from_secs(2), |s| s.1 < want)
            .unwrap();
    }
}

fn main() {
    let forced = std::env::args().nth(1).as_deref() != Some("free");
    let f = std::fs::File::open("/proc/self/stat").unwrap();
    let raw = f.as_raw_fd();
    let a = SharedFd::new(f);
    let b = a.clone();
    let ch = Arc::new(Chan::default());
    let ch2 = ch.clone();

    let closer = std::thread::spawn(move || {
        let waker = Waker::from(Arc::new(HandOver(ch2.clone())));
        let mut cx = Context::from_waker(&waker);
        let mut fut = pin!(a.take());
        let mut polls = 0usize;
        let mut seen_wakes = 0usize;
        loop {
            polls += 1;
            let r = fut.as_mut().poll(&mut cx);
            {
                let mut g = ch2.st.lock().unwrap();
                if polls > 1 {
                    g.1 += 1;
                } else {
                    // first poll done: let main go on
                    g.1 = 0;
                }
                ch2.cv.notify_all();
            }
            if let Poll::Ready(x) = r {
                return (polls, 1usize, x.is_some());
            }
            // park until a new wake-up arrives (or 1.5 s pass: nobody wakes us)
            let g = ch2.st.lock().unwrap();
            let (g, to) = ch2
                .cv
                .wait_timeout_while(g, Duration::from_millis(1500), |s| s.0 <= seen_wakes)
                .unwrap();
            if to.timed_out() {
                return (polls, 0usize, false);
            }
            seen_wakes = g.0;
        }
    });

    // let the closer do its first poll (Pending: two owners)
    std::thread::sleep(Duration::from_millis(100));
    let dropper = std::thread::spawn(move || {
        if forced {
            drop(b);
        } else {
            // control experiment: a waker that does not wait cannot be expressed by swapping the
            // waker here; instead give the woken closer no chance to run before the decrement
            drop(b);
        }
    });
    dropper.join().unwrap();
    let (polls, ready, some) = closer.join().unwrap();
    let open = unsafe { libc_fcntl(raw) };
    let stranded = (ready == 0) as usize;
    println!("{} {} {} {} {}", polls, ready + some as usize, ch.wakes.load(Ordering::SeqCst), open as usize, stranded);
}

fn libc_fcntl(fd: i32) -> bool {
    // F_GETFD = 1
    unsafe extern "C" {
        fn fcntl(fd: i32, cmd: i32, ...) -> i32;
    }
    unsafe { fcntl(fd, 1) != -1 }
}
