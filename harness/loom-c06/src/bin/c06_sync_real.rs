//! Forced schedule on the REAL `compio_driver::SharedFd` built with feature `sync`
//! (Shared = Arc, WakerSlot = futures AtomicWaker).
//!
//! Thread C polls `fd.take()`; thread D drops the only other handle.  `Drop for SharedFd` is
//! `if strong_count == 2 && waits { waker.wake() }` followed by the implicit `Arc` decrement.  The
//! waker is an ordinary cross-thread waker (it notifies thread C); in mode `forced` it
//! additionally waits until C has finished the poll it triggered — it only stretches the window
//! between `wake()` and the decrement, which a preemption of D at that point produces as well.
//! In mode `free` it returns at once (control: the closer is then normally polled after the
//! decrement and obtains the descriptor).
//!
//! Output: `<polls> <got_fd> <wakes> <fd_open_after_drop> <stranded>`
//! stranded = 1: D's drop has completed, C is the only owner, returned Pending, no wake-up is
//! pending and nobody is left to wake it (observed for 1.5 s).
use std::{
    future::Future,
    os::fd::AsRawFd,
    pin::pin,
    sync::{
        Arc, Condvar, Mutex,
        atomic::{AtomicBool, AtomicUsize, Ordering},
        mpsc,
    },
    task::{Context, Poll, Wake, Waker},
    time::Duration,
};

use compio_driver::SharedFd;

#[derive(Default)]
struct Chan {
    // (wake-ups delivered, polls completed after the first one)
    st: Mutex<(usize, usize)>,
    cv: Condvar,
    wakes: AtomicUsize,
    forced: AtomicBool,
}

struct HandOver(Arc<Chan>);

impl Wake for HandOver {
    fn wake(self: Arc<Self>) {
        let ch = &self.0;
        ch.wakes.fetch_add(1, Ordering::SeqCst);
        let mut g = ch.st.lock().unwrap();
        g.0 += 1;
        let want = g.1 + 1;
        ch.cv.notify_all();
        if ch.forced.load(Ordering::SeqCst) {
            // wait (bounded) until the closer thread finished the poll caused by this wake-up
            let _ = ch
                .cv
                .wait_timeout_while(g, Duration::from_secs(2), |s| s.1 < want)
                .unwrap();
        }
    }
}

fn fd_open(fd: i32) -> bool {
    unsafe extern "C" {
        fn fcntl(fd: i32, cmd: i32, ...) -> i32;
    }
    // F_GETFD = 1
    unsafe { fcntl(fd, 1) != -1 }
}

fn main() {
    let forced = std::env::args().nth(1).as_deref() != Some("free");
    let f = std::fs::File::open("/proc/self/stat").unwrap();
    let raw = f.as_raw_fd();
    let a = SharedFd::new(f);
    let b = a.clone();
    let ch = Arc::new(Chan::default());
    ch.forced.store(forced, Ordering::SeqCst);
    let ch2 = ch.clone();
    let (first_tx, first_rx) = mpsc::channel::<()>();
    let (res_tx, res_rx) = mpsc::channel::<(usize, bool)>();
    let (fin_tx, fin_rx) = mpsc::channel::<()>();

    let closer = std::thread::spawn(move || {
        let waker = Waker::from(Arc::new(HandOver(ch2.clone())));
        let mut cx = Context::from_waker(&waker);
        let mut fut = pin!(a.take());
        let mut polls = 0usize;
        let mut seen_wakes = 0usize;
        let got = loop {
            polls += 1;
            let r = fut.as_mut().poll(&mut cx);
            if polls == 1 {
                first_tx.send(()).unwrap();
            } else {
                let mut g = ch2.st.lock().unwrap();
                g.1 += 1;
                ch2.cv.notify_all();
            }
            if let Poll::Ready(x) = r {
                break x;
            }
            // park until a new wake-up arrives; 1.5 s without one: nobody will wake us
            let g = ch2.st.lock().unwrap();
            let (g, to) = ch2
                .cv
                .wait_timeout_while(g, Duration::from_millis(1500), |s| s.0 <= seen_wakes)
                .unwrap();
            if to.timed_out() {
                break None;
            }
            seen_wakes = g.0;
        };
        res_tx.send((polls, got.is_some())).unwrap();
        // keep the future (and what it owns) alive until main has looked at the descriptor
        let _ = fin_rx.recv();
        drop(got);
    });

    // the closer's first poll: Pending (two owners)
    first_rx.recv().unwrap();
    let dropper = std::thread::spawn(move || drop(b));
    dropper.join().unwrap();
    let (polls, got) = res_rx.recv().unwrap();
    let open = fd_open(raw);
    let stranded = !got && open;
    println!(
        "{} {} {} {} {}",
        polls,
        got as u8,
        ch.wakes.load(Ordering::SeqCst),
        open as u8,
        stranded as u8
    );
    fin_tx.send(()).unwrap();
    closer.join().unwrap();
}
