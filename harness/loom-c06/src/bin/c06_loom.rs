//! loom exploration of the fd.rs port (src/lib.rs).  Prints one line:
//!   <safety_ok> <liveness_stranded> <iterations of the safety model>
//! safety   (expected 1): in every interleaving of a closer (polls take() once, then gives up),
//!          a dropper and an "operation" holding a clone, the descriptor is closed exactly once and
//!          never while the operation still holds its clone.
//! liveness (expected 1 = the defect is there): closer thread `block_on(fd.take())`, another thread
//!          drops the only other handle; loom finds the schedule in which the closer is never woken
//!          (reported as a deadlock).
use std::{
    future::Future,
    panic::{AssertUnwindSafe, catch_unwind},
    pin::pin,
    sync::{
        Arc as StdArc,
        atomic::{AtomicUsize, Ordering::SeqCst},
    },
    task::{Context, Poll, Wake, Waker},
};

use verif_loom_c06::SharedFd;

struct Fd {
    closed: StdArc<AtomicUsize>,
}

impl Drop for Fd {
    fn drop(&mut self) {
        self.closed.fetch_add(1, SeqCst);
    }
}

struct Noop;
impl Wake for Noop {
    fn wake(self: StdArc<Self>) {}
}

fn safety() -> (bool, usize) {
    let iters = StdArc::new(AtomicUsize::new(0));
    let it2 = iters.clone();
    let r = catch_unwind(AssertUnwindSafe(move || {
        loom::model(move || {
            it2.fetch_add(1, SeqCst);
            let closed = StdArc::new(AtomicUsize::new(0));
            let a = SharedFd::new(Fd {
                closed: closed.clone(),
            });
            let b = a.clone();
            let op = a.clone();
            let c1 = closed.clone();
            let t_op = loom::thread::spawn(move || {
                // an operation in flight: the descriptor must be open while it holds its clone
                assert_eq!(op.closed.load(SeqCst), 0, "closed while an operation is in flight");
                assert_eq!(c1.load(SeqCst), 0);
                drop(op);
            });
            let t_drop = loom::thread::spawn(move || drop(b));
            // the closer: one poll, then it gives up (close cancelled) or owns the descriptor
            let waker = Waker::from(StdArc::new(Noop));
            let mut cx = Context::from_waker(&waker);
            {
                let mut fut = pin!(a.take());
                match fut.as_mut().poll(&mut cx) {
                    Poll::Ready(Some(fd)) => {
                        assert_eq!(fd.closed.load(SeqCst), 0, "handed out closed");
                        drop(fd);
                    }
                    Poll::Ready(None) => panic!("None without a second closer"),
                    Poll::Pending => {}
                }
            }
            t_op.join().unwrap();
            t_drop.join().unwrap();
            assert_eq!(closed.load(SeqCst), 1, "closed exactly once at quiescence");
        })
    }));
    (r.is_ok(), iters.load(SeqCst))
}

fn liveness() -> (bool, String) {
    let r = catch_unwind(AssertUnwindSafe(|| {
        loom::model(|| {
            let closed = StdArc::new(AtomicUsize::new(0));
            let a = SharedFd::new(Fd {
                closed: closed.clone(),
            });
            let b = a.clone();
            let t = loom::thread::spawn(move || drop(b));
            let got = loom::future::block_on(a.take());
            assert!(got.is_some());
            t.join().unwrap();
        })
    }));
    match r {
        Ok(()) => (false, String::new()),
        Err(p) => {
            let msg = p
                .downcast_ref::<String>()
                .cloned()
                .or_else(|| p.downcast_ref::<&str>().map(|s| s.to_string()))
                .unwrap_or_default();
            (true, msg)
        }
    }
}

fn main() {
    std::panic::set_hook(Box::new(|_| {}));
    let (s_ok, iters) = safety();
    let (stranded, msg) = liveness();
    println!("{} {} {}", s_ok as u8, stranded as u8, iters);
    eprintln!("liveness: {}", msg.lines().next().unwrap_or(""));
}
