//! Shared helpers of the correspondence harnesses.
//! Every harness binary reads cases (one line of non-negative integers each)
//! from the file named by argv[1], starting at case index argv[2] (default 0),
//! and prints one result line per case, flushing after each line so that the
//! runner can resume after an abort.
use std::io::{BufRead, Write};

pub fn canary(i: usize) -> u8 {
    (128 + (i % 100)) as u8
}

/// A Vec<u8> with exactly `cap` capacity, every cell pre-filled with the canary
/// pattern, and length `len`.
pub fn canary_vec(len: usize, cap: usize) -> Vec<u8> {
    let mut v: Vec<u8> = Vec::with_capacity(cap);
    assert_eq!(v.capacity(), cap);
    for i in 0..cap {
        v.push(canary(i));
    }
    v.truncate(len);
    v
}

/// Vec with explicit content, exact capacity, canaries in the spare part.
pub fn content_vec(cap: usize, content: &[u64]) -> Vec<u8> {
    let mut v: Vec<u8> = Vec::with_capacity(cap);
    assert_eq!(v.capacity(), cap);
    for &b in content {
        v.push(b as u8);
    }
    let n = content.len();
    for i in n..cap {
        v.push(canary(i));
    }
    v.truncate(n);
    v
}

/// `[len; cap; init bytes..; spare bytes.. (only when capacity == cap0)]`
pub fn enc_vec(out: &mut Vec<u64>, cap0: usize, v: &Vec<u8>) {
    out.push(v.len() as u64);
    out.push(v.capacity() as u64);
    out.extend(v.iter().map(|&b| b as u64));
    if v.capacity() == cap0 {
        let spare = v.capacity() - v.len();
        let p = v.as_ptr();
        for i in 0..spare {
            // the harness initialised these cells itself (canary_vec)
            out.push(unsafe { *p.add(v.len() + i) } as u64);
        }
    }
}

pub fn kind_of(code: u64) -> std::io::ErrorKind {
    use std::io::ErrorKind::*;
    match code {
        1 => UnexpectedEof,
        2 => WriteZero,
        3 => Interrupted,
        4 => Other,
        5 => BrokenPipe,
        6 => ConnectionReset,
        7 => PermissionDenied,
        20 => OutOfMemory,
        21 => WouldBlock,
        22 => InvalidData,
        _ => Other,
    }
}

pub fn code_of(kind: std::io::ErrorKind) -> u64 {
    use std::io::ErrorKind::*;
    match kind {
        UnexpectedEof => 1,
        WriteZero => 2,
        Interrupted => 3,
        Other => 4,
        BrokenPipe => 5,
        ConnectionReset => 6,
        PermissionDenied => 7,
        OutOfMemory => 20,
        WouldBlock => 21,
        InvalidData => 22,
        _ => 99,
    }
}

pub fn mk_err(code: u64) -> std::io::Error {
    std::io::Error::new(kind_of(code), "scripted")
}

pub fn panic_code(msg: &str) -> u64 {
    if msg.contains("subtract with overflow") {
        1
    } else if msg.contains("range start index")
        || msg.contains("range end index")
        || msg.contains("slice index")
        || msg.contains("out of range for slice")
        || msg.contains("index out of bounds")
    {
        2
    } else if msg.contains("assertion") {
        3
    } else if msg.contains("add with overflow") || msg.contains("multiply with overflow") {
        5
    } else {
        9
    }
}

/// Cursor over the integers of one case.
pub struct Case<'a> {
    pub v: &'a [u64],
    pub i: usize,
}

pub struct BadCase;

impl<'a> Case<'a> {
    pub fn new(v: &'a [u64]) -> Self {
        Self { v, i: 0 }
    }
    pub fn take(&mut self) -> Result<u64, BadCase> {
        let x = *self.v.get(self.i).ok_or(BadCase)?;
        self.i += 1;
        Ok(x)
    }
    pub fn take_n(&mut self, n: usize) -> Result<&'a [u64], BadCase> {
        if self.i + n > self.v.len() {
            return Err(BadCase);
        }
        let s = &self.v[self.i..self.i + n];
        self.i += n;
        Ok(s)
    }
    /// `[n; x1..xn]`
    pub fn bytes(&mut self) -> Result<&'a [u64], BadCase> {
        let n = self.take()? as usize;
        self.take_n(n)
    }
    pub fn rest(&mut self) -> &'a [u64] {
        let s = &self.v[self.i..];
        self.i = self.v.len();
        s
    }
    /// `[len; cap]` with len <= cap
    pub fn len_cap(&mut self) -> Result<(usize, usize), BadCase> {
        let len = self.take()? as usize;
        let cap = self.take()? as usize;
        if len > cap {
            return Err(BadCase);
        }
        Ok((len, cap))
    }
    /// n pairs (kind, arg)
    pub fn sched(&mut self, n: usize) -> Result<std::collections::VecDeque<(u64, u64)>, BadCase> {
        let s = self.take_n(2 * n)?;
        Ok(s.chunks(2).map(|c| (c[0], c[1])).collect())
    }
}

pub const BAD_CASE: u64 = 99999;

/// Runs `f` on every case of the file, catching unwinding panics
/// (result `2 <code>`), printing one line per case.
pub fn main_loop(f: impl Fn(&[u64]) -> Result<Vec<u64>, BadCase> + std::panic::RefUnwindSafe) {
    let args: Vec<String> = std::env::args().collect();
    let path = &args[1];
    let start: usize = args.get(2).map(|s| s.parse().unwrap()).unwrap_or(0);
    std::panic::set_hook(Box::new(|_| {}));
    let file = std::io::BufReader::new(std::fs::File::open(path).expect("case file"));
    let stdout = std::io::stdout();
    for (idx, line) in file.lines().enumerate() {
        if idx < start {
            continue;
        }
        let line = line.unwrap();
        let case: Vec<u64> = line
            .split_whitespace()
            .map(|t| t.parse::<u64>().unwrap())
            .collect();
        let res = std::panic::catch_unwind(|| f(&case));
        let out: Vec<u64> = match res {
            Ok(Ok(v)) => v,
            Ok(Err(BadCase)) => vec![BAD_CASE],
            Err(p) => {
                let msg = if let Some(s) = p.downcast_ref::<&str>() {
                    s.to_string()
                } else if let Some(s) = p.downcast_ref::<String>() {
                    s.clone()
                } else {
                    String::new()
                };
                vec![2, panic_code(&msg)]
            }
        };
        let mut lock = stdout.lock();
        let s: Vec<String> = out.iter().map(|x| x.to_string()).collect();
        writeln!(lock, "{}", s.join(" ")).unwrap();
        lock.flush().unwrap();
    }
}
