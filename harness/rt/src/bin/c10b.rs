//! C10, pool-buffer part: the buffer cases of coq/model/RunC10.v (op 3) over a real
//! `compio_driver::BufferRef` taken from a Proactor's buffer pool (fallback pool of the
//! polling driver, provided-buffer ring of io_uring).  Views, fills and flatten are the
//! shared code of harness/pure/src/c10_node.rs; step 7 calls `BufferRef::set_capacity`.
use std::num::NonZeroU16;

use compio_buf::{IoBuf, IoBufMut};
use compio_driver::{BufferRef, DriverType, ProactorBuilder};
use verif_harness::*;

#[path = "../../../pure/src/c10_node.rs"]
mod node;
use node::{RootCap, decode_bsteps, run_bsteps};

impl RootCap for BufferRef {
    fn set_capacity_step(&mut self, n: usize) {
        self.set_capacity(n)
    }
    fn alloc_len(&mut self) -> usize {
        self.verif_identity().2 as usize
    }
    /// BufferRef's own Deref and DerefMut
    fn deref_views(&mut self) -> [(usize, usize); 2] {
        let a = {
            let s: &[u8] = &**self;
            (s.as_ptr() as usize, s.len())
        };
        let b = {
            let s: &mut [u8] = &mut **self;
            (s.as_mut_ptr() as usize, s.len())
        };
        [a, b]
    }
    fn bump_deref_mut(&mut self) {
        for b in (&mut **self).iter_mut() {
            *b = b.wrapping_add(1);
        }
    }
}

fn run(case: &[u64]) -> Result<Vec<u64>, BadCase> {
    match std::panic::catch_unwind(|| run_inner(case)) {
        Ok(r) => r,
        Err(p) => {
            if p.is::<node::UbTrap>() {
                Ok(vec![2, 4])
            } else {
                std::panic::resume_unwind(p)
            }
        }
    }
}

fn run_inner(case: &[u64]) -> Result<Vec<u64>, BadCase> {
    let mut c = Case::new(case);
    if c.take()? != 3 {
        return Err(BadCase);
    }
    let drv = c.take()?;
    let full = c.take()?;
    if drv > 1 || full == 0 || full > 64 {
        return Err(BadCase);
    }
    let steps = decode_bsteps(&mut c)?;

    let mut pb = ProactorBuilder::new();
    pb.driver_type(if drv == 1 { DriverType::IoUring } else { DriverType::Poll })
        .buffer_pool_size(NonZeroU16::new(2).unwrap())
        .buffer_pool_buffer_len(full as usize);
    let mut proactor = pb.build().expect("proactor");
    let pool = proactor.buffer_pool().expect("buffer pool");
    // which of the two buffers: vary with the case
    let mut buf = pool
        .take((full % 2) as u16)
        .expect("take")
        .expect("buffer present");
    let (_id, base, full_cap) = buf.verif_identity();
    assert_eq!(full_cap as u64, full);
    assert_eq!(IoBufMut::as_uninit(&mut buf).len() as u64, full);
    // the pool hands out uninitialised memory: make every cell comparable
    for (i, cell) in IoBufMut::as_uninit(&mut buf).iter_mut().enumerate() {
        cell.write(canary(i));
    }
    let mut out = Vec::new();
    let mut root = run_bsteps(&mut out, buf, steps);
    out.push(IoBuf::as_init(&root).len() as u64);
    out.push(IoBufMut::as_uninit(&mut root).len() as u64);
    out.push(full_cap as u64);
    for i in 0..full_cap as usize {
        // initialised above (canaries) or by the fills
        out.push(unsafe { *(base as *const u8).add(i) } as u64);
    }
    drop(root);
    drop(pool);
    drop(proactor);
    Ok(out)
}

fn main() {
    if std::env::var("C10B_DEBUG").is_ok() {
        let args: Vec<String> = std::env::args().collect();
        let line = std::fs::read_to_string(&args[1]).unwrap();
        let case: Vec<u64> = line.lines().next().unwrap().split_whitespace().map(|t| t.parse().unwrap()).collect();
        let _ = run(&case).map(|o| println!("{:?}", o));
        return;
    }
    main_loop(run);
}
