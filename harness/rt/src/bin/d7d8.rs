//! repro of D7 (flush does not arm the notifier) and D8 (cancel SQE dropped when the SQ is full)
use std::{os::fd::AsRawFd, time::Duration};

use compio_driver::{op::Recv, Proactor, ProactorBuilder, PushEntry, SharedFd};

fn readable(fd: i32, ms: i32) -> bool {
    let mut p = libc::pollfd { fd, events: libc::POLLIN, revents: 0 };
    unsafe { libc::poll(&mut p, 1, ms) > 0 }
}

fn d7(ty: compio_driver::DriverType) -> bool {
    let mut b = ProactorBuilder::new();
    b.driver_type(ty);
    let mut p = b.build().unwrap();
    let w = p.waker();
    let _ = p.flush();
    std::thread::spawn(move || w.wake()).join().unwrap();
    readable(p.as_raw_fd(), 500)
}

fn d8() -> bool {
    let mut b = ProactorBuilder::new();
    b.capacity(1).driver_type(compio_driver::DriverType::IoUring);
    let mut p = b.build().unwrap();
    let (a, _b) = std::os::unix::net::UnixStream::pair().unwrap();
    let fd = SharedFd::new(a);
    let op = Recv::new(fd, Vec::with_capacity(16), compio_driver::op::RecvFlags::empty());
    let PushEntry::Pending(key) = p.push(op) else { panic!() };
    let tok = p.register_cancel(&key);
    let ok = p.cancel_token(tok);
    let mut key = key;
    for _ in 0..20 {
        let _ = p.poll(Some(Duration::from_millis(50)));
        match p.pop(key) {
            PushEntry::Ready(_) => return true,
            PushEntry::Pending(k) => key = k,
        }
    }
    println!("cancel_token returned {ok}, op never finished");
    false
}

fn main() {
    println!("D7 iour readable after flush+wake: {}", d7(compio_driver::DriverType::IoUring));
    println!("D7 poll readable after flush+wake: {}", d7(compio_driver::DriverType::Poll));
    println!("D8 cancelled op finishes: {}", d8());
}
