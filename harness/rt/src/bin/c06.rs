//! C06 correspondence harness: the programs of coq/model/RunC06.v on the real types.
//!
//! kind 1  [1; (op arg)*]            compio_driver::SharedFd<OwnedFd> (a pipe read end), no runtime
//! kind 2  [2; drv; obj; (op arg)*]  obj 0: compio_fs::pipe::Receiver (File::close path)
//!                                   obj 1: compio_net::UnixStream    (Socket::close path)
//!                                   inside a compio_runtime::Runtime, drv 0 io_uring / 1 polling;
//!                                   operations in flight are real pending reads submitted through the
//!                                   runtime (compio_driver::op::Read holding one SharedFd clone)
//! kind 3  [3; drv; op*]             TcpListener::accept under cancellation / readiness / driver turns
//! kind 4  [4; sub; drv; a; b]       timing-dependent programs judged by the oracle only
//!
//! The descriptor under test is identified by (fd number, st_ino of a pipe / socket inode), so a
//! reused number is not mistaken for it.  See RunC06.v for the output format.
use std::{
    any::Any,
    future::Future,
    io,
    os::fd::{AsRawFd, FromRawFd, IntoRawFd, OwnedFd, RawFd},
    pin::Pin,
    sync::{
        Arc,
        atomic::{AtomicUsize, Ordering},
    },
    task::{Context, Poll, Wake, Waker},
    time::{Duration, Instant},
};

use compio_buf::{BufResult, IntoInner};
use compio_driver::{
    DriverType, ProactorBuilder, SharedFd, ToSharedFd,
    op::{Accept, CreateSocket, OpenFile, Pipe, Read},
};
use compio_runtime::{Runtime, RuntimeBuilder};
use verif_harness::*;

// ---------------------------------------------------------------------------
// observation helpers

fn fd_alive(fd: RawFd) -> bool {
    unsafe { libc::fcntl(fd, libc::F_GETFD) != -1 }
}

fn ino_of(fd: RawFd) -> Option<u64> {
    let mut st: libc::stat = unsafe { std::mem::zeroed() };
    if unsafe { libc::fstat(fd, &mut st) } == 0 {
        Some(st.st_ino as u64)
    } else {
        None
    }
}

#[derive(Clone, Copy)]
struct Ident {
    fd: RawFd,
    ino: u64,
}

impl Ident {
    fn of(fd: RawFd) -> Self {
        Ident {
            fd,
            ino: ino_of(fd).expect("fstat"),
        }
    }

    fn open(&self) -> bool {
        ino_of(self.fd) == Some(self.ino)
    }
}

fn open_fds() -> Vec<RawFd> {
    let mut v: Vec<RawFd> = Vec::new();
    if let Ok(rd) = std::fs::read_dir("/proc/self/fd") {
        for e in rd.flatten() {
            if let Some(n) = e.file_name().to_str().and_then(|s| s.parse::<RawFd>().ok()) {
                v.push(n);
            }
        }
    }
    // the directory handle used for the listing is gone by now
    v.retain(|&fd| fd_alive(fd));
    v.sort();
    v
}

struct CountWaker(AtomicUsize);

impl Wake for CountWaker {
    fn wake(self: Arc<Self>) {
        self.0.fetch_add(1, Ordering::SeqCst);
    }

    fn wake_by_ref(self: &Arc<Self>) {
        self.0.fetch_add(1, Ordering::SeqCst);
    }
}

fn mk_runtime(drv: u64) -> Runtime {
    let mut pb = ProactorBuilder::new();
    pb.driver_type(if drv == 0 {
        DriverType::IoUring
    } else {
        DriverType::Poll
    });
    RuntimeBuilder::new()
        .with_proactor(pb)
        .build()
        .expect("runtime")
}

fn drive(rt: &Runtime, ms: u64) {
    rt.poll_with(Some(Duration::from_millis(ms)));
    rt.run();
}

// ---------------------------------------------------------------------------
// kinds 1 and 2: handles / operations / closers, type-erased

type AnyBox = Box<dyn Any>;
type RawFut = Pin<Box<dyn Future<Output = Option<AnyBox>>>>;
type CloseFut = Pin<Box<dyn Future<Output = io::Result<()>>>>;
type OpFut = Pin<Box<dyn Future<Output = ()>>>;

trait Handle {
    fn dup(&self) -> Box<dyn Handle>;
    /// an operation's clone (exactly one reference)
    fn op_clone(&self) -> AnyBox;
    /// a real pending read holding exactly one clone (needs the runtime)
    fn start_read(&self) -> Option<OpFut>;
    fn take(self: Box<Self>) -> RawFut;
    fn try_unwrap(self: Box<Self>) -> Result<AnyBox, Box<dyn Handle>>;
    fn close(self: Box<Self>) -> Option<CloseFut>;
}

struct Shared<T: 'static> {
    fd: SharedFd<T>,
    in_rt: bool,
}

fn read_fut<T: std::os::fd::AsFd + 'static>(fd: SharedFd<T>) -> OpFut {
    let op = Read::new(fd, Vec::<u8>::with_capacity(8));
    let fut = compio_runtime::submit(op);
    Box::pin(async move {
        let BufResult(_res, op) = fut.await;
        // the storage of the operation (buffer + its SharedFd clone) is released here
        drop(op);
    })
}

impl<T: std::os::fd::AsFd + 'static> Handle for Shared<T> {
    fn dup(&self) -> Box<dyn Handle> {
        Box::new(Shared {
            fd: self.fd.clone(),
            in_rt: self.in_rt,
        })
    }

    fn op_clone(&self) -> AnyBox {
        Box::new(self.fd.clone())
    }

    fn start_read(&self) -> Option<OpFut> {
        if self.in_rt {
            Some(read_fut(self.fd.clone()))
        } else {
            None
        }
    }

    fn take(self: Box<Self>) -> RawFut {
        let f = self.fd.take();
        Box::pin(async move { f.await.map(|t| Box::new(t) as AnyBox) })
    }

    fn try_unwrap(self: Box<Self>) -> Result<AnyBox, Box<dyn Handle>> {
        let in_rt = self.in_rt;
        match self.fd.try_unwrap() {
            Ok(t) => Ok(Box::new(t)),
            Err(fd) => Err(Box::new(Shared { fd, in_rt })),
        }
    }

    fn close(self: Box<Self>) -> Option<CloseFut> {
        None
    }
}

struct PipeRx(compio_fs::pipe::Receiver);

impl Handle for PipeRx {
    fn dup(&self) -> Box<dyn Handle> {
        Box::new(PipeRx(self.0.clone()))
    }

    fn op_clone(&self) -> AnyBox {
        Box::new(self.0.to_shared_fd())
    }

    fn start_read(&self) -> Option<OpFut> {
        Some(read_fut(self.0.to_shared_fd()))
    }

    fn take(self: Box<Self>) -> RawFut {
        // Receiver -> SharedFd<File>: the transient extra reference is dropped while the count is
        // >= 2 + (waiting closer), so it never satisfies `count == 2 && waits`
        let fd = self.0.to_shared_fd();
        drop(self);
        Box::new(Shared { fd, in_rt: true }).take()
    }

    fn try_unwrap(self: Box<Self>) -> Result<AnyBox, Box<dyn Handle>> {
        let fd = self.0.to_shared_fd();
        drop(self);
        Box::new(Shared { fd, in_rt: true }).try_unwrap()
    }

    fn close(self: Box<Self>) -> Option<CloseFut> {
        Some(Box::pin(self.0.close()))
    }
}

struct Unix(compio_net::UnixStream);

impl Handle for Unix {
    fn dup(&self) -> Box<dyn Handle> {
        Box::new(Unix(self.0.clone()))
    }

    fn op_clone(&self) -> AnyBox {
        Box::new(self.0.to_shared_fd())
    }

    fn start_read(&self) -> Option<OpFut> {
        Some(read_fut(self.0.to_shared_fd()))
    }

    fn take(self: Box<Self>) -> RawFut {
        let fd = self.0.to_shared_fd();
        drop(self);
        Box::new(Shared { fd, in_rt: true }).take()
    }

    fn try_unwrap(self: Box<Self>) -> Result<AnyBox, Box<dyn Handle>> {
        let fd = self.0.to_shared_fd();
        drop(self);
        Box::new(Shared { fd, in_rt: true }).try_unwrap()
    }

    fn close(self: Box<Self>) -> Option<CloseFut> {
        Some(Box::pin(self.0.close()))
    }
}

enum Fut {
    Raw(RawFut),
    Close(CloseFut),
}

struct Closer {
    fut: Option<Fut>,
    got: Option<AnyBox>,
    is_close: bool,
    polled: bool,
    // every waker this future has been given (op 13 adds one); the last is the current one
    wakers: Vec<Arc<CountWaker>>,
    // wake counts at the time of the last poll
    seen: Vec<usize>,
}

impl Closer {
    fn new(fut: Option<Fut>, got: Option<AnyBox>, is_close: bool) -> Self {
        Closer {
            fut,
            got,
            is_close,
            polled: false,
            wakers: vec![Arc::new(CountWaker(AtomicUsize::new(0)))],
            seen: vec![0],
        }
    }

    fn woken(&self, g: usize) -> bool {
        self.wakers[g].0.load(Ordering::SeqCst) > self.seen[g]
    }
}

enum Op {
    Sim(AnyBox),
    Real(OpFut),
}

struct World<'a> {
    rt: Option<&'a Runtime>,
    drv: u64,
    id: Ident,
    peer: OwnedFd,
    handles: Vec<Box<dyn Handle>>,
    ops: Vec<Op>,
    closers: Vec<Closer>,
}

fn noop_cx() -> (Arc<CountWaker>, Waker) {
    let a = Arc::new(CountWaker(AtomicUsize::new(0)));
    let w = Waker::from(a.clone());
    (a, w)
}

impl<'a> World<'a> {
    /// (bit c: the current waker of closer c was woken since its last poll,
    ///  hex digit c: 1 + the generation of its waker that was woken since the last poll)
    fn masks(&self) -> (u64, u64) {
        let (mut m, mut st) = (0u64, 0u64);
        for (i, c) in self.closers.iter().enumerate() {
            if c.fut.is_some() {
                let cur = c.wakers.len() - 1;
                if c.woken(cur) {
                    m |= 1 << i;
                }
                if let Some(g) = (0..=cur).find(|&g| c.woken(g)) {
                    st += ((g as u64) + 1) << (4 * i);
                }
            }
        }
        (m, st)
    }

    fn others(&self, me: usize) -> usize {
        self.handles.len()
            + self.ops.len()
            + self
                .closers
                .iter()
                .enumerate()
                .filter(|(i, c)| *i != me && (c.fut.is_some() || c.got.is_some()))
                .count()
    }

    /// let submitted close operations run
    fn settle(&mut self) {
        let Some(rt) = self.rt else { return };
        drive(rt, 0);
        drive(rt, 0);
        // a close() that has been polled and has nobody else to wait for: its CloseFile /
        // CloseSocket runs on the driver (io_uring: next turn; polling: a pool thread)
        let expecting = self
            .closers
            .iter()
            .enumerate()
            .any(|(i, c)| c.is_close && c.polled && c.got.is_none() && self.others(i) == 0);
        if expecting {
            let t0 = Instant::now();
            while self.id.open() && t0.elapsed() < Duration::from_millis(1500) {
                drive(rt, 1);
            }
            drive(rt, 0);
            // polling driver: the pool thread closes first and reports afterwards; the completion
            // (which wakes the close() future, if it still exists) is part of the same step
            let waiting = |w: &World| {
                w.closers.iter().enumerate().any(|(i, c)| {
                    c.is_close
                        && c.polled
                        && c.fut.is_some()
                        && w.others(i) == 0
                        && !(0..c.wakers.len()).any(|g| c.woken(g))
                })
            };
            let t1 = Instant::now();
            while !self.id.open() && waiting(self) && t1.elapsed() < Duration::from_millis(1000) {
                drive(rt, 1);
            }
        }
    }

    fn poll_real_ops(&mut self) -> bool {
        let (_a, w) = noop_cx();
        let mut cx = Context::from_waker(&w);
        for i in (0..self.ops.len()).rev() {
            if let Op::Real(f) = &mut self.ops[i] {
                if f.as_mut().poll(&mut cx).is_ready() {
                    self.ops.remove(i);
                    return true;
                }
            }
        }
        false
    }

    fn step(&mut self, op: u64, arg: u64) -> (bool, u64) {
        let c = arg as usize;
        match op {
            1 => {
                let Some(h) = self.handles.last() else {
                    return (false, 0);
                };
                let d = h.dup();
                self.handles.push(d);
                (true, 0)
            }
            2 => (self.handles.pop().is_some(), 0),
            3 => {
                let Some(h) = self.handles.last() else {
                    return (false, 0);
                };
                // arg odd: a simulated operation (a clone held for its lifetime);
                // otherwise a real pending read when a runtime is there
                let real = if arg % 2 == 0 { h.start_read() } else { None };
                match real {
                    Some(mut f) => {
                        let (_a, w) = noop_cx();
                        let mut cx = Context::from_waker(&w);
                        // first poll submits the operation; nothing to read yet
                        if f.as_mut().poll(&mut cx).is_ready() {
                            panic!("read completed without data");
                        }
                        self.ops.push(Op::Real(f));
                    }
                    None => {
                        let cl = h.op_clone();
                        self.ops.push(Op::Sim(cl));
                    }
                }
                (true, 0)
            }
            4 => {
                match self.ops.last() {
                    None => return (false, 0),
                    Some(Op::Sim(_)) => {
                        self.ops.pop();
                    }
                    Some(Op::Real(_)) => {
                        let rt = self.rt.expect("rt");
                        let b = [7u8];
                        let n = unsafe { libc::write(self.peer.as_raw_fd(), b.as_ptr().cast(), 1) };
                        assert_eq!(n, 1);
                        let t0 = Instant::now();
                        loop {
                            drive(rt, 1);
                            if self.poll_real_ops() {
                                break;
                            }
                            if t0.elapsed() > Duration::from_millis(2000) {
                                panic!("read never completed");
                            }
                        }
                    }
                }
                (true, 0)
            }
            12 => {
                match self.ops.pop() {
                    None => return (false, 0),
                    Some(Op::Sim(x)) => drop(x),
                    Some(Op::Real(f)) => {
                        let rt = self.rt.expect("rt");
                        drop(f);
                        for _ in 0..4 {
                            drive(rt, 1);
                        }
                    }
                }
                (true, 0)
            }
            5 | 6 => {
                if op == 6 && self.rt.is_none() {
                    return (false, 0);
                }
                let Some(h) = self.handles.pop() else {
                    return (false, 0);
                };
                let fut = if op == 5 {
                    Fut::Raw(h.take())
                } else {
                    match h.close() {
                        Some(f) => Fut::Close(f),
                        // a SharedFd-typed handle has no close(): use the object route through a
                        // File/Socket handle is not possible here; the generator never asks for it
                        None => panic!("close() on a bare SharedFd handle"),
                    }
                };
                self.closers.push(Closer::new(Some(fut), None, op == 6));
                (true, 0)
            }
            7 => {
                let Some(cl) = self.closers.get_mut(c) else {
                    return (false, 0);
                };
                let Some(fut) = cl.fut.as_mut() else {
                    return (false, 0);
                };
                for g in 0..cl.wakers.len() {
                    cl.seen[g] = cl.wakers[g].0.load(Ordering::SeqCst);
                }
                cl.polled = true;
                let w = Waker::from(cl.wakers.last().unwrap().clone());
                let mut cx = Context::from_waker(&w);
                let res = match fut {
                    Fut::Raw(f) => match f.as_mut().poll(&mut cx) {
                        Poll::Pending => 0,
                        Poll::Ready(Some(t)) => {
                            cl.got = Some(t);
                            1
                        }
                        Poll::Ready(None) => 2,
                    },
                    Fut::Close(f) => match f.as_mut().poll(&mut cx) {
                        Poll::Pending => 0,
                        Poll::Ready(Ok(())) => 3,
                        Poll::Ready(Err(_)) => 4,
                    },
                };
                if res != 0 {
                    cl.fut = None;
                }
                (true, res)
            }
            8 => {
                let Some(cl) = self.closers.get_mut(c) else {
                    return (false, 0);
                };
                (cl.fut.take().is_some(), 0)
            }
            9 => {
                let Some(cl) = self.closers.get_mut(c) else {
                    return (false, 0);
                };
                (cl.got.take().is_some(), 0)
            }
            11 => {
                let Some(h) = self.handles.pop() else {
                    return (false, 0);
                };
                match h.try_unwrap() {
                    Ok(t) => {
                        self.closers.push(Closer::new(None, Some(t), false));
                        (true, 1)
                    }
                    Err(h) => {
                        self.handles.push(h);
                        (true, 0)
                    }
                }
            }
            13 => {
                // the future is polled with a fresh waker from now on (moved into another task)
                let Some(cl) = self.closers.get_mut(c) else {
                    return (false, 0);
                };
                if cl.fut.is_none() || cl.wakers.len() >= 14 {
                    return (false, 0);
                }
                cl.wakers.push(Arc::new(CountWaker(AtomicUsize::new(0))));
                cl.seen.push(0);
                (true, 0)
            }
            _ => (false, 0),
        }
    }

    fn run(&mut self, prog: &[u64]) -> Vec<u64> {
        let mut out = Vec::new();
        for ch in prog.chunks(2) {
            let (ok, res) = self.step(ch[0], ch[1]);
            self.settle();
            out.push(ok as u64);
            out.push(self.id.open() as u64);
            out.push(res);
            let (m, st) = self.masks();
            out.push(m);
            out.push(st);
        }
        // drop everything that is left
        for cl in self.closers.iter_mut() {
            cl.fut = None;
            cl.got = None;
        }
        let had_real = self.ops.iter().any(|o| matches!(o, Op::Real(_)));
        self.ops.clear();
        if let (true, Some(rt)) = (had_real, self.rt) {
            for _ in 0..4 {
                drive(rt, 1);
            }
        }
        self.handles.clear();
        if let Some(rt) = self.rt {
            let t0 = Instant::now();
            drive(rt, 0);
            while self.id.open() && t0.elapsed() < Duration::from_millis(1500) {
                drive(rt, 1);
            }
        }
        out.push(self.id.open() as u64);
        out
    }
}

fn mk_pipe() -> (OwnedFd, OwnedFd) {
    let mut fds = [0i32; 2];
    let r = unsafe { libc::pipe2(fds.as_mut_ptr(), libc::O_CLOEXEC | libc::O_NONBLOCK) };
    assert_eq!(r, 0);
    unsafe { (OwnedFd::from_raw_fd(fds[0]), OwnedFd::from_raw_fd(fds[1])) }
}

fn valid_prog(prog: &[u64], rt: bool) -> bool {
    if prog.len() % 2 != 0 {
        return false;
    }
    // try_unwrap (11) only on bare SharedFd programs: a failed try_unwrap hands back a SharedFd,
    // which has no close()
    prog.chunks(2).all(|c| {
        matches!(c[0], 1 | 2 | 3 | 4 | 5 | 6 | 7 | 8 | 9 | 12 | 13) || (c[0] == 11 && !rt)
    })
}

fn run_kind1(prog: &[u64]) -> Result<Vec<u64>, BadCase> {
    if !valid_prog(prog, false) {
        return Err(BadCase);
    }
    let (r, w) = mk_pipe();
    let id = Ident::of(r.as_raw_fd());
    let h: Box<dyn Handle> = Box::new(Shared {
        fd: SharedFd::new(r),
        in_rt: false,
    });
    let mut world = World {
        rt: None,
        drv: 0,
        id,
        peer: w,
        handles: vec![h],
        ops: vec![],
        closers: vec![],
    };
    Ok(world.run(prog))
}

fn run_kind2(drv: u64, obj: u64, prog: &[u64]) -> Result<Vec<u64>, BadCase> {
    if drv > 1 || obj > 1 || !valid_prog(prog, true) {
        return Err(BadCase);
    }
    let rt = mk_runtime(drv);
    let out = rt.enter(|| {
        let (h, id, peer): (Box<dyn Handle>, Ident, OwnedFd) = if obj == 0 {
            let (r, w) = mk_pipe();
            let id = Ident::of(r.as_raw_fd());
            let rx = unsafe { compio_fs::pipe::Receiver::from_raw_fd(r.into_raw_fd()) };
            (Box::new(PipeRx(rx)), id, w)
        } else {
            let (a, b) = std::os::unix::net::UnixStream::pair().expect("socketpair");
            let id = Ident::of(a.as_raw_fd());
            let s = compio_net::UnixStream::from_std(a).expect("from_std");
            (Box::new(Unix(s)), id, OwnedFd::from(b))
        };
        let mut world = World {
            rt: Some(&rt),
            drv,
            id,
            peer,
            handles: vec![h],
            ops: vec![],
            closers: vec![],
        };
        let out = world.run(prog);
        let _ = world.drv;
        out
    });
    drop(rt);
    Ok(out)
}

// ---------------------------------------------------------------------------
// kind 3: accept

fn extra_open(baseline: &[RawFd], held: &[RawFd]) -> u64 {
    open_fds()
        .into_iter()
        .filter(|fd| !baseline.contains(fd) && !held.contains(fd))
        .count() as u64
}

fn run_kind3(drv: u64, prog: &[u64]) -> Result<Vec<u64>, BadCase> {
    if drv > 1
        || !prog.iter().all(|&o| (1..=6).contains(&o))
        || prog.iter().filter(|&&o| o == 3).count() > 1
    {
        return Err(BadCase);
    }
    let mut rt = Some(mk_runtime(drv));
    let listener = {
        let l = std::net::TcpListener::bind("127.0.0.1:0").expect("bind");
        rt.as_ref()
            .unwrap()
            .enter(|| compio_net::TcpListener::from_std(l).expect("from_std"))
    };
    let addr = listener.local_addr().expect("addr");
    let baseline = open_fds();
    let mut held: Vec<RawFd> = Vec::new();
    let mut clients: Vec<std::net::TcpStream> = Vec::new();
    let mut delivered: Option<compio_net::TcpStream> = None;
    // 0 = not created / idle, 1 = polled at least once and alive, 2 = dropped, 3 = completed
    let mut fut: Option<Pin<Box<dyn Future<Output = io::Result<(compio_net::TcpStream, std::net::SocketAddr)>>>>> = {
        let l2 = listener.clone();
        Some(Box::pin(async move { l2.accept().await }))
    };
    // the clone inside the future is a descriptor the program holds: nothing new is opened by it
    let mut state = 0u64;
    let mut pending_conn = false;
    let (_cw, w) = noop_cx();
    let mut out = Vec::new();
    for &op in prog {
        let mut ok = true;
        let mut res = 0u64;
        match op {
            1 => {
                if rt.is_none() || state >= 2 {
                    ok = false;
                } else {
                    let r = rt.as_ref().unwrap();
                    let mut cx = Context::from_waker(&w);
                    let p = r.enter(|| fut.as_mut().unwrap().as_mut().poll(&mut cx));
                    state = 1;
                    match p {
                        Poll::Pending => {}
                        Poll::Ready(Ok((s, _))) => {
                            held.push(s.as_raw_fd());
                            delivered = Some(s);
                            fut = None;
                            state = 3;
                            res = 1;
                            pending_conn = false;
                        }
                        Poll::Ready(Err(_)) => {
                            fut = None;
                            state = 3;
                            res = 2;
                        }
                    }
                }
            }
            2 => {
                if state >= 2 {
                    ok = false;
                } else {
                    match rt.as_ref() {
                        Some(r) => r.enter(|| fut = None),
                        None => fut = None,
                    }
                    state = 2;
                }
            }
            3 => {
                if pending_conn {
                    ok = false;
                } else {
                    let c = std::net::TcpStream::connect(addr).expect("connect");
                    held.push(c.as_raw_fd());
                    clients.push(c);
                    pending_conn = true;
                }
            }
            4 => match rt.as_ref() {
                Some(r) => {
                    r.enter(|| drive(r, 0));
                }
                None => ok = false,
            },
            5 => match delivered.take() {
                Some(s) => {
                    held.retain(|&f| f != s.as_raw_fd());
                    drop(s);
                }
                None => ok = false,
            },
            6 => {
                if rt.is_none() || state == 1 {
                    ok = false;
                } else {
                    drop(rt.take());
                }
            }
            _ => unreachable!(),
        }
        // a connection that sits in the backlog of the listener is not a descriptor
        let extra = extra_open(&baseline, &held);
        out.push(ok as u64);
        out.push(extra);
        out.push(res);
    }
    // teardown: drop the future, two driver turns, drop the delivered stream, drop the runtime
    match rt.as_ref() {
        Some(r) => r.enter(|| fut = None),
        None => fut = None,
    }
    if let Some(r) = rt.as_ref() {
        r.enter(|| {
            drive(r, 0);
            drive(r, 0);
        });
    }
    if let Some(s) = delivered.take() {
        held.retain(|&f| f != s.as_raw_fd());
        drop(s);
    }
    drop(rt);
    out.push(extra_open(&baseline, &held));
    drop(listener);
    drop(clients);
    Ok(out)
}

// ---------------------------------------------------------------------------
// kind 5: multishot accept (TcpListener::incoming -> Incoming -> SubmitMulti<AcceptMulti>)
//   ops: 1 poll_next once   2 drop the stream   3 a peer connects   4 driver turn
//        5 drop the oldest delivered connection   6 drop the runtime (only after the stream)
//   per step: ok unheld res     (res: poll 0 Pending, 1 a connection was delivered, 2 error/end)
//   then, after the teardown (drop stream, two driver turns, drop delivered, drop runtime):
//        unheld  peers_not_closed   (peers whose server side is still open: no EOF / reset seen)

type IncStream = Pin<Box<dyn futures_util::Stream<Item = io::Result<compio_net::TcpStream>>>>;

struct Inc {
    // dropped before the listener it borrows
    stream: Option<IncStream>,
    listener: Box<compio_net::TcpListener>,
}

fn peer_open(c: &std::net::TcpStream) -> bool {
    use std::io::Read;
    c.set_nonblocking(true).ok();
    let mut b = [0u8; 1];
    match (&*c).read(&mut b) {
        Ok(0) => false,
        Ok(_) => true,
        Err(e) if e.kind() == io::ErrorKind::WouldBlock => true,
        Err(_) => false,
    }
}

fn run_kind5(drv: u64, prog: &[u64]) -> Result<Vec<u64>, BadCase> {
    use futures_util::Stream;
    if drv > 1
        || !prog.iter().all(|&o| (1..=6).contains(&o))
        || prog.iter().filter(|&&o| o == 3).count() > 6
    {
        return Err(BadCase);
    }
    let mut rt = Some(mk_runtime(drv));
    let listener = {
        let l = std::net::TcpListener::bind("127.0.0.1:0").expect("bind");
        rt.as_ref()
            .unwrap()
            .enter(|| compio_net::TcpListener::from_std(l).expect("from_std"))
    };
    let addr = listener.local_addr().expect("addr");
    let baseline = open_fds();
    let mut inc = Inc {
        stream: None,
        listener: Box::new(listener),
    };
    {
        // SAFETY: the stream is dropped before the boxed listener (field order, and explicitly below)
        let l: &'static compio_net::TcpListener = unsafe { &*(inc.listener.as_ref() as *const _) };
        inc.stream = Some(Box::pin(l.incoming()));
    }
    let mut held: Vec<RawFd> = Vec::new();
    let mut clients: Vec<std::net::TcpStream> = Vec::new();
    let mut delivered: std::collections::VecDeque<compio_net::TcpStream> = Default::default();
    // 0 never polled, 1 polled, 2 dropped
    let mut state = 0u64;
    let (_cw, w) = noop_cx();
    let mut out = Vec::new();
    for &op in prog {
        let mut ok = true;
        let mut res = 0u64;
        match op {
            1 => {
                if rt.is_none() || state == 2 {
                    ok = false;
                } else {
                    let r = rt.as_ref().unwrap();
                    let mut cx = Context::from_waker(&w);
                    let p = r.enter(|| inc.stream.as_mut().unwrap().as_mut().poll_next(&mut cx));
                    state = 1;
                    match p {
                        Poll::Pending => {}
                        Poll::Ready(Some(Ok(s))) => {
                            held.push(s.as_raw_fd());
                            delivered.push_back(s);
                            res = 1;
                        }
                        Poll::Ready(_) => res = 2,
                    }
                }
            }
            2 => {
                if state == 2 {
                    ok = false;
                } else {
                    match rt.as_ref() {
                        Some(r) => r.enter(|| inc.stream = None),
                        None => inc.stream = None,
                    }
                    state = 2;
                }
            }
            3 => {
                let c = std::net::TcpStream::connect(addr).expect("connect");
                held.push(c.as_raw_fd());
                clients.push(c);
            }
            4 => match rt.as_ref() {
                Some(r) => r.enter(|| drive(r, 0)),
                None => ok = false,
            },
            5 => match delivered.pop_front() {
                Some(s) => {
                    held.retain(|&f| f != s.as_raw_fd());
                    drop(s);
                }
                None => ok = false,
            },
            6 => {
                if rt.is_none() || state == 1 {
                    ok = false;
                } else {
                    drop(rt.take());
                }
            }
            _ => unreachable!(),
        }
        out.push(ok as u64);
        out.push(extra_open(&baseline, &held));
        out.push(res);
    }
    match rt.as_ref() {
        Some(r) => r.enter(|| inc.stream = None),
        None => inc.stream = None,
    }
    if let Some(r) = rt.as_ref() {
        r.enter(|| {
            drive(r, 0);
            drive(r, 0);
        });
    }
    for s in delivered.drain(..) {
        held.retain(|&f| f != s.as_raw_fd());
        drop(s);
    }
    drop(rt);
    out.push(extra_open(&baseline, &held));
    // the listener goes: connections still in its backlog are reset
    drop(inc);
    out.push(clients.iter().filter(|c| peer_open(c)).count() as u64);
    Ok(out)
}

// ---------------------------------------------------------------------------
// kind 4: timing-dependent programs (oracle only)
//   output: sub completed extra_before_rt_drop extra_after anomalies

fn poll_once<F: Future + ?Sized>(f: &mut Pin<Box<F>>) -> Poll<F::Output> {
    let (_a, w) = noop_cx();
    let mut cx = Context::from_waker(&w);
    f.as_mut().poll(&mut cx)
}

fn produce_fut(which: u64, dir: &OwnedFd) -> Pin<Box<dyn Future<Output = (bool, AnyBox)>>> {
    use compio_driver::op::{Mode, OFlags};
    match which {
        0 => {
            let dirfd = dir.try_clone().expect("dup");
            let op = OpenFile::new(
                dirfd,
                std::ffi::CString::new("hostname").unwrap(),
                OFlags::RDONLY,
                Mode::empty(),
            );
            let f = compio_runtime::submit(op);
            Box::pin(async move {
                let BufResult(r, op) = f.await;
                match r {
                    Ok(_) => (true, Box::new(op.into_inner()) as AnyBox),
                    Err(_) => (false, Box::new(op) as AnyBox),
                }
            })
        }
        1 => {
            let op = CreateSocket::new(libc::AF_INET, libc::SOCK_STREAM, 0);
            let f = compio_runtime::submit(op);
            Box::pin(async move {
                let BufResult(r, op) = f.await;
                match r {
                    Ok(_) => (true, Box::new(op.into_inner()) as AnyBox),
                    Err(_) => (false, Box::new(op) as AnyBox),
                }
            })
        }
        _ => {
            let op = Pipe::new();
            let f = compio_runtime::submit(op);
            Box::pin(async move {
                let BufResult(r, op) = f.await;
                match r {
                    Ok(_) => (true, Box::new(op.into_inner()) as AnyBox),
                    Err(_) => (false, Box::new(op) as AnyBox),
                }
            })
        }
    }
}

fn run_kind4(sub: u64, drv: u64, a: u64, b: u64) -> Result<Vec<u64>, BadCase> {
    if drv > 1 {
        return Err(BadCase);
    }
    let dir = OwnedFd::from(std::fs::File::open("/etc").map_err(|_| BadCase)?);
    let baseline0 = open_fds();
    let rt = mk_runtime(drv);
    let baseline_rt = open_fds();
    let mut completed = 1u64;
    let mut anomalies = 0u64;
    let mut held: Vec<RawFd> = Vec::new();
    let mut keep: Vec<AnyBox> = Vec::new();
    match sub {
        // descriptor-producing operation `a` (0 open, 1 socket, 2 pipe), cancel timing `b`
        0 => {
            if a > 2 || b > 5 {
                return Err(BadCase);
            }
            rt.enter(|| {
                let mut f = produce_fut(a, &dir);
                match b {
                    0 => drop(f),
                    1 => {
                        let _ = poll_once(&mut f);
                        drop(f);
                    }
                    2 => {
                        let _ = poll_once(&mut f);
                        drive(&rt, 0);
                        drop(f);
                    }
                    3 => {
                        let t0 = Instant::now();
                        loop {
                            if let Poll::Ready((ok, v)) = poll_once(&mut f) {
                                if !ok {
                                    anomalies += 1;
                                }
                                drop(v);
                                break;
                            }
                            drive(&rt, 1);
                            if t0.elapsed() > Duration::from_millis(2000) {
                                completed = 0;
                                break;
                            }
                        }
                    }
                    4 => {
                        let _ = poll_once(&mut f);
                        drop(f);
                        // the runtime goes right away (below)
                    }
                    _ => {
                        let _ = poll_once(&mut f);
                        for _ in 0..3 {
                            drive(&rt, 1);
                        }
                        std::thread::sleep(Duration::from_millis(5));
                        drive(&rt, 0);
                        // the result sits in the operation storage; the future never looks at it
                        drop(f);
                    }
                }
                if b != 4 {
                    for _ in 0..3 {
                        drive(&rt, 1);
                    }
                }
            });
        }
        // close() on a descriptor whose close the kernel hands to a worker (POSIX mqueue has a
        // flush method): future polled once (CloseFile submitted), then dropped `a` times
        1 => {
            let name = std::ffi::CString::new(format!("/c06mq{}", std::process::id())).unwrap();
            rt.enter(|| {
                for _ in 0..a.clamp(1, 8) {
                    let fd = unsafe {
                        libc::mq_open(
                            name.as_ptr(),
                            libc::O_CREAT | libc::O_RDWR,
                            0o600 as libc::c_uint,
                            std::ptr::null_mut::<libc::mq_attr>(),
                        )
                    };
                    if fd < 0 {
                        // no mqueue support here: nothing to observe
                        continue;
                    }
                    let file = unsafe { compio_fs::File::from_raw_fd(fd) };
                    let mut f: CloseFut = Box::pin(file.close());
                    let _ = poll_once(&mut f);
                    if b == 1 {
                        drive(&rt, 0);
                    }
                    drop(f);
                    for _ in 0..3 {
                        drive(&rt, 1);
                    }
                }
                std::thread::sleep(Duration::from_millis(10));
                drive(&rt, 0);
            });
            unsafe { libc::mq_unlink(name.as_ptr()) };
        }
        // two tasks close clones of one object concurrently inside block_on: both must finish
        2 => {
            let res = rt.block_on(async {
                let (r, _w) = mk_pipe();
                let id = Ident::of(r.as_raw_fd());
                let rx = unsafe { compio_fs::pipe::Receiver::from_raw_fd(r.into_raw_fd()) };
                let n = a.clamp(2, 5) as usize;
                let mut tasks = Vec::new();
                for _ in 0..n {
                    let c = rx.clone();
                    tasks.push(compio_runtime::spawn(async move { c.close().await }));
                }
                if b == 1 {
                    // the original handle is dropped after the closers started waiting
                    compio_runtime::time::sleep(Duration::from_millis(2)).await;
                }
                drop(rx);
                let all = async {
                    for t in tasks {
                        let _ = t.await;
                    }
                };
                let done = compio_runtime::time::timeout(Duration::from_millis(1500), all)
                    .await
                    .is_ok();
                (done, id.open())
            });
            if !res.0 {
                completed = 0;
            }
            if res.1 {
                anomalies += 1;
            }
        }
        // `a` rounds of open + close() future dropped unpolled (b = 0) / File simply dropped (b = 1)
        3 => {
            rt.block_on(async {
                for _ in 0..a.clamp(1, 10) {
                    let f = compio_fs::File::open("/etc/hostname").await.expect("open");
                    if b == 0 {
                        drop(f.close());
                    } else {
                        drop(f);
                    }
                }
            });
        }
        // close().await on one clone while a read is in flight on another: the close must
        // complete only after the read has, and the read must not see a closed descriptor
        4 => {
            let res = rt.block_on(async {
                let (a_s, mut b_s) = std::os::unix::net::UnixStream::pair().expect("pair");
                let id = Ident::of(a_s.as_raw_fd());
                let s = compio_net::UnixStream::from_std(a_s).expect("from_std");
                let s2 = s.clone();
                let order = std::rc::Rc::new(std::cell::RefCell::new(Vec::<u8>::new()));
                let o1 = order.clone();
                let reader = compio_runtime::spawn(async move {
                    use compio_io::AsyncRead;
                    let mut s2 = s2;
                    let BufResult(r, _) = s2.read(Vec::<u8>::with_capacity(4)).await;
                    o1.borrow_mut().push(b'r');
                    drop(s2);
                    r
                });
                let o2 = order.clone();
                let closer = compio_runtime::spawn(async move {
                    let r = s.close().await;
                    o2.borrow_mut().push(b'c');
                    r
                });
                compio_runtime::time::sleep(Duration::from_millis(3)).await;
                let still_open = id.open();
                use std::io::Write;
                b_s.write_all(&[1u8]).unwrap();
                let all = async {
                    let r = reader.await;
                    let c = closer.await;
                    (r, c)
                };
                match compio_runtime::time::timeout(Duration::from_millis(1500), all).await {
                    Ok((r, _c)) => {
                        let read_ok = matches!(r, Ok(Ok(1)));
                        let ord = order.borrow().clone();
                        (true, still_open, read_ok, ord == vec![b'r', b'c'], id.open())
                    }
                    Err(_) => (false, still_open, false, false, id.open()),
                }
            });
            if !res.0 {
                completed = 0;
            }
            if !res.1 {
                anomalies += 1; // closed while the read was in flight
            }
            if res.0 && !res.2 {
                anomalies += 2; // the read saw an error (EBADF / cancelled)
            }
            if res.0 && !res.3 {
                anomalies += 4; // close finished before the read
            }
            if res.4 {
                anomalies += 8; // never closed
            }
        }
        // a close()/take() future polled by hand (Pending) under `a` different wakers, then moved into
        // a spawned task which polls it under the task's waker; then the last other clone is dropped:
        // the task must be woken and finish.  b: 0 pipe Receiver close(), 1 UnixStream close(),
        // 2 SharedFd::take() on the pipe, 3 the task itself is re-spawned once (two task wakers)
        5 => {
            if a > 4 || b > 3 {
                return Err(BadCase);
            }
            let res = rt.block_on(async {
                let (r, _w) = mk_pipe();
                let (ua, _ub) = std::os::unix::net::UnixStream::pair().expect("pair");
                let (id, keep, mut fut): (Ident, AnyBox, Pin<Box<dyn Future<Output = bool>>>) = match b {
                    1 => {
                        let id = Ident::of(ua.as_raw_fd());
                        let s = compio_net::UnixStream::from_std(ua).expect("from_std");
                        let keep = s.clone();
                        (id, Box::new(keep), Box::pin(async move { s.close().await.is_ok() }))
                    }
                    2 => {
                        let id = Ident::of(r.as_raw_fd());
                        let rx = unsafe { compio_fs::pipe::Receiver::from_raw_fd(r.into_raw_fd()) };
                        let fd = rx.to_shared_fd();
                        let f = fd.take();
                        (id, Box::new(rx), Box::pin(async move { f.await.is_some() }))
                    }
                    _ => {
                        let id = Ident::of(r.as_raw_fd());
                        let rx = unsafe { compio_fs::pipe::Receiver::from_raw_fd(r.into_raw_fd()) };
                        let keep = rx.clone();
                        (id, Box::new(keep), Box::pin(async move { rx.close().await.is_ok() }))
                    }
                };
                // by hand, each time under a fresh waker
                for _ in 0..a.max(1) {
                    if poll_once(&mut fut).is_ready() {
                        return (false, false, id.open());
                    }
                }
                let task = if b == 3 {
                    // first task polls it once and hands it on to a second task
                    let t1 = compio_runtime::spawn(async move {
                        let mut fut = fut;
                        let _ = std::future::poll_fn(|cx| {
                            let _ = fut.as_mut().poll(cx);
                            Poll::Ready(())
                        })
                        .await;
                        fut
                    });
                    let fut = t1.await.expect("task 1");
                    compio_runtime::spawn(fut)
                } else {
                    compio_runtime::spawn(fut)
                };
                // let the task poll the future under its own waker
                compio_runtime::time::sleep(Duration::from_millis(2)).await;
                let open_before = id.open();
                drop(keep);
                let done = compio_runtime::time::timeout(Duration::from_millis(1500), task).await;
                match done {
                    Ok(Ok(ok)) => (true, ok && open_before, id.open() && b != 2),
                    _ => (false, false, id.open()),
                }
            });
            if !res.0 {
                completed = 0;
            }
            if res.0 && !res.1 {
                anomalies += 1;
            }
            if res.2 {
                anomalies += 8;
            }
        }
        _ => return Err(BadCase),
    }
    let mut extra_before = open_fds().iter().filter(|fd| !baseline_rt.contains(fd)).count() as u64;
    if !(sub == 0 && b == 4) {
        let t0 = Instant::now();
        while extra_before != 0 && t0.elapsed() < Duration::from_millis(400) {
            rt.enter(|| drive(&rt, 2));
            extra_before = open_fds().iter().filter(|fd| !baseline_rt.contains(fd)).count() as u64;
        }
    }
    drop(keep.drain(..));
    held.clear();
    drop(rt);
    // pool threads may still be running a close / an open whose result is then dropped: give them
    // time (the wait ends as soon as nothing is left; a leak stays for the whole period)
    let t0 = Instant::now();
    let mut extra_after;
    loop {
        std::thread::sleep(Duration::from_millis(5));
        extra_after = open_fds().iter().filter(|fd| !baseline0.contains(fd)).count() as u64;
        if extra_after == 0 || t0.elapsed() > Duration::from_millis(800) {
            break;
        }
    }
    drop(dir);
    Ok(vec![sub, completed, extra_before, extra_after, anomalies])
}

fn run(case: &[u64]) -> Result<Vec<u64>, BadCase> {
    let body = match case.first() {
        Some(1) => run_kind1(&case[1..]),
        Some(2) if case.len() >= 3 => run_kind2(case[1], case[2], &case[3..]),
        Some(3) if case.len() >= 2 => run_kind3(case[1], &case[2..]),
        Some(4) if case.len() == 5 => run_kind4(case[1], case[2], case[3], case[4]),
        Some(5) if case.len() >= 2 => run_kind5(case[1], &case[2..]),
        _ => Err(BadCase),
    }?;
    // every result line starts with `0 <kind>`
    let mut out = vec![0, case[0]];
    out.extend(body);
    Ok(out)
}

fn main() {
    // keep Accept in the link (used through TcpListener::accept)
    let _ = std::mem::size_of::<Accept<SharedFd<OwnedFd>>>();
    main_loop(run)
}
