//! C07 harness: programs of managed / multishot reads on a real compio Runtime
//! (io_uring buffer ring or the fallback pool of the polling driver) with
//! harness-controlled data arrival, arbitrary hold times of the returned
//! buffers, cancellations (dropped futures), early drops of multishot streams,
//! exhaustion, and buffers that outlive the runtime.
//!
//! case: [drv(0 uring,1 poll); pool size; buffer len; n_steps; (op a b)*]
//! out:  [n_events; (kind a b)*; n_obs; (tag a b c d e)*]
//!
//! events = hook events of compio_driver::verif (operations renumbered by
//! order of creation, POOL_BUF events as 40+code) interleaved with the user
//! actions of the harness (>= 100); they are replayed by coq/model/RunC07.v.
//! observations = what the user of the API can see (tools/p_c07.py oracle).
use std::{
    cell::{Cell, RefCell},
    collections::{HashMap, VecDeque},
    future::Future,
    io::Write,
    num::NonZeroU16,
    os::fd::{AsRawFd, FromRawFd, IntoRawFd, OwnedFd},
    pin::Pin,
    rc::Rc,
    task::{Context, Poll},
    time::{Duration, Instant},
};

use compio_buf::IntoInner;
use compio_driver::{BufferRef, DriverType, ProactorBuilder, verif};
use compio_io::{AsyncReadManaged, AsyncReadManagedAt, AsyncReadMulti};
use compio_runtime::Runtime;
use futures_util::StreamExt;
use verif_harness::*;

const U_GOT: u64 = 101;
const U_DROP: u64 = 102;
const U_POLL: u64 = 103;
const U_DROPSLOT: u64 = 105;
const U_DROPRT: u64 = 106;
const U_WRAP: u64 = 107;
const U_AWAIT: u64 = 108;
const U_AWAITED: u64 = 109;

// 0 file, 1 pipe, 2 tcp, 3 udp, 4 unix, 5 probe pipe; descriptors on which reads FAIL (on io_uring after
// the kernel has consumed a ring buffer): 6 directory, 7 write-only file, 8 /proc/self/mem (as files, read at
// an offset), 9 directory, 10 write-only file (as streams, read at the cursor)
const N_RES: usize = 11;

fn open_raw(path: &str, flags: i32) -> Result<i32, BadCase> {
    let c = std::ffi::CString::new(path).map_err(|_| BadCase)?;
    let fd = unsafe { libc::open(c.as_ptr(), flags | libc::O_CLOEXEC, 0o600) };
    if fd < 0 { Err(BadCase) } else { Ok(fd) }
}

fn wronly_fd() -> Result<i32, BadCase> {
    let path = format!("/tmp/verif_c07_w_{}_{:?}", std::process::id(), std::thread::current().id());
    let fd = open_raw(&path, libc::O_WRONLY | libc::O_CREAT | libc::O_TRUNC)?;
    let _ = std::fs::remove_file(&path);
    Ok(fd)
}

enum Item {
    Buf(BufferRef, usize, usize), // buffer, payload offset, payload length
    Nothing,                      // Ok(None): end of file / zero-length read
    Err(std::io::Error),
    End, // the stream returned None
}

struct Shared {
    want: Cell<bool>,
    out: RefCell<VecDeque<Item>>,
}

struct Gate(Rc<Shared>);
impl Future for Gate {
    type Output = ();

    fn poll(self: Pin<&mut Self>, _: &mut Context<'_>) -> Poll<()> {
        if self.0.want.get() {
            Poll::Ready(())
        } else {
            Poll::Pending
        }
    }
}

struct Slot {
    fut: Option<Pin<Box<dyn Future<Output = ()>>>>,
    sh: Rc<Shared>,
    res: usize,
    kind: u64,
}

/// what one poll of a slot produced
#[derive(Default, Clone, Copy)]
struct Polled {
    bufs: u64,
    err: u64, // last error code, 0 = none
    other: bool, // Ok(None) / end of stream
}

/// Heartbeat of the interpreter (ms since start); a watchdog thread aborts the
/// process when a program makes no step for WATCHDOG_MS (the runner then records
/// the case as aborted and resumes with the next one).
static BEAT: std::sync::atomic::AtomicU64 = std::sync::atomic::AtomicU64::new(0);
const WATCHDOG_MS: u64 = 40_000;
fn now_ms() -> u64 {
    use std::sync::OnceLock;
    static T0: OnceLock<Instant> = OnceLock::new();
    T0.get_or_init(Instant::now).elapsed().as_millis() as u64
}
fn beat() {
    BEAT.store(now_ms(), std::sync::atomic::Ordering::Relaxed);
}

struct Held {
    buf: BufferRef,
    id: u64,
    at: usize, // address of the payload
    snapshot: Vec<u8>,
}

enum Res {
    File(compio_fs::File, u64),
    Pipe(compio_fs::pipe::Receiver, Option<std::fs::File>),
    Tcp(compio_net::TcpStream, Option<std::net::TcpStream>),
    Udp(compio_net::UdpSocket, Option<std::net::UdpSocket>),
    Unix(compio_net::UnixStream, Option<std::os::unix::net::UnixStream>),
}

fn set_nonblock(fd: i32) {
    unsafe {
        let fl = libc::fcntl(fd, libc::F_GETFL);
        libc::fcntl(fd, libc::F_SETFL, fl | libc::O_NONBLOCK);
    }
}

fn mk_pipe() -> Result<(compio_fs::pipe::Receiver, std::fs::File), BadCase> {
    let mut fds = [0i32; 2];
    if unsafe { libc::pipe2(fds.as_mut_ptr(), libc::O_CLOEXEC) } != 0 {
        return Err(BadCase);
    }
    set_nonblock(fds[0]);
    set_nonblock(fds[1]);
    let rx = unsafe { compio_fs::pipe::Receiver::from_raw_fd(fds[0]) };
    let tx = unsafe { std::fs::File::from_raw_fd(fds[1]) };
    Ok((rx, tx))
}

fn mk_res(r: usize) -> Result<Res, BadCase> {
    Ok(match r {
        0 => {
            // an unlinked temporary file with 4096 counter bytes
            let path = format!("/tmp/verif_c07_{}_{:?}", std::process::id(), std::thread::current().id());
            let mut f = std::fs::OpenOptions::new()
                .read(true)
                .write(true)
                .create(true)
                .truncate(true)
                .open(&path)
                .map_err(|_| BadCase)?;
            let data: Vec<u8> = (0..4096usize).map(|i| (i % 251) as u8).collect();
            f.write_all(&data).map_err(|_| BadCase)?;
            let _ = std::fs::remove_file(&path);
            let fd: OwnedFd = f.into();
            Res::File(unsafe { compio_fs::File::from_raw_fd(fd.into_raw_fd()) }, 0)
        }
        1 | 5 => {
            let (rx, tx) = mk_pipe()?;
            Res::Pipe(rx, Some(tx))
        }
        6 => Res::File(unsafe { compio_fs::File::from_raw_fd(open_raw("/tmp", libc::O_RDONLY | libc::O_DIRECTORY)?) }, 0),
        7 => Res::File(unsafe { compio_fs::File::from_raw_fd(wronly_fd()?) }, 0),
        8 => Res::File(unsafe { compio_fs::File::from_raw_fd(open_raw("/proc/self/mem", libc::O_RDONLY)?) }, 0),
        9 => Res::Pipe(
            unsafe { compio_fs::pipe::Receiver::from_raw_fd(open_raw("/tmp", libc::O_RDONLY | libc::O_DIRECTORY)?) },
            None,
        ),
        10 => Res::Pipe(unsafe { compio_fs::pipe::Receiver::from_raw_fd(wronly_fd()?) }, None),
        2 => {
            let l = std::net::TcpListener::bind("127.0.0.1:0").map_err(|_| BadCase)?;
            let a = std::net::TcpStream::connect(l.local_addr().map_err(|_| BadCase)?).map_err(|_| BadCase)?;
            let (b, _) = l.accept().map_err(|_| BadCase)?;
            a.set_nodelay(true).ok();
            a.set_nonblocking(true).ok();
            b.set_nonblocking(true).ok();
            Res::Tcp(compio_net::TcpStream::from_std(b).map_err(|_| BadCase)?, Some(a))
        }
        3 => {
            let rx = std::net::UdpSocket::bind("127.0.0.1:0").map_err(|_| BadCase)?;
            let tx = std::net::UdpSocket::bind("127.0.0.1:0").map_err(|_| BadCase)?;
            tx.connect(rx.local_addr().map_err(|_| BadCase)?).map_err(|_| BadCase)?;
            rx.connect(tx.local_addr().map_err(|_| BadCase)?).map_err(|_| BadCase)?;
            rx.set_nonblocking(true).ok();
            tx.set_nonblocking(true).ok();
            Res::Udp(compio_net::UdpSocket::from_std(rx).map_err(|_| BadCase)?, Some(tx))
        }
        4 => {
            let (a, b) = std::os::unix::net::UnixStream::pair().map_err(|_| BadCase)?;
            a.set_nonblocking(true).ok();
            b.set_nonblocking(true).ok();
            Res::Unix(compio_net::UnixStream::from_std(b).map_err(|_| BadCase)?, Some(a))
        }
        _ => return Err(BadCase),
    })
}

fn item_of(r: std::io::Result<Option<BufferRef>>) -> Item {
    match r {
        Ok(Some(b)) => {
            let n = b.len();
            Item::Buf(b, 0, n)
        }
        Ok(None) => Item::Nothing,
        Err(e) => Item::Err(e),
    }
}

fn rescls(b: i64) -> u64 {
    if b > 0 {
        0
    } else if b == 0 {
        1
    } else if b == -(libc::ENOBUFS as i64) || b == -9999 {
        2
    } else if b == -(libc::ECANCELED as i64) {
        3
    } else {
        4
    }
}

fn errcode(e: &std::io::Error) -> u64 {
    use std::io::ErrorKind::*;
    match e.kind() {
        ResourceBusy => 1,
        Unsupported => 2,
        InvalidInput => 3,
        UnexpectedEof => 4,
        Other => 5,
        _ => 100 + e.raw_os_error().unwrap_or(0) as u64,
    }
}

struct World {
    rt: Option<Runtime>,
    res: Vec<Option<Res>>,
    ctr: [u64; N_RES],
    slots: Vec<Slot>,
    held: Vec<Option<Held>>,
    evs: Vec<(u64, u64, u64)>,
    obs: Vec<[u64; 6]>,
    keys: HashMap<u64, u64>,
    next_key: u64,
    main_tid: u64,
    dispatched: u64,
    finished: u64,
    muted: bool,
    last_err: u64,
}

impl World {
    /// move the hook events recorded so far into `evs` (renumbering operations)
    fn drain(&mut self) -> usize {
        let log = verif::take();
        verif::start();
        let mut n = 0;
        for e in log {
            if e.kind == verif::BLOCKING_DISPATCH {
                self.dispatched += 1;
            }
            if e.kind == verif::BLOCKING_END {
                self.finished += 1;
            }
            if self.muted {
                continue;
            }
            // 1 = emitted by another thread (a blocking-pool worker)
            let foreign = (e.thread != self.main_tid) as u64;
            if foreign == 1 && !(e.kind == verif::POOL_BUF || (e.kind == verif::KEY_FREE && self.keys.contains_key(&e.a))) {
                continue;
            }
            match e.kind {
                verif::KEY_NEW => {
                    let k = self.next_key;
                    self.next_key += 1;
                    self.keys.insert(e.a, k);
                    self.evs.push((1, k, 0));
                }
                verif::KEY_FREE => {
                    if let Some(k) = self.keys.remove(&e.a) {
                        self.evs.push((2, k, foreign));
                    }
                }
                verif::SUBMIT | verif::CQE_MORE | verif::CQE_FINAL | verif::SET_RESULT | verif::DROP_DRAIN => {
                    let Some(&k) = self.keys.get(&e.a) else { continue };
                    let arg = if e.kind == verif::SUBMIT || e.kind == verif::DROP_DRAIN { 0 } else { rescls(e.b) };
                    self.evs.push((e.kind as u64, k, arg));
                }
                verif::POOL_BUF => {
                    if e.b == verif::pool::RING_ADD {
                        let id = e.a & 0xffff;
                        let idx = (e.a >> 16) & 0xffff;
                        let tail = (e.a >> 32) & 0xffff;
                        self.evs.push((40 + e.b as u64, id, idx | tail << 16));
                    } else {
                        self.evs.push((40 + e.b as u64, e.a, foreign));
                    }
                }
                verif::ENTER | verif::ENTER_RETURN => {
                    // an enter after which nothing was reaped is of no interest
                    let l = self.evs.len();
                    if e.kind == verif::ENTER && l >= 2 && self.evs[l - 1].0 == 28 && self.evs[l - 2].0 == 27 {
                        self.evs.truncate(l - 2);
                    }
                    self.evs.push((e.kind as u64, 0, 0));
                    continue;
                }
                _ => continue,
            }
            n += 1;
        }
        n
    }

    fn user(&mut self, kind: u64, a: u64, b: u64) {
        self.drain();
        if !self.muted {
            self.evs.push((kind, a, b));
        }
    }

    fn observe(&mut self, o: [u64; 6]) {
        if !self.muted {
            self.obs.push(o);
        }
    }

    fn drive(&mut self, wait_ms: u64) -> usize {
        let n0 = self.drain();
        if let Some(rt) = self.rt.as_ref() {
            rt.enter(|| {
                rt.poll_with(Some(Duration::from_millis(wait_ms)));
                rt.run();
            });
        }
        n0 + self.drain()
    }

    /// let everything that is already under way finish: cancelled operations,
    /// blocking-pool jobs, completions the kernel has queued
    fn settle(&mut self) {
        let t0 = Instant::now();
        let mut quiet = 0;
        while t0.elapsed() < Duration::from_millis(400) {
            beat();
            let busy = self.dispatched > self.finished;
            let n = self.drive(if busy { 2 } else { 0 });
            if n == 0 && self.dispatched <= self.finished {
                quiet += 1;
                if quiet >= 2 {
                    break;
                }
            } else {
                quiet = 0;
            }
        }
    }

    fn resource(&mut self, r: usize) -> Result<(), BadCase> {
        if r >= N_RES {
            return Err(BadCase);
        }
        if self.res[r].is_none() {
            let rt = self.rt.as_ref().ok_or(BadCase)?;
            let x = rt.enter(|| mk_res(r))?;
            self.res[r] = Some(x);
        }
        Ok(())
    }

    fn arrive(&mut self, r: usize, n: u64) {
        let mut data = Vec::new();
        for _ in 0..n {
            data.push((self.ctr[r] % 251) as u8);
            self.ctr[r] += 1;
        }
        match self.res[r].as_ref() {
            Some(Res::Pipe(_, Some(tx))) => {
                let _ = (&*tx).write(&data);
            }
            Some(Res::Tcp(_, Some(tx))) => {
                let _ = (&*tx).write(&data);
            }
            Some(Res::Udp(_, Some(tx))) => {
                let _ = tx.send(&data);
            }
            Some(Res::Unix(_, Some(tx))) => {
                let _ = (&*tx).write(&data);
            }
            _ => {}
        }
    }

    fn new_slot(&mut self, r: usize, len: usize, kind: u64) -> Result<(), BadCase> {
        self.resource(r)?;
        let sh = Rc::new(Shared {
            want: Cell::new(false),
            out: RefCell::new(VecDeque::new()),
        });
        let s2 = sh.clone();
        macro_rules! single {
            ($e:expr) => {
                Box::pin(async move {
                    Gate(s2.clone()).await;
                    let r = $e;
                    s2.out.borrow_mut().push_back(r);
                    s2.out.borrow_mut().push_back(Item::End);
                }) as Pin<Box<dyn Future<Output = ()>>>
            };
        }
        macro_rules! multi {
            ($own:ident, $mk:expr, $conv:expr) => {
                Box::pin(async move {
                    let mut $own = $own;
                    let st = $mk;
                    let mut st = std::pin::pin!(st);
                    loop {
                        Gate(s2.clone()).await;
                        match st.next().await {
                            Some(Ok(b)) => s2.out.borrow_mut().push_back($conv(b)),
                            Some(Err(e)) => s2.out.borrow_mut().push_back(Item::Err(e)),
                            None => {
                                s2.out.borrow_mut().push_back(Item::End);
                                break;
                            }
                        }
                        s2.want.set(false);
                    }
                }) as Pin<Box<dyn Future<Output = ()>>>
            };
        }
        let plain = |b: BufferRef| {
            let n = b.len();
            Item::Buf(b, 0, n)
        };
        let fut = match (self.res[r].as_mut().unwrap(), kind) {
            (Res::File(f, pos), 1) => {
                let f = f.clone();
                let p = *pos;
                *pos = (*pos + 7) % 3000;
                single!(item_of(f.read_managed_at(len, p).await))
            }
            (Res::File(f, _), 18) => {
                // a read at the end of the file: Ok(0)
                let f = f.clone();
                single!(item_of(f.read_managed_at(len, 1 << 20).await))
            }
            (Res::File(f, pos), 17) => {
                // ReadMultiAt through the runtime-level stream, built as compio-net builds its streams
                use compio_driver::ToSharedFd;
                let fd = f.to_shared_fd();
                let p = *pos;
                *pos = (*pos + 7) % 3000;
                multi!(
                    fd,
                    {
                        let rt = Runtime::current();
                        let fd2 = fd.clone();
                        compio_runtime::SubmitMultiStream::new(move || {
                            let pool = rt.buffer_pool()?;
                            let op = compio_driver::op::ReadMultiAt::new(fd2.clone(), p, &pool, len)?;
                            Ok(rt.submit_multi(op).into_managed(pool))
                        })
                    },
                    plain
                )
            }
            (Res::File(..), _) => return Err(BadCase),
            (Res::Pipe(rx, _), 1) => {
                let rx = rx.clone();
                single!(item_of((&rx).read_managed(len).await))
            }
            (Res::Pipe(rx, _), 2) => {
                let rx = rx.clone();
                multi!(rx, rx.read_multi(len), plain)
            }
            (Res::Tcp(s, _), 1) => {
                let s = s.clone();
                single!(item_of((&s).read_managed(len).await))
            }
            (Res::Tcp(s, _), 2) => {
                let s = s.clone();
                multi!(s, s.read_multi(len), plain)
            }
            (Res::Unix(s, _), 1) => {
                let s = s.clone();
                single!(item_of((&s).read_managed(len).await))
            }
            (Res::Unix(s, _), 2) => {
                let s = s.clone();
                multi!(s, s.read_multi(len), plain)
            }
            (Res::Udp(s, _), 1) => {
                let s = s.clone();
                single!(item_of(s.recv_managed(len).await))
            }
            (Res::Udp(s, _), 2) => {
                let s = s.clone();
                multi!(s, s.recv_multi(len), plain)
            }
            (Res::Udp(s, _), 11) => {
                let s = s.clone();
                single!(item_of(s.recv_from_managed(len).await.map(|o| o.map(|(b, _)| b))))
            }
            (Res::Udp(s, _), 12) => {
                let s = s.clone();
                multi!(s, s.recv_from_multi(), |m: compio_driver::op::RecvFromMultiResult| {
                    let (p, n) = (m.data().as_ptr() as usize, m.data().len());
                    let b: BufferRef = m.into_inner();
                    let (_, base, _) = b.verif_identity();
                    Item::Buf(b, p.wrapping_sub(base), n)
                })
            }
            (Res::Udp(s, _), 14) => {
                let s = s.clone();
                let clen = len.min(64);
                multi!(s, s.recv_msg_multi(clen), |m: compio_driver::op::RecvMsgMultiResult| {
                    let (p, n) = (m.data().as_ptr() as usize, m.data().len());
                    // the fallback result holds a second BufferRef (control): dropped here
                    let b: BufferRef = m.into_inner();
                    let (_, base, _) = b.verif_identity();
                    Item::Buf(b, p.wrapping_sub(base), n)
                })
            }
            _ => return Err(BadCase),
        };
        self.slots.push(Slot { fut: Some(fut), sh, res: r, kind });
        Ok(())
    }

    /// the harness now owns a buffer handle
    fn hold(&mut self, b: BufferRef, off: usize, n: usize, slot: u64) {
        let (id, addr, cap) = b.verif_identity();
        let bytes: Vec<u8> = unsafe { std::slice::from_raw_parts((addr + off) as *const u8, n.min(cap as usize - off.min(cap as usize))) }.to_vec();
        let contiguous = bytes.windows(2).all(|w| w[1] == ((w[0] as u16 + 1) % 251) as u8) as u64;
        self.user(U_GOT, id as u64, slot);
        self.observe([1, id as u64, addr as u64, cap as u64, bytes.len() as u64, contiguous]);
        self.held.push(Some(Held {
            buf: b,
            id: id as u64,
            at: addr + off,
            snapshot: bytes,
        }));
    }

    fn poll_slot(&mut self, s: usize) -> Polled {
        let mut pd = Polled::default();
        if s >= self.slots.len() || self.slots[s].fut.is_none() || self.rt.is_none() {
            return pd;
        }
        beat();
        self.user(U_POLL, s as u64, 0);
        let sh = self.slots[s].sh.clone();
        sh.want.set(true);
        let done = {
            let rt = self.rt.as_ref().unwrap();
            let fut = self.slots[s].fut.as_mut().unwrap();
            rt.enter(|| {
                let w = futures_util::task::noop_waker();
                let mut cx = Context::from_waker(&w);
                fut.as_mut().poll(&mut cx).is_ready()
            })
        };
        self.drain();
        loop {
            let it = sh.out.borrow_mut().pop_front();
            match it {
                Some(Item::Buf(b, off, n)) => {
                    pd.bufs += 1;
                    self.hold(b, off, n, s as u64)
                }
                Some(Item::Nothing) => {
                    pd.other = true;
                    self.observe([7, s as u64, 0, 0, 0, 0])
                }
                Some(Item::Err(e)) => {
                    pd.err = errcode(&e);
                    self.last_err = errcode(&e);
                    self.observe([3, s as u64, errcode(&e), 0, 0, 0]);
                    drop(e);
                }
                Some(Item::End) => {
                    pd.other = true;
                    self.observe([8, s as u64, 0, 0, 0, 0])
                }
                None => break,
            }
        }
        if done {
            self.slots[s].fut = None;
            self.drain();
        }
        pd
    }

    /// bytes (datagrams) the OS holds for the reading end of resource r right now
    fn os_pending(&self, r: usize) -> bool {
        let fd = match self.res[r].as_ref() {
            Some(Res::File(..)) => return r == 0,
            Some(Res::Pipe(x, _)) => x.as_raw_fd(),
            Some(Res::Tcp(x, _)) => x.as_raw_fd(),
            Some(Res::Udp(x, _)) => x.as_raw_fd(),
            Some(Res::Unix(x, _)) => x.as_raw_fd(),
            None => return false,
        };
        let mut n: libc::c_int = 0;
        if r >= 6 {
            return false;
        }
        let rc = unsafe { libc::ioctl(fd, libc::FIONREAD, &mut n) };
        rc == 0 && n > 0
    }

    /// the consumer awaits next(): poll / let the driver run until the slot
    /// yields something or the round budget is used up.
    /// mode 0: stop at the first item of any kind; mode 1: ResourceBusy items are
    /// stale news (the consumer released buffers since), keep going for data.
    fn await_slot(&mut self, s: usize, mode: u64) {
        if s >= self.slots.len() || self.slots[s].fut.is_none() || self.rt.is_none() {
            return;
        }
        self.drive(0);
        let (r, kind) = (self.slots[s].res, self.slots[s].kind);
        // a multishot read at an offset is refused before the kernel looks at the ring
        let pending = (self.os_pending(r) && kind != 17) as u64;
        let sole = (self.slots.iter().filter(|x| x.fut.is_some() && x.res == r).count() == 1) as u64;
        self.user(U_AWAIT, s as u64 | kind << 16, pending | sole << 1 | (mode & 1) << 2);
        let (mut outcome, mut err, mut busy_seen) = (0u64, 0u64, 0u64);
        let t0 = Instant::now();
        let mut round = 0;
        // the round budget; a job in the blocking pool (polling driver, files) gets wall time as well
        while round < 80 || (self.dispatched > self.finished && t0.elapsed() < Duration::from_secs(10)) {
            round += 1;
            let pd = self.poll_slot(s);
            if pd.bufs > 0 {
                outcome = 1;
                break;
            }
            if pd.err != 0 {
                if mode == 1 && pd.err == 1 && busy_seen < 3 && self.slots[s].fut.is_some() {
                    busy_seen += 1;
                } else {
                    outcome = 2;
                    err = pd.err;
                    break;
                }
            } else if pd.other {
                outcome = 3;
                break;
            }
            if self.slots[s].fut.is_none() {
                outcome = 3;
                break;
            }
            self.drive(if round < 4 { 0 } else { 1 });
        }
        self.user(U_AWAITED, outcome, err | pending << 8 | busy_seen << 16);
    }

    fn drop_slot(&mut self, s: usize) {
        if s < self.slots.len() && self.slots[s].fut.is_some() {
            self.user(U_DROPSLOT, s as u64, 0);
            let f = self.slots[s].fut.take();
            drop(f);
            // results produced but not collected are dropped with the slot
            self.slots[s].sh.out.borrow_mut().clear();
            self.drain();
        }
    }

    fn drop_handle(&mut self, h: usize) {
        if h < self.held.len()
            && let Some(hd) = self.held[h].take()
        {
            self.check_one(&hd);
            self.user(U_DROP, hd.id, 0);
            self.observe([6, hd.id, 0, 0, 0, 0]);
            drop(hd);
            self.drain();
        }
    }

    /// a buffer the user holds must still contain what it contained when it was handed out
    fn check_one(&mut self, hd: &Held) {
        let (id, addr, cap) = hd.buf.verif_identity();
        let now: &[u8] = unsafe { std::slice::from_raw_parts(hd.at as *const u8, hd.snapshot.len()) };
        let stable = now == &hd.snapshot[..];
        self.observe([2, id as u64, stable as u64, addr as u64, cap as u64, 0]);
    }

    fn check(&mut self) {
        let hs: Vec<usize> = (0..self.held.len()).filter(|&i| self.held[i].is_some()).collect();
        for h in hs {
            let hd = self.held[h].take().unwrap();
            self.check_one(&hd);
            self.held[h] = Some(hd);
        }
    }

    fn drop_rt(&mut self, settle_first: bool) {
        if self.rt.is_none() {
            return;
        }
        for s in 0..self.slots.len() {
            self.drop_slot(s);
        }
        if settle_first {
            self.settle();
        }
        self.user(U_DROPRT, 0, 0);
        // resources hold clones of nothing from the runtime, but their close needs no runtime either
        self.res.iter_mut().for_each(|r| *r = None);
        let rt = self.rt.take();
        drop(rt);
        self.drain();
    }

    /// how many buffers can be obtained now: single 1-byte reads on the probe
    /// pipe, all results held, until one fails
    fn probe(&mut self) -> Result<(), BadCase> {
        if self.rt.is_none() {
            return Ok(());
        }
        self.resource(5)?;
        let mut got = 0u64;
        let mut err = 0u64;
        let first_h = self.held.len();
        for _ in 0..40 {
            self.arrive(5, 1);
            let s = self.slots.len();
            self.new_slot(5, 1, 1)?;
            let before = self.held.len();
            self.last_err = 0;
            let mut finished = false;
            for round in 0..50 {
                self.poll_slot(s);
                if self.slots[s].fut.is_none() {
                    finished = true;
                    break;
                }
                self.drive(if round < 3 { 0 } else { 2 });
            }
            if !finished {
                self.drop_slot(s);
                err = 98; // hang
                break;
            }
            if self.held.len() > before {
                got += 1;
            } else {
                err = if self.last_err != 0 { self.last_err } else { 97 };
                break;
            }
        }
        self.observe([4, got, err, 0, 0, 0]);
        for h in first_h..self.held.len() {
            self.drop_handle(h);
        }
        Ok(())
    }

    /// `cycles` rounds of (1 byte arrives, managed read, drop the buffer) without
    /// recording: the ring tail advances by the number of successful rounds
    fn wrap(&mut self, cycles: u64) -> Result<(), BadCase> {
        self.resource(5)?;
        self.drain();
        self.muted = true;
        let mut ok = 0u64;
        for _ in 0..cycles {
            beat();
            self.arrive(5, 1);
            let s = self.slots.len();
            let h = self.held.len();
            self.new_slot(5, 1, 1)?;
            for _ in 0..20 {
                self.poll_slot(s);
                if self.slots[s].fut.is_none() {
                    break;
                }
                self.drive(0);
            }
            self.drop_slot(s);
            if self.held.len() > h {
                self.drop_handle(h);
                ok += 1;
            }
            self.slots.truncate(s);
            self.held.truncate(h);
        }
        self.settle();
        self.muted = false;
        self.evs.push((U_WRAP, ok, 0));
        self.obs.push([9, cycles, ok, 0, 0, 0]);
        Ok(())
    }
}

fn run(case: &[u64]) -> Result<Vec<u64>, BadCase> {
    let mut c = Case::new(case);
    let drv = c.take()?;
    let size = c.take()?;
    let buflen = c.take()? as usize;
    let n_steps = c.take()? as usize;
    let mut steps = Vec::new();
    for _ in 0..n_steps {
        steps.push((c.take()?, c.take()?, c.take()?));
    }
    if drv > 1 || size == 0 || size > 64 || buflen == 0 || buflen > 4096 {
        return Err(BadCase);
    }

    let mut pb = ProactorBuilder::new();
    pb.driver_type(if drv == 0 { DriverType::IoUring } else { DriverType::Poll })
        .buffer_pool_size(NonZeroU16::new(size as u16).unwrap())
        .buffer_pool_buffer_len(buflen)
        .thread_pool_limit(2);
    let mut rb = Runtime::builder();
    rb.with_proactor(pb);

    verif::start();
    verif::emit(9999, 0, 0);
    let main_tid = verif::take().first().map_or(0, |e| e.thread);
    verif::start();
    let rt = rb.build().map_err(|_| BadCase)?;
    let mut w = World {
        rt: Some(rt),
        res: (0..N_RES).map(|_| None).collect(),
        ctr: [0; N_RES],
        slots: Vec::new(),
        held: Vec::new(),
        evs: Vec::new(),
        obs: Vec::new(),
        keys: HashMap::new(),
        next_key: 0,
        main_tid,
        dispatched: 0,
        finished: 0,
        muted: false,
        last_err: 0,
    };

    for (op, a, b) in steps {
        beat();
        match op {
            1 | 2 | 11 | 12 | 14 | 17 | 18 => {
                if w.rt.is_none() {
                    continue;
                }
                let r = a as usize;
                if (op == 11 || op == 12 || op == 14) && r != 3 {
                    return Err(BadCase);
                }
                w.new_slot(r, b as usize, op)?;
            }
            3 => {
                if w.rt.is_none() {
                    continue;
                }
                let r = a as usize;
                w.resource(r)?;
                w.arrive(r, b);
                w.drive(0);
            }
            4 => {
                w.poll_slot(a as usize);
            }
            15 => w.await_slot(a as usize, b),
            5 => {
                w.drive(a.min(5));
            }
            6 => w.drop_slot(a as usize),
            7 => w.drop_handle(a as usize),
            8 => w.check(),
            9 => {
                let r = a as usize;
                if r < N_RES
                    && let Some(x) = w.res[r].as_mut()
                {
                    match x {
                        Res::Pipe(_, tx) => drop(tx.take()),
                        Res::Tcp(_, tx) => drop(tx.take()),
                        Res::Udp(_, tx) => drop(tx.take()),
                        Res::Unix(_, tx) => drop(tx.take()),
                        Res::File(..) => {}
                    }
                    w.drive(0);
                }
            }
            10 => w.drop_rt(a == 0),
            13 => {
                if w.rt.is_none() || a > 200_000 {
                    return Err(BadCase);
                }
                w.wrap(a)?;
            }
            _ => return Err(BadCase),
        }
    }

    // epilogue: every stream / future is dropped, everything under way settles,
    // the held buffers are checked and dropped, the pool is probed, the runtime
    // goes away, and the handles that outlived it are dropped last
    if w.rt.is_some() {
        for s in 0..w.slots.len() {
            w.drop_slot(s);
        }
        w.settle();
        w.check();
        // some handles outlive the runtime: those at odd positions
        let hs: Vec<usize> = (0..w.held.len()).filter(|&i| w.held[i].is_some()).collect();
        let keep: Vec<usize> = hs.iter().copied().filter(|h| h % 2 == 1).collect();
        // a probe with handles still out is not a probe of conservation: drop all
        // but remember which to re-acquire; simpler: drop everything, probe, then
        // take `keep.len()` buffers again and let those outlive the runtime
        for h in hs {
            w.drop_handle(h);
        }
        w.probe()?;
        for _ in 0..keep.len().min(3) {
            w.arrive(5, 1);
            let s = w.slots.len();
            w.new_slot(5, 1, 1)?;
            for round in 0..50 {
                w.poll_slot(s);
                if w.slots[s].fut.is_none() {
                    break;
                }
                w.drive(if round < 3 { 0 } else { 2 });
            }
            w.drop_slot(s);
        }
        w.settle();
        w.drop_rt(true);
    }
    w.check();
    for h in 0..w.held.len() {
        w.drop_handle(h);
    }
    // a blocking-pool worker that was still running when the driver went away
    // drops its operation itself: wait for it
    let t0 = Instant::now();
    let mut quiet = 0;
    while w.dispatched > 0 && quiet < 3 && t0.elapsed() < Duration::from_millis(500) {
        std::thread::sleep(Duration::from_millis(1));
        let n = w.drain();
        if n == 0 && w.dispatched <= w.finished {
            quiet += 1;
        } else {
            quiet = 0;
        }
    }
    w.drain();
    let _ = verif::take();

    let mut out = vec![w.evs.len() as u64];
    for (k, a, b) in &w.evs {
        out.extend_from_slice(&[*k, *a, *b]);
    }
    out.push(w.obs.len() as u64);
    for o in &w.obs {
        out.extend_from_slice(o);
    }
    Ok(out)
}

fn main() {
    beat();
    std::thread::spawn(|| {
        loop {
            std::thread::sleep(Duration::from_millis(200));
            let last = BEAT.load(std::sync::atomic::Ordering::Relaxed);
            if now_ms().saturating_sub(last) > WATCHDOG_MS {
                // a step (a poll of next(), a driver poll) did not return
                std::process::abort();
            }
        }
    });
    main_loop(run);
}
