//! C03 harness: cross-thread wake-ups on the real driver / executor / runtime.
//!
//! case: [mode; drv (0 io_uring, 1 polling); a; b; c; seed]
//!   mode 1 (stress)   a = K waker threads, b = R wakes each, c = pause scale.
//!                     A real Proactor; the main thread loops `poll(Some(3 s))`;
//!                     every wake must be followed by a poll return within 2.5 s.
//!   mode 2 (window)   a = scheduling point of Driver::poll (1 after reset, 2 between
//!                     the two set_awake, 3 just before entering the kernel): the
//!                     driver thread is parked there, the remote wake is performed,
//!                     the point is released; `poll(Some(2 s))` must return promptly.
//!   mode 3 (external) a = variant: 0 fresh proactor: flush, wake, fd readable?
//!                     1 after one poll cycle; 2 wake before flush (flush must
//!                     report it or the fd must be readable); 3 repeated rounds.
//!   mode 4 (executor) a = sub-mode, b = sync queue size, c = threads / tasks:
//!                     0 tasks woken concurrently; 1 main future woken
//!                     concurrently; 2 queue-full path with the runtime thread held;
//!                     3 forced window of the full-queue path (sched point
//!                     REMOTE_SPIN_RETRY of compio_executor::verif).
//!   mode 5 (external loop on a real Runtime) a = wake source, b = rounds, c = queue size.
//!                     The harness plays the host event loop: run() / flush() / sleep on
//!                     the runtime's descriptor (libc::poll, bounded by a watchdog) /
//!                     poll_with(Some(0)). Sources: 0 a host-loop callback ON THE RUNTIME'S
//!                     OWN THREAD wakes a task after flush() and before the sleep; 1 another
//!                     thread wakes it during the sleep; 2 a timer; 3 I/O readiness; 4 a
//!                     same-thread callback between run() and flush(); 5 same-thread wake of
//!                     the loop's own waker (Runtime::waker) after flush(). A lost wake is
//!                     observed as "slept the whole watchdog with a runnable task".
//!   mode 6 (completion burst) a = ring capacity, b = number of receives that complete at once
//!                     (more than the completion queue holds), c = 1: another thread wakes the
//!                     runtime during the burst. After the burst was handled a task is woken from
//!                     another thread while the runtime is blocked in poll_with(2.5 s): the wait
//!                     must end promptly. out: [6; drv; cap*1000+burst; burst_ok; ms; lost; 0].
//!   mode 7 (wake during poll) a = rounds, b = cross-thread queue size. Wake #1 from another thread makes
//!                     the runtime poll a task; while that poll is running (handshake) wake #2 is issued
//!                     from the other thread and has returned before the poll ends: the task must be
//!                     polled again. out: [7; drv; rounds; done; 0; lost; 0].
//! out:  [mode; drv; r1; r2; r3; r4; n; (kind thread arg)*n]   (meaning of r* per mode)
//!       the events are the AwakeFlag / notifier / enter hook events, thread 0 =
//!       the driver thread.
use std::{
    collections::HashMap,
    future::Future,
    os::fd::AsRawFd,
    pin::Pin,
    sync::{
        Arc, Mutex,
        atomic::{AtomicBool, AtomicU64, Ordering::SeqCst},
        mpsc,
    },
    task::{Context, Poll, Waker},
    time::{Duration, Instant},
};

use compio_driver::{DriverType, Proactor, ProactorBuilder, verif};
use compio_executor::verif as xv;
use compio_runtime::RuntimeBuilder;
use verif_harness::*;

const MARK: u32 = 200;

struct Rng(u64);
impl Rng {
    fn next(&mut self) -> u64 {
        let mut x = self.0;
        x ^= x << 13;
        x ^= x >> 7;
        x ^= x << 17;
        self.0 = x;
        x
    }
}

fn pause(r: &mut Rng, scale: u64) {
    match r.next() % 6 {
        0 => {}
        1 => std::thread::yield_now(),
        2 => {
            for _ in 0..(r.next() % 2000) {
                std::hint::spin_loop();
            }
        }
        _ => std::thread::sleep(Duration::from_micros(r.next() % (50 * scale.max(1)))),
    }
}

fn driver_type(drv: u64) -> DriverType {
    if drv == 0 { DriverType::IoUring } else { DriverType::Poll }
}

fn build_proactor(drv: u64) -> Result<Proactor, BadCase> {
    let mut b = ProactorBuilder::new();
    b.driver_type(driver_type(drv));
    b.build().map_err(|_| BadCase)
}

/// The recorded hook events of the wake protocol, thread ids renumbered
/// (0 = the thread that emitted the MARK event).
fn encode_log(out: &mut Vec<u64>) {
    let log = verif::take();
    let mut ids: HashMap<u64, u64> = HashMap::new();
    if let Some(m) = log.iter().find(|e| e.kind == MARK) {
        ids.insert(m.thread, 0);
    } else {
        ids.insert(u64::MAX, 0); // nobody is thread 0
    }
    let mut evs = Vec::new();
    for e in &log {
        if !(20..=29).contains(&e.kind) {
            continue;
        }
        let n = ids.len() as u64;
        let th = *ids.entry(e.thread).or_insert(n);
        let arg = match e.kind {
            verif::AWAKE_RESET | verif::AWAKE_WAKE => e.b as u64,
            verif::ENTER => 2 * e.a + (e.b as u64),
            _ => 0,
        };
        evs.push((e.kind as u64, th, arg));
    }
    out.push(evs.len() as u64);
    for (k, t, a) in evs {
        out.extend_from_slice(&[k, t, a]);
    }
}

fn readable(fd: i32, ms: i32) -> bool {
    let mut p = libc::pollfd {
        fd,
        events: libc::POLLIN,
        revents: 0,
    };
    unsafe { libc::poll(&mut p, 1, ms) > 0 }
}

// ---------------------------------------------------------------------------
// mode 1: stress

fn stress(drv: u64, k: u64, rounds: u64, scale: u64, seed: u64) -> Result<Vec<u64>, BadCase> {
    if k == 0 || k > 16 || rounds > 2000 {
        return Err(BadCase);
    }
    verif::start();
    verif::emit(MARK, 0, 0);
    let mut p = build_proactor(drv)?;
    let t0 = Instant::now();
    let finished = Arc::new(AtomicBool::new(false));
    let wake_times: Arc<Mutex<Vec<u64>>> = Arc::new(Mutex::new(Vec::new()));
    let mut handles = Vec::new();
    for i in 0..k {
        let w = p.waker();
        let wt = wake_times.clone();
        let mut rng = Rng(seed.wrapping_mul(0x9E3779B97F4A7C15).wrapping_add(i + 1) | 1);
        handles.push(std::thread::spawn(move || {
            let mut mine = Vec::new();
            for _ in 0..rounds {
                pause(&mut rng, scale);
                mine.push(t0.elapsed().as_micros() as u64);
                w.wake_by_ref();
            }
            wt.lock().unwrap().extend(mine);
        }));
    }
    let term = {
        let w = p.waker();
        let finished = finished.clone();
        std::thread::spawn(move || {
            for h in handles {
                let _ = h.join();
            }
            // the terminating wake is not judged: the main thread may already have seen `finished`
            finished.store(true, SeqCst);
            w.wake();
        })
    };
    let mut returns: Vec<u64> = Vec::new();
    let hard = Instant::now();
    loop {
        let _ = p.poll(Some(Duration::from_secs(3)));
        returns.push(t0.elapsed().as_micros() as u64);
        if finished.load(SeqCst) || hard.elapsed() > Duration::from_secs(40) {
            break;
        }
    }
    let _ = term.join();
    // every wake is followed by a poll return; latency measured on one clock
    let mut wt = wake_times.lock().unwrap().clone();
    wt.sort_unstable();
    let mut max_lat = 0u64;
    let mut bad = 0u64;
    for t in &wt {
        let i = returns.partition_point(|r| r < t);
        match returns.get(i) {
            Some(r) => {
                let lat = (r - t) / 1000;
                max_lat = max_lat.max(lat);
                if lat > 2500 {
                    bad += 1;
                }
            }
            None => bad += 1,
        }
    }
    drop(p);
    let mut out = vec![1, drv, wt.len() as u64, returns.len() as u64, max_lat.min(100_000), bad];
    encode_log(&mut out);
    Ok(out)
}

// ---------------------------------------------------------------------------
// mode 2: forced windows of Driver::poll

fn window(drv: u64, point: u64) -> Result<Vec<u64>, BadCase> {
    if !(1..=3).contains(&point) {
        return Err(BadCase);
    }
    let point = point as usize;
    verif::start();
    verif::emit(MARK, 0, 0);
    let mut p = build_proactor(drv)?;
    let w = p.waker();
    let before = verif::arrived(point);
    verif::block(point, true);
    let helper = std::thread::spawn(move || {
        // point 2 lies behind the kernel wait: a first wake lets the poll get there
        if point == 2 {
            std::thread::sleep(Duration::from_millis(20));
            w.wake_by_ref();
        }
        let t = Instant::now();
        let mut reached = true;
        while verif::arrived(point) == before {
            if t.elapsed() > Duration::from_millis(1500) {
                reached = false;
                break;
            }
            std::thread::yield_now();
        }
        // the driver thread is parked inside the window: wake it from here
        w.wake_by_ref();
        verif::block(point, false);
        reached
    });
    let t = Instant::now();
    let _ = p.poll(Some(Duration::from_secs(2)));
    let elapsed = t.elapsed().as_millis() as u64;
    let reached = helper.join().unwrap_or(false);
    verif::block(point, false);
    drop(p);
    let mut out = vec![2, drv, point as u64, reached as u64, elapsed.min(100_000), (elapsed < 1700) as u64];
    encode_log(&mut out);
    Ok(out)
}

// ---------------------------------------------------------------------------
// mode 3: external event loop waiting on the driver's descriptor

fn external(drv: u64, variant: u64) -> Result<Vec<u64>, BadCase> {
    verif::start();
    verif::emit(MARK, 0, 0);
    let mut p = build_proactor(drv)?;
    let mut flush_ret = 0u64;
    let mut ok = 1u64;
    let mut rounds_done = 0u64;
    let rounds = if variant == 3 { 5 } else { 1 };
    if variant == 1 {
        let _ = p.poll(Some(Duration::ZERO));
    }
    for _ in 0..rounds {
        let w = p.waker();
        if variant == 2 {
            // woken while the runtime is still running: flush must say so, or the fd is readable
            std::thread::spawn(move || w.wake()).join().unwrap();
            let notified = p.flush();
            flush_ret = notified as u64;
            if !notified && !readable(p.as_raw_fd(), 500) {
                ok = 0;
            }
        } else {
            let notified = p.flush();
            flush_ret = notified as u64;
            std::thread::spawn(move || w.wake()).join().unwrap();
            if !readable(p.as_raw_fd(), 500) {
                ok = 0;
            }
        }
        // what the adapter does next
        let _ = p.poll(Some(Duration::ZERO));
        rounds_done += 1;
    }
    drop(p);
    let mut out = vec![3, drv, variant, flush_ret, rounds_done, ok];
    encode_log(&mut out);
    Ok(out)
}

// ---------------------------------------------------------------------------
// mode 4: executor / runtime level

struct Probe {
    polls: AtomicU64,
    done: AtomicBool,
    waker: Mutex<Option<Waker>>,
}

impl Probe {
    fn new() -> Arc<Self> {
        Arc::new(Probe {
            polls: AtomicU64::new(0),
            done: AtomicBool::new(false),
            waker: Mutex::new(None),
        })
    }
}

struct ProbeFut(Arc<Probe>);

impl Future for ProbeFut {
    type Output = ();

    fn poll(self: Pin<&mut Self>, cx: &mut Context<'_>) -> Poll<()> {
        self.0.polls.fetch_add(1, SeqCst);
        if self.0.done.load(SeqCst) {
            return Poll::Ready(());
        }
        let mut slot = self.0.waker.lock().unwrap();
        if slot.as_ref().is_none_or(|w| !w.will_wake(cx.waker())) {
            *slot = Some(cx.waker().clone());
        }
        Poll::Pending
    }
}

/// What the controller thread does once the runtime thread has exported the wakers.
type Controller =
    Box<dyn FnOnce(&[Arc<Probe>], &Arc<Probe>, &mpsc::Sender<()>, &Waker) -> (u64, u64) + Send>;

/// Runs a runtime with `ntasks` probe tasks and a probe main future; `hold` makes
/// the runtime thread sit inside the main future's poll (not ticking) until the
/// controller sends on the channel. Returns what the controller returned.
fn with_runtime(drv: u64, q: usize, ntasks: usize, hold: bool, ctl: Controller) -> Result<(u64, u64), BadCase> {
    let mut pb = ProactorBuilder::new();
    pb.driver_type(driver_type(drv));
    let mut rb = RuntimeBuilder::new();
    rb.with_proactor(pb).sync_queue_size(q);
    let rt = rb.build().map_err(|_| BadCase)?;
    let tasks: Vec<Arc<Probe>> = (0..ntasks).map(|_| Probe::new()).collect();
    let main = Probe::new();
    let (go_tx, go_rx) = mpsc::channel::<()>();
    let ready = Arc::new(AtomicBool::new(false));
    let finish = Arc::new(AtomicBool::new(false));
    let drv_waker = rt.waker();
    let result = Arc::new(Mutex::new((0u64, 0u64)));

    let ctl_thread = {
        let (tasks, main, ready, finish, result) =
            (tasks.clone(), main.clone(), ready.clone(), finish.clone(), result.clone());
        std::thread::spawn(move || {
            while !ready.load(SeqCst) {
                std::thread::yield_now();
            }
            let r = ctl(&tasks, &main, &go_tx, &drv_waker);
            *result.lock().unwrap() = r;
            let _ = go_tx.send(());
            for t in &tasks {
                t.done.store(true, SeqCst);
            }
            finish.store(true, SeqCst);
            // let everything finish: wake all tasks and the main future
            for t in &tasks {
                if let Some(w) = t.waker.lock().unwrap().clone() {
                    w.wake();
                }
            }
            drv_waker.wake();
        })
    };

    let tasks2 = tasks.clone();
    let main2 = main.clone();
    rt.block_on(async move {
        verif::emit(MARK, 0, 0);
        let handles: Vec<_> = tasks2
            .iter()
            .map(|t| compio_runtime::spawn(ProbeFut(t.clone())))
            .collect();
        let mut n = 0u64;
        std::future::poll_fn(|cx| {
            n += 1;
            main2.polls.fetch_add(1, SeqCst);
            *main2.waker.lock().unwrap() = Some(cx.waker().clone());
            if n == 1 {
                // let the tasks run once so that they export their wakers
                cx.waker().wake_by_ref();
                return Poll::Pending;
            }
            if n == 2 {
                ready.store(true, SeqCst);
                if hold {
                    let _ = go_rx.recv();
                }
                return Poll::Pending;
            }
            if finish.load(SeqCst) { Poll::Ready(()) } else { Poll::Pending }
        })
        .await;
        for h in handles {
            let _ = h.await;
        }
    });
    let _ = ctl_thread.join();
    let r = *result.lock().unwrap();
    Ok(r)
}

/// Joins the waker threads. A `wake()` that does not return within `limit` is
/// counted as stuck; the driver is then woken from here until the thread gets
/// through, so that the harness can go on to the next case.
fn join_wakers<T>(
    hs: Vec<std::thread::JoinHandle<T>>,
    drv: &Waker,
    limit: Duration,
) -> (Vec<T>, u64) {
    let t = Instant::now();
    while hs.iter().any(|h| !h.is_finished()) && t.elapsed() < limit {
        std::thread::sleep(Duration::from_millis(2));
    }
    let stuck = hs.iter().filter(|h| !h.is_finished()).count() as u64;
    let t = Instant::now();
    while hs.iter().any(|h| !h.is_finished()) && t.elapsed() < Duration::from_secs(20) {
        drv.wake_by_ref();
        std::thread::sleep(Duration::from_millis(1));
    }
    let mut out = Vec::new();
    for h in hs {
        if h.is_finished() {
            if let Ok(r) = h.join() {
                out.push(r);
            }
        }
    }
    (out, stuck)
}

/// Waits until every (probe, count-before-wake) pair has been polled again.
fn missing_after(records: &[(Arc<Probe>, u64)], watchdog: Duration) -> u64 {
    let t = Instant::now();
    loop {
        let missing = records
            .iter()
            .filter(|(p, c)| p.polls.load(SeqCst) <= *c)
            .count() as u64;
        if missing == 0 || t.elapsed() > watchdog {
            return missing;
        }
        std::thread::sleep(Duration::from_millis(2));
    }
}

fn executor(drv: u64, sub: u64, q: u64, c: u64, seed: u64) -> Result<Vec<u64>, BadCase> {
    if q == 0 || q > 4096 || c == 0 || c > 64 {
        return Err(BadCase);
    }
    verif::start();
    let (r1, r2) = match sub {
        0 | 1 => {
            // c threads wake random tasks (sub 0) / the main future (sub 1), 40 times each
            let ntasks = if sub == 0 { 3 } else { 1 };
            let ctl: Controller = Box::new(move |tasks, main, _go, drv| {
                let targets: Vec<Arc<Probe>> = if sub == 0 { tasks.to_vec() } else { vec![main.clone()] };
                let mut hs = Vec::new();
                for i in 0..c {
                    let targets = targets.clone();
                    let mut rng = Rng(seed.wrapping_mul(0x9E3779B97F4A7C15).wrapping_add(i + 1) | 1);
                    hs.push(std::thread::spawn(move || {
                        let mut recs = Vec::new();
                        for _ in 0..40 {
                            pause(&mut rng, 2);
                            let t = &targets[(rng.next() % targets.len() as u64) as usize];
                            let w = t.waker.lock().unwrap().clone();
                            if let Some(w) = w {
                                let before = t.polls.load(SeqCst);
                                w.wake();
                                recs.push((t.clone(), before));
                            }
                        }
                        recs
                    }));
                }
                let (recs, stuck) = join_wakers(hs, drv, Duration::from_secs(5));
                let all: Vec<_> = recs.into_iter().flatten().collect();
                // all wake() calls have returned
                let missing = missing_after(&all, Duration::from_secs(4));
                (all.len() as u64 + stuck, missing + stuck)
            });
            with_runtime(drv, q as usize, ntasks, false, ctl)?
        }
        2 => {
            // the runtime thread is held; more than q distinct tasks are woken remotely
            let ntasks = (q + c) as usize;
            if ntasks > 200 {
                return Err(BadCase);
            }
            let ctl: Controller = Box::new(move |tasks, _main, go, drv| {
                let mut hs = Vec::new();
                for t in tasks {
                    let t = t.clone();
                    hs.push(std::thread::spawn(move || {
                        let w = t.waker.lock().unwrap().clone().unwrap();
                        let before = t.polls.load(SeqCst);
                        w.wake(); // blocks (spins) while the queue is full
                        (t, before)
                    }));
                }
                // give the wakers time to fill the queue, then let the runtime go
                std::thread::sleep(Duration::from_millis(30));
                let _ = go.send(());
                // a wake() that never returns (queue full, runtime asleep) is a lost wake too
                let (all, stuck) = join_wakers(hs, drv, Duration::from_secs(3));
                let missing = missing_after(&all, Duration::from_secs(4));
                (all.len() as u64 + stuck, missing + stuck)
            });
            with_runtime(drv, q as usize, ntasks, true, ctl)?
        }
        3 => {
            // forced: the second waker is parked between its failed and its successful push
            let ctl: Controller = Box::new(move |tasks, main, go, _drv| {
                let q = q as usize;
                // fill the queue
                let mut all = Vec::new();
                for t in &tasks[..q] {
                    let w = t.waker.lock().unwrap().clone().unwrap();
                    all.push((t.clone(), t.polls.load(SeqCst)));
                    w.wake();
                }
                let last = tasks[q].clone();
                xv::block(xv::REMOTE_SPIN_RETRY, true);
                let before = xv::arrived(xv::REMOTE_SPIN_RETRY);
                let b_before = last.polls.load(SeqCst);
                let w = last.waker.lock().unwrap().clone().unwrap();
                let h = std::thread::spawn(move || w.wake());
                let t = Instant::now();
                while xv::arrived(xv::REMOTE_SPIN_RETRY) == before && t.elapsed() < Duration::from_secs(2) {
                    std::thread::yield_now();
                }
                let main_before = main.polls.load(SeqCst);
                let _ = go.send(());
                // the runtime drains, runs the tasks and goes to sleep
                let t = Instant::now();
                while main.polls.load(SeqCst) < main_before + 2 && t.elapsed() < Duration::from_millis(500) {
                    std::thread::sleep(Duration::from_millis(2));
                }
                std::thread::sleep(Duration::from_millis(100));
                xv::block(xv::REMOTE_SPIN_RETRY, false);
                let _ = h.join();
                all.push((last, b_before));
                let missing = missing_after(&all, Duration::from_secs(3));
                (all.len() as u64, missing)
            });
            let r = with_runtime(drv, q as usize, q as usize + 1, true, ctl);
            xv::block(xv::REMOTE_SPIN_RETRY, false);
            r?
        }
        _ => return Err(BadCase),
    };
    let mut out = vec![4, drv, sub, q, r1, r2];
    encode_log(&mut out);
    Ok(out)
}

// ---------------------------------------------------------------------------
// mode 5: a host event loop drives a real Runtime through its descriptor

const LOOP_WATCHDOG_MS: u64 = 1500;

fn ext_loop(drv: u64, source: u64, rounds: u64, q: u64, seed: u64) -> Result<Vec<u64>, BadCase> {
    use compio_driver::{
        SharedFd,
        op::{Recv, RecvFlags},
    };
    use std::{cell::Cell, io::Write, os::unix::net::UnixStream, rc::Rc};

    if source > 5 || rounds == 0 || rounds > 200 || q == 0 || q > 4096 {
        return Err(BadCase);
    }
    verif::start();
    verif::emit(MARK, 0, 0);
    let mut pb = ProactorBuilder::new();
    pb.driver_type(driver_type(drv));
    let mut rb = RuntimeBuilder::new();
    rb.with_proactor(pb).sync_queue_size(q as usize);
    let rt = rb.build().map_err(|_| BadCase)?;
    let fd = rt.as_raw_fd();
    let mut rng = Rng(seed | 1);

    let probes: Vec<Arc<Probe>> = (0..3).map(|_| Probe::new()).collect();
    let handles: Vec<_> = probes.iter().map(|p| rt.spawn(ProbeFut(p.clone()))).collect();
    // first run: the tasks are polled once and export their wakers
    rt.enter(|| rt.run());

    let mut lost = 0u64;
    let mut max_sleep = 0u64;
    let mut done_rounds = 0u64;
    let mut helpers: Vec<std::thread::JoinHandle<()>> = Vec::new();

    for _ in 0..rounds {
        // what has to happen in this round: returns true once the woken thing ran
        let target = probes[(rng.next() % probes.len() as u64) as usize].clone();
        let before = target.polls.load(SeqCst);
        let flag = Rc::new(Cell::new(false));
        let mut pending_io: Option<(UnixStream, u64)> = None;
        let mut extra = None;
        match source {
            2 => {
                let f = flag.clone();
                let ms = 2 + rng.next() % 12;
                extra = Some(rt.enter(|| {
                    rt.spawn(async move {
                        compio_runtime::time::sleep(Duration::from_millis(ms)).await;
                        f.set(true);
                    })
                }));
            }
            3 => {
                let (a, b) = UnixStream::pair().map_err(|_| BadCase)?;
                a.set_nonblocking(true).ok();
                b.set_nonblocking(true).ok();
                let f = flag.clone();
                let sfd = SharedFd::new(a);
                extra = Some(rt.enter(|| {
                    rt.spawn(async move {
                        let op = Recv::new(sfd, Vec::with_capacity(8), RecvFlags::empty());
                        let _ = compio_runtime::submit(op).await;
                        f.set(true);
                    })
                }));
                pending_io = Some((b, 1 + rng.next() % 4));
            }
            _ => {}
        }
        let satisfied = |target: &Arc<Probe>, flag: &Rc<Cell<bool>>| match source {
            2 | 3 => flag.get(),
            5 => true, // the loop's own waker: the only obligation is not to sleep the watchdog out
            _ => target.polls.load(SeqCst) > before,
        };

        let mut woke = false;
        let mut full_sleeps = 0u64;
        let round_start = Instant::now();
        loop {
            let mut remaining = rt.enter(|| rt.run());
            if woke && satisfied(&target, &flag) {
                break;
            }
            if source == 4 && !woke {
                // host callback between run() and flush(), on the runtime's own thread
                if let Some(w) = target.waker.lock().unwrap().clone() {
                    w.wake_by_ref();
                }
                woke = true;
            }
            remaining |= rt.flush();
            if !woke {
                match source {
                    0 => {
                        // host callback after flush(), before the loop sleeps, same thread
                        if let Some(w) = target.waker.lock().unwrap().clone() {
                            w.wake_by_ref();
                        }
                    }
                    5 => rt.waker().wake(),
                    1 => {
                        let w = target.waker.lock().unwrap().clone();
                        let us = rng.next() % 3000;
                        helpers.push(std::thread::spawn(move || {
                            std::thread::sleep(Duration::from_micros(us));
                            if let Some(w) = w {
                                w.wake();
                            }
                        }));
                    }
                    3 => {
                        if let Some((mut peer, ms)) = pending_io.take() {
                            helpers.push(std::thread::spawn(move || {
                                std::thread::sleep(Duration::from_millis(ms));
                                let _ = peer.write(&[7u8]);
                                // keep the peer open until the harness is done with the round
                                std::thread::sleep(Duration::from_millis(50));
                            }));
                        }
                    }
                    _ => {}
                }
                woke = true;
            }
            let timeout_ms = if remaining {
                0
            } else {
                rt.current_timeout()
                    .map(|d| (d.as_millis() as u64 + 1).min(LOOP_WATCHDOG_MS))
                    .unwrap_or(LOOP_WATCHDOG_MS)
            };
            let t = Instant::now();
            let is_readable = readable(fd, timeout_ms as i32);
            let slept = t.elapsed().as_millis() as u64;
            max_sleep = max_sleep.max(slept);
            if !is_readable && timeout_ms == LOOP_WATCHDOG_MS {
                // the loop slept the whole watchdog although something was woken
                full_sleeps += 1;
            }
            rt.poll_with(Some(Duration::ZERO));
            if source == 5 {
                // nothing to run: judge the sleep itself
                let _ = rt.enter(|| rt.run());
                break;
            }
            if round_start.elapsed() > Duration::from_millis(3 * LOOP_WATCHDOG_MS) {
                full_sleeps += 1;
                break;
            }
        }
        if full_sleeps > 0 {
            lost += 1;
        }
        drop(extra);
        done_rounds += 1;
    }
    for h in helpers {
        let _ = h.join();
    }
    for p in &probes {
        p.done.store(true, SeqCst);
        if let Some(w) = p.waker.lock().unwrap().clone() {
            w.wake();
        }
    }
    rt.enter(|| rt.run());
    drop(handles);
    drop(rt);
    let mut out = vec![5, drv, source, done_rounds, max_sleep.min(100_000), lost];
    encode_log(&mut out);
    Ok(out)
}

// ---------------------------------------------------------------------------
// mode 6: a burst of completions fills the completion queue while the notifier fires;
// afterwards a cross-thread wake must still end a blocking wait of the runtime.
// (On io_uring an overflowing completion queue ends the multishot poll on the
// notifier's eventfd with a final completion: the driver has to arm it again.)

fn cq_burst(drv: u64, cap: u64, burst: u64, wake_in_burst: u64, seed: u64) -> Result<Vec<u64>, BadCase> {
    use compio_driver::{
        SharedFd,
        op::{Recv, RecvFlags},
    };
    use std::{cell::Cell, io::Write, os::unix::net::UnixStream, rc::Rc};

    if cap == 0 || cap > 64 || burst == 0 || burst > 256 || wake_in_burst > 1 {
        return Err(BadCase);
    }
    let mut rng = Rng(seed | 1);
    let mut pb = ProactorBuilder::new();
    pb.driver_type(driver_type(drv)).capacity(cap as u32);
    let mut rb = RuntimeBuilder::new();
    rb.with_proactor(pb);
    let rt = rb.build().map_err(|_| BadCase)?;

    let done = Rc::new(Cell::new(0u64));
    let mut peers = Vec::new();
    rt.enter(|| {
        rt.poll_with(Some(Duration::ZERO));
        for _ in 0..burst {
            let (a, b) = UnixStream::pair().expect("socketpair");
            a.set_nonblocking(true).ok();
            peers.push(b);
            let sfd = SharedFd::new(a);
            let done = done.clone();
            rt.spawn(async move {
                let op = Recv::new(sfd, Vec::with_capacity(8), RecvFlags::empty());
                let _ = compio_runtime::submit(op).await;
                done.set(done.get() + 1);
            })
            .detach();
        }
        while rt.run() {}
        rt.flush();
    });
    // every receive completes at once ...
    for p in peers.iter_mut() {
        let _ = p.write(&[7u8]);
    }
    std::thread::sleep(Duration::from_millis(20 + rng.next() % 40));
    // ... and right then (variant 1) another thread wakes the runtime
    if wake_in_burst == 1 {
        let w = rt.waker();
        std::thread::spawn(move || w.wake()).join().ok();
        std::thread::sleep(Duration::from_millis(10 + rng.next() % 40));
    }
    let deadline = Instant::now() + Duration::from_secs(6);
    let mut burst_ok = 1u64;
    rt.enter(|| {
        while done.get() < burst {
            if Instant::now() > deadline {
                burst_ok = 0;
                break;
            }
            rt.poll_with(Some(Duration::from_millis(20)));
            rt.run();
        }
        for _ in 0..3 {
            rt.poll_with(Some(Duration::ZERO));
            rt.run();
        }
    });

    // business as usual: a task waits to be woken from another thread while the runtime
    // is blocked in the driver (the timeout is only the watchdog)
    let probe = Probe::new();
    let h = rt.spawn(ProbeFut(probe.clone()));
    rt.enter(|| while rt.run() {});
    let before = probe.polls.load(SeqCst);
    let w = probe.waker.lock().unwrap().clone();
    let delay = 60 + rng.next() % 200;
    let waking = std::thread::spawn(move || {
        std::thread::sleep(Duration::from_millis(delay));
        if let Some(w) = w {
            w.wake();
        }
    });
    let start = Instant::now();
    rt.enter(|| {
        rt.poll_with(Some(Duration::from_millis(2500)));
        rt.run();
    });
    let elapsed = start.elapsed().as_millis() as u64;
    waking.join().ok();
    let polled_again = (probe.polls.load(SeqCst) > before) as u64;
    let lost = (elapsed >= 2000 || polled_again == 0) as u64;
    probe.done.store(true, SeqCst);
    if let Some(w) = probe.waker.lock().unwrap().clone() {
        w.wake();
    }
    rt.enter(|| rt.run());
    drop(h);
    drop(peers);
    drop(rt);
    Ok(vec![6, drv, cap * 1000 + burst, burst_ok, elapsed.min(100_000), lost, 0])
}

// ---------------------------------------------------------------------------
// mode 7: a cross-thread wake that arrives DURING a poll of the task, where that poll was itself
// caused by a cross-thread wake (the task's SCHEDULED bit was set by the first waker): the second
// wake may be coalesced only if the task is polled again afterwards.

struct GateProbe {
    polls: AtomicU64,
    waker: Mutex<Option<Waker>>,
    armed: AtomicBool,
    in_poll: AtomicBool,
    proceed: AtomicBool,
    done: AtomicBool,
}

struct GateFut(Arc<GateProbe>);

impl Future for GateFut {
    type Output = ();

    fn poll(self: Pin<&mut Self>, cx: &mut Context<'_>) -> Poll<()> {
        let p = &self.0;
        p.polls.fetch_add(1, SeqCst);
        if p.done.load(SeqCst) {
            return Poll::Ready(());
        }
        *p.waker.lock().unwrap() = Some(cx.waker().clone());
        if p.armed.swap(false, SeqCst) {
            // tell the helper we are inside the poll and wait until its second wake has returned
            p.in_poll.store(true, SeqCst);
            let t = Instant::now();
            while !p.proceed.load(SeqCst) && t.elapsed() < Duration::from_secs(2) {
                std::thread::yield_now();
            }
            p.proceed.store(false, SeqCst);
        }
        Poll::Pending
    }
}

fn wake_in_poll(drv: u64, rounds: u64, q: u64, seed: u64) -> Result<Vec<u64>, BadCase> {
    if rounds == 0 || rounds > 100 || q == 0 || q > 4096 {
        return Err(BadCase);
    }
    let mut rng = Rng(seed | 1);
    let mut pb = ProactorBuilder::new();
    pb.driver_type(driver_type(drv));
    let mut rb = RuntimeBuilder::new();
    rb.with_proactor(pb).sync_queue_size(q as usize);
    let rt = rb.build().map_err(|_| BadCase)?;
    let probe = Arc::new(GateProbe {
        polls: AtomicU64::new(0),
        waker: Mutex::new(None),
        armed: AtomicBool::new(false),
        in_poll: AtomicBool::new(false),
        proceed: AtomicBool::new(false),
        done: AtomicBool::new(false),
    });
    let main = Probe::new();
    let task = rt.spawn(GateFut(probe.clone()));
    let (p2, m2) = (probe.clone(), main.clone());
    let pauses: Vec<u64> = (0..rounds).map(|_| rng.next() % 1500).collect();
    let helper = std::thread::spawn(move || {
        let mut lost = 0u64;
        let mut done_rounds = 0u64;
        let wait = |f: &dyn Fn() -> bool, ms: u64| {
            let t = Instant::now();
            while !f() {
                if t.elapsed() > Duration::from_millis(ms) {
                    return false;
                }
                std::thread::sleep(Duration::from_micros(200));
            }
            true
        };
        // the first poll exports the waker
        wait(&|| p2.waker.lock().unwrap().is_some(), 3000);
        for us in pauses {
            std::thread::sleep(Duration::from_micros(us));
            let Some(w) = p2.waker.lock().unwrap().clone() else { break };
            p2.in_poll.store(false, SeqCst);
            p2.armed.store(true, SeqCst);
            w.wake_by_ref(); // wake #1: makes the runtime poll the task
            if !wait(&|| p2.in_poll.load(SeqCst), 2500) {
                lost += 1; // wake #1 itself never led to a poll
                p2.armed.store(false, SeqCst);
                done_rounds += 1;
                continue;
            }
            let before = p2.polls.load(SeqCst);
            w.wake_by_ref(); // wake #2: arrives while the task is being polled
            p2.proceed.store(true, SeqCst);
            if !wait(&|| p2.polls.load(SeqCst) > before, 1500) {
                lost += 1;
            }
            done_rounds += 1;
        }
        p2.done.store(true, SeqCst);
        if let Some(w) = p2.waker.lock().unwrap().clone() {
            w.wake();
        }
        m2.done.store(true, SeqCst);
        let t = Instant::now();
        loop {
            if let Some(w) = m2.waker.lock().unwrap().clone() {
                w.wake();
                break;
            }
            if t.elapsed() > Duration::from_secs(3) {
                break;
            }
            std::thread::sleep(Duration::from_millis(1));
        }
        (done_rounds, lost)
    });
    rt.block_on(ProbeFut(main.clone()));
    let (done_rounds, lost) = helper.join().map_err(|_| BadCase)?;
    rt.enter(|| rt.run());
    drop(task);
    drop(rt);
    Ok(vec![7, drv, rounds, done_rounds, 0, lost, 0])
}

fn run(case: &[u64]) -> Result<Vec<u64>, BadCase> {
    let mut c = Case::new(case);
    let mode = c.take()?;
    let drv = c.take()?;
    let a = c.take()?;
    let b = c.take()?;
    let cc = c.take()?;
    let seed = c.take()?;
    if drv > 1 {
        return Err(BadCase);
    }
    match mode {
        1 => stress(drv, a, b, cc, seed),
        2 => window(drv, a),
        3 => external(drv, a),
        4 => executor(drv, a, b, cc, seed),
        5 => ext_loop(drv, a, b, cc, seed),
        6 => cq_burst(drv, a, b, cc, seed),
        7 => wake_in_poll(drv, a, b, seed),
        _ => Err(BadCase),
    }
}

fn main() {
    main_loop(run);
}
