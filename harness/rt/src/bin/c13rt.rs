//! C13 correspondence harness, runtime part: the result buffer of a multishot
//! RECVMSG (`compio_driver::op::RecvMsgMultiResult`, io_uring driver) — real
//! datagrams with real ancillary data received through compio-net into pool
//! buffers that are reused (so the reserved name/control areas hold stale
//! bytes), and hostile byte strings through the public constructor.
//! The Coq side is coq/model/RecvMsgOut.v + RunC13RT.v.
use std::{
    io::IoSlice,
    num::NonZero,
    os::fd::{AsRawFd, RawFd},
    panic::{AssertUnwindSafe, catch_unwind},
};

use compio_buf::{IoBuf, IoBufMut, IoBufMutExt, SetLen};
use compio_driver::{
    DriverType, ProactorBuilder, ToSharedFd,
    op::{RecvFlags, RecvMsgMulti, RecvMsgMultiResult},
};
use compio_io::ancillary::{AncillaryData, AncillaryIter, CodecError};
use compio_net::{UdpSocket, UnixStream};
use compio_runtime::{Runtime, RuntimeBuilder};
use futures_util::StreamExt;
use verif_harness::*;

fn build_rt(psize: u64, buflen: u64) -> Result<Runtime, BadCase> {
    if psize == 0 || psize > 16 || buflen == 0 || buflen > 65536 {
        return Err(BadCase);
    }
    let mut pb = ProactorBuilder::new();
    pb.driver_type(DriverType::IoUring);
    pb.buffer_pool_buffer_len(buflen as usize);
    pb.buffer_pool_size(NonZero::new(psize as u16).unwrap());
    Ok(RuntimeBuilder::new().with_proactor(pb).build().expect("runtime"))
}

/// the whole slice `decode` is handed = the data of the control message
struct Raw(Vec<u8>);

impl AncillaryData for Raw {
    const SIZE: usize = 0;

    fn encode(&self, _: &mut [std::mem::MaybeUninit<u8>]) -> Result<(), CodecError> {
        Ok(())
    }

    fn decode(buffer: &[u8]) -> Result<Self, CodecError> {
        Ok(Raw(buffer.to_vec()))
    }
}

fn setopt(fd: RawFd, level: i32, name: i32, val: i32) {
    let r = unsafe {
        libc::setsockopt(
            fd,
            level,
            name,
            &val as *const i32 as *const libc::c_void,
            4,
        )
    };
    assert_eq!(r, 0, "setsockopt");
}

#[derive(Clone, Copy)]
struct FileId(u64, u64);

fn file_id(fd: RawFd) -> FileId {
    let mut st: libc::stat = unsafe { std::mem::zeroed() };
    assert_eq!(unsafe { libc::fstat(fd, &mut st) }, 0);
    FileId(st.st_dev as u64, st.st_ino as u64)
}

/// what to compare the control data with
enum Canon<'a> {
    /// verbatim
    Bytes,
    /// SCM_RIGHTS: every fd refers to the file that was sent -> 1 0 0 0; SCM_CREDENTIALS:
    /// pid / uid / gid are ours -> 1 0 0 0 each
    Unix(&'a [FileId]),
}

/// `[paylen payload.. namelen name_ok flags anc_len ncmsg (level type dlen data..)*]`
fn enc_result(res: &RecvMsgMultiResult, name_ok: impl Fn(&RecvMsgMultiResult) -> (u64, u64), canon: Canon, out: &mut Vec<u64>) {
    let data = res.data();
    out.push(data.len() as u64);
    out.extend(data.iter().map(|&b| b as u64));
    let (nl, ok) = name_ok(res);
    out.push(nl);
    out.push(ok);
    out.push((res.flags().bits() as u64) & 0x28);
    let anc = res.ancillary();
    out.push(anc.len() as u64);
    let mut items = Vec::new();
    let mut n = 0u64;
    if anc.len() >= 16 {
        // the control area of the result buffer is 8-aligned (16 + 128 bytes into an aligned buffer)
        for cmsg in unsafe { AncillaryIter::new(anc) } {
            n += 1;
            let (level, ty) = (cmsg.level(), cmsg.ty());
            let Raw(mut d) = cmsg.data::<Raw>().expect("raw");
            if let Canon::Unix(sent) = &canon {
                if level == libc::SOL_SOCKET && ty == libc::SCM_RIGHTS {
                    for (i, ch) in d.chunks_mut(4).enumerate() {
                        let fd = i32::from_ne_bytes(ch.try_into().unwrap());
                        let id = file_id(fd);
                        let same = sent.get(i).is_some_and(|s| s.0 == id.0 && s.1 == id.1);
                        unsafe { libc::close(fd) };
                        ch.copy_from_slice(&(same as u32).to_ne_bytes());
                    }
                } else if level == libc::SOL_SOCKET && ty == libc::SCM_CREDENTIALS && d.len() == 12 {
                    let me = [unsafe { libc::getpid() } as u32, unsafe { libc::getuid() }, unsafe { libc::getgid() }];
                    for (ch, m) in d.chunks_mut(4).zip(me) {
                        let v = u32::from_ne_bytes(ch.try_into().unwrap());
                        ch.copy_from_slice(&((v == m) as u32).to_ne_bytes());
                    }
                }
            }
            items.push(level as u32 as u64);
            items.push(ty as u32 as u64);
            items.push(d.len() as u64);
            items.extend(d.iter().map(|&b| b as u64));
            if n > 10_000 {
                break;
            }
        }
    }
    out.push(n);
    out.extend_from_slice(&items);
}

fn skip_expected(c: &mut Case) -> Result<(), BadCase> {
    let n = c.take()?;
    for _ in 0..n {
        c.take()?;
        c.take()?;
        c.bytes()?;
    }
    Ok(())
}

fn byte_vec(s: &[u64]) -> Result<Vec<u8>, BadCase> {
    s.iter()
        .map(|&b| if b < 256 { Ok(b as u8) } else { Err(BadCase) })
        .collect()
}

/// one item of the multishot stream, or `1 kind` / `3`
macro_rules! next_item {
    ($st:expr, $out:expr) => {
        match $st.next().await {
            Some(Ok(r)) => Some(r),
            Some(Err(e)) => {
                $out.extend_from_slice(&[1, code_of(e.kind())]);
                None
            }
            None => {
                $out.push(3);
                None
            }
        }
    };
}

fn udp_scenario(c: &mut Case, out: &mut Vec<u64>) -> Result<(), BadCase> {
    let psize = c.take()?;
    let buflen = c.take()?;
    let clen = c.take()? as usize;
    let rflags = c.take()?;
    let n = c.take()? as usize;
    if clen > 4096 || n > 64 || (rflags != 0 && rflags != 0x20) {
        return Err(BadCase);
    }
    struct Dgram {
        opts: u64,
        tos: u32,
        ttl: u32,
        payload: Vec<u8>,
    }
    let mut ds = Vec::new();
    for _ in 0..n {
        let opts = c.take()?;
        let tos = c.take()? as u32;
        let ttl = c.take()? as u32;
        let payload = byte_vec(c.bytes()?)?;
        skip_expected(c)?;
        if opts > 7 || tos > 255 || tos & 3 != 0 || ttl == 0 || ttl > 255 {
            return Err(BadCase);
        }
        ds.push(Dgram { opts, tos, ttl, payload });
    }
    let rt = build_rt(psize, buflen)?;
    rt.block_on(async {
        let recv = UdpSocket::bind("127.0.0.1:0").await.expect("bind");
        let raddr = recv.local_addr().expect("addr");
        let send = std::net::UdpSocket::bind("127.0.0.1:0").expect("bind");
        let saddr = send.local_addr().expect("addr");
        let rfd = recv.as_raw_fd();
        let sfd = send.as_raw_fd();
        let pool = Runtime::with_current(|r| r.buffer_pool()).expect("pool");
        let op = RecvMsgMulti::new(
            recv.to_shared_fd(),
            &pool,
            clen,
            RecvFlags::from_bits_retain(rflags as _),
        )
        .expect("op");
        let mut st = Runtime::with_current(|r| r.submit_multi(op)).into_managed_with(pool.clone(), clen);
        for d in &ds {
            setopt(rfd, libc::IPPROTO_IP, libc::IP_PKTINFO, (d.opts & 1) as i32);
            setopt(rfd, libc::IPPROTO_IP, libc::IP_RECVTOS, ((d.opts >> 1) & 1) as i32);
            setopt(rfd, libc::IPPROTO_IP, libc::IP_RECVTTL, ((d.opts >> 2) & 1) as i32);
            setopt(sfd, libc::IPPROTO_IP, libc::IP_TOS, d.tos as i32);
            setopt(sfd, libc::IPPROTO_IP, libc::IP_TTL, d.ttl as i32);
            send.send_to(&d.payload, raddr).expect("send");
            let Some(item) = next_item!(st, out) else { break };
            let Some(res) = item else {
                out.push(4);
                break;
            };
            out.push(0);
            enc_result(
                &res,
                |r| match r.addr() {
                    None => (0, 0),
                    Some(a) => (a.len() as u64, (a.as_socket() == Some(saddr)) as u64),
                },
                Canon::Bytes,
                out,
            );
        }
    });
    Ok(())
}

fn send_with_fds(fd: RawFd, payload: &[u8], fds: &[RawFd]) {
    let iov = [IoSlice::new(payload)];
    let mut msg: libc::msghdr = unsafe { std::mem::zeroed() };
    msg.msg_iov = iov.as_ptr() as *mut libc::iovec;
    msg.msg_iovlen = 1;
    let space = unsafe { libc::CMSG_SPACE((fds.len() * 4) as u32) } as usize;
    let mut ctl = vec![0u64; space / 8 + 1];
    if !fds.is_empty() {
        msg.msg_control = ctl.as_mut_ptr() as *mut libc::c_void;
        msg.msg_controllen = space as _;
        unsafe {
            let h = libc::CMSG_FIRSTHDR(&msg);
            (*h).cmsg_level = libc::SOL_SOCKET;
            (*h).cmsg_type = libc::SCM_RIGHTS;
            (*h).cmsg_len = libc::CMSG_LEN((fds.len() * 4) as u32) as _;
            std::ptr::copy_nonoverlapping(fds.as_ptr() as *const u8, libc::CMSG_DATA(h), fds.len() * 4);
        }
    }
    let r = unsafe { libc::sendmsg(fd, &msg, 0) };
    assert_eq!(r, payload.len() as isize, "sendmsg");
}

fn unix_scenario(c: &mut Case, out: &mut Vec<u64>) -> Result<(), BadCase> {
    let psize = c.take()?;
    let buflen = c.take()?;
    let clen = c.take()? as usize;
    let n = c.take()? as usize;
    if clen > 4096 || n > 64 {
        return Err(BadCase);
    }
    struct Msg {
        passcred: u64,
        nfds: usize,
        payload: Vec<u8>,
    }
    let mut ms = Vec::new();
    for _ in 0..n {
        let passcred = c.take()?;
        let nfds = c.take()? as usize;
        let payload = byte_vec(c.bytes()?)?;
        skip_expected(c)?;
        if passcred > 1 || nfds > 16 || payload.is_empty() {
            return Err(BadCase);
        }
        ms.push(Msg { passcred, nfds, payload });
    }
    // files to pass around
    let files: Vec<std::fs::File> = (0..16).map(|_| std::fs::File::open("/dev/null").expect("open")).collect();
    let pipes: Vec<(std::io::PipeReader, std::io::PipeWriter)> = (0..8).map(|_| std::io::pipe().expect("pipe")).collect();
    let send_fds: Vec<RawFd> = (0..16)
        .map(|i| if i % 2 == 0 { pipes[i / 2].0.as_raw_fd() } else { files[i].as_raw_fd() })
        .collect();
    let rt = build_rt(psize, buflen)?;
    rt.block_on(async {
        let (a, b) = std::os::unix::net::UnixStream::pair().expect("pair");
        let sfd = b.as_raw_fd();
        let recv = UnixStream::from_std(a).expect("from_std");
        let rfd = recv.as_raw_fd();
        let pool = Runtime::with_current(|r| r.buffer_pool()).expect("pool");
        let op = RecvMsgMulti::new(recv.to_shared_fd(), &pool, clen, RecvFlags::empty()).expect("op");
        let mut st = Runtime::with_current(|r| r.submit_multi(op)).into_managed_with(pool.clone(), clen);
        for m in &ms {
            setopt(rfd, libc::SOL_SOCKET, libc::SO_PASSCRED, m.passcred as i32);
            let fds = &send_fds[..m.nfds];
            let ids: Vec<FileId> = fds.iter().map(|&f| file_id(f)).collect();
            send_with_fds(sfd, &m.payload, fds);
            let Some(item) = next_item!(st, out) else { break };
            let Some(res) = item else {
                out.push(4);
                break;
            };
            out.push(0);
            enc_result(
                &res,
                |r| match r.addr() {
                    None => (0, 0),
                    Some(a) => (a.len() as u64, 0),
                },
                Canon::Unix(&ids),
                out,
            );
        }
    });
    Ok(())
}

fn enc_catch(out: &mut Vec<u64>, f: impl FnOnce(&mut Vec<u64>)) {
    let mut tmp = Vec::new();
    match catch_unwind(AssertUnwindSafe(|| f(&mut tmp))) {
        Ok(()) => {
            out.push(0);
            out.extend_from_slice(&tmp);
        }
        Err(p) => {
            let msg = if let Some(s) = p.downcast_ref::<&str>() {
                s.to_string()
            } else if let Some(s) = p.downcast_ref::<String>() {
                s.clone()
            } else {
                String::new()
            };
            out.extend_from_slice(&[2, panic_code(&msg)]);
        }
    }
}

/// arbitrary bytes as the content of a pool buffer, through the public constructor
fn hostile(c: &mut Case, out: &mut Vec<u64>) -> Result<(), BadCase> {
    let clen = c.take()? as usize;
    let bytes = byte_vec(c.rest())?;
    if clen > 4096 || bytes.len() > 4096 {
        return Err(BadCase);
    }
    let rt = build_rt(1, 4096)?;
    rt.block_on(async {
        let pool = Runtime::with_current(|r| r.buffer_pool()).expect("pool");
        // (pop() is not supported by the io_uring pool; no receive is in flight, buffer 0 is ours)
        let mut buf = pool.take(0).expect("take").expect("buffer 0");
        {
            let dst = buf.as_uninit();
            for (i, &b) in bytes.iter().enumerate() {
                dst[i].write(b);
            }
        }
        unsafe { buf.set_len(bytes.len()) };
        let base = buf.as_init().as_ptr() as usize;
        let total = bytes.len();
        let namelen = if total >= 4 { u32::from_le_bytes(bytes[0..4].try_into().unwrap()) as usize } else { 0 };
        let res = unsafe { RecvMsgMultiResult::new(buf, clen) };
        out.push(0);
        enc_catch(out, |o| {
            let d = res.data();
            o.push((d.as_ptr() as usize - base) as u64);
            o.push(d.len() as u64);
            assert!(d.as_ptr() as usize - base + d.len() <= total, "assertion: data slice outside the buffer");
        });
        enc_catch(out, |o| {
            let a = res.ancillary();
            o.push((a.as_ptr() as usize - base) as u64);
            o.push(a.len() as u64);
            o.extend(a.iter().map(|&b| b as u64));
        });
        if namelen > 128 {
            // addr() would copy namelen bytes into a 128-byte sockaddr_storage: not executed
            out.push(9);
        } else {
            enc_catch(out, |o| match res.addr() {
                None => o.push(0),
                Some(a) => {
                    o.push(1);
                    o.push(a.len() as u64);
                    let p = a.as_ptr() as *const u8;
                    for i in 0..a.len() as usize {
                        o.push(unsafe { *p.add(i) } as u64);
                    }
                }
            });
        }
        out.push(res.flags().bits() as u32 as u64);
    });
    Ok(())
}

fn run(case: &[u64]) -> Result<Vec<u64>, BadCase> {
    let mut c = Case::new(case);
    let mut out = vec![0];
    match c.take()? {
        1 => udp_scenario(&mut c, &mut out)?,
        2 => unix_scenario(&mut c, &mut out)?,
        3 => hostile(&mut c, &mut out)?,
        _ => return Err(BadCase),
    }
    Ok(out)
}

fn main() {
    main_loop(run);
}
