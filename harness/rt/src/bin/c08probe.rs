use compio_driver::{DriverType, ProactorBuilder};
use compio_io::{AsyncReadAt, AsyncWriteAt};
use compio_runtime::RuntimeBuilder;
use compio_buf::BufResult;

fn main() {
    let mask: Vec<u8> = std::env::args().skip(1).map(|s| s.parse().unwrap()).collect();
    compio_driver::verif_mask::set(&mask);
    let mut pb = ProactorBuilder::new();
    pb.driver_type(DriverType::IoUring);
    let r = RuntimeBuilder::new().with_proactor(pb).build().unwrap();
    r.block_on(async {
        let p = std::env::temp_dir().join(format!("c08probe_{}", std::process::id()));
        std::fs::write(&p, b"0123456789").unwrap();
        eprintln!("open");
        let f = compio_fs::OpenOptions::new().read(true).write(true).open(&p).await.unwrap();
        for i in 0..5 {
            eprintln!("write {i}");
            let mut fr = &f;
            let BufResult(res, _) = fr.write_at(vec![1u8, 2, 3], 3).await;
            eprintln!("  -> {:?}", res);
            eprintln!("read {i}");
            let BufResult(res, b) = f.read_at(Vec::<u8>::with_capacity(8), 0).await;
            eprintln!("  -> {:?} {:?}", res, b);
        }
        eprintln!("meta");
        let m = f.metadata().await.unwrap();
        eprintln!("  -> {}", m.len());
        std::fs::remove_file(&p).unwrap();
    });
}
