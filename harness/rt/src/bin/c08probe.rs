use compio_driver::{DriverType, ProactorBuilder};
use compio_io::{AsyncReadAt, AsyncWriteAt, AsyncRead, AsyncWrite, AsyncWriteExt, AsyncReadExt};
use compio_runtime::RuntimeBuilder;
use compio_buf::BufResult;

fn rt(t: DriverType) -> compio_runtime::Runtime {
    let mut pb = ProactorBuilder::new();
    pb.driver_type(t);
    RuntimeBuilder::new().with_proactor(pb).build().unwrap()
}

fn main() {
    let which = std::env::args().nth(1).unwrap();
    for t in [DriverType::IoUring, DriverType::Poll] {
        let r = rt(t);
        println!("driver {:?} actual {:?}", t, r.driver_type());
        match which.as_str() {
            "vec" => r.block_on(async {
                let p = std::env::temp_dir().join(format!("c08probe_{}", std::process::id()));
                std::fs::write(&p, b"0123456789").unwrap();
                let f = compio_fs::File::open(&p).await.unwrap();
                let bufs = vec![Vec::<u8>::with_capacity(4), Vec::with_capacity(8)];
                let BufResult(res, bufs) = f.read_vectored_at(bufs, 0).await;
                println!("read_vectored_at cap-only: {:?} {:?}", res, bufs);
                let bufs = vec![vec![7u8; 2], { let mut v = Vec::with_capacity(8); v.push(9u8); v }];
                let BufResult(res, bufs) = f.read_vectored_at(bufs, 1).await;
                println!("read_vectored_at len>0: {:?} {:?}", res, bufs);
                let (mut rx, mut tx) = compio_fs::pipe::anonymous().await.unwrap();
                tx.write_all(b"abcdefghij".to_vec()).await.0.unwrap();
                let bufs = vec![Vec::<u8>::with_capacity(4), Vec::with_capacity(8)];
                let BufResult(res, bufs) = rx.read_vectored(bufs).await;
                println!("pipe read_vectored: {:?} {:?}", res, bufs);
                std::fs::remove_file(&p).unwrap();
            }),
            "pipe" => r.block_on(async {
                let (mut rx, mut tx) = compio_fs::pipe::anonymous().await.unwrap();
                let n = 300_000usize;
                let w = compio_runtime::spawn(async move {
                    let BufResult(res, _) = tx.write_all(vec![5u8; n]).await;
                    res.unwrap();
                    drop(tx);
                });
                let mut got = 0usize;
                loop {
                    let BufResult(res, b) = rx.read(Vec::<u8>::with_capacity(10000)).await;
                    let k = res.unwrap();
                    if k == 0 { break; }
                    assert_eq!(b.len(), k);
                    got += k;
                }
                w.await.unwrap();
                println!("pipe concurrent: got {got}");
            }),
            "proc" => r.block_on(async {
                let mut cmd = compio_process::Command::new("cat");
                cmd.stdin(std::process::Stdio::piped()).unwrap();
                cmd.stdout(std::process::Stdio::piped()).unwrap();
                let mut child = cmd.spawn().unwrap();
                let mut stdin = child.stdin.take().unwrap();
                let mut stdout = child.stdout.take().unwrap();
                let n = 300_000usize;
                let w = compio_runtime::spawn(async move {
                    let BufResult(res, _) = stdin.write_all(vec![5u8; n]).await;
                    res.unwrap();
                    drop(stdin);
                });
                let mut got = 0usize;
                loop {
                    let BufResult(res, b) = stdout.read(Vec::<u8>::with_capacity(10000)).await;
                    let k = res.unwrap();
                    if k == 0 { break; }
                    got += k;
                }
                w.await.unwrap();
                let st = child.wait().await.unwrap();
                println!("proc echo: got {got} status {:?}", st);
            }),
            _ => {}
        }
    }
}
