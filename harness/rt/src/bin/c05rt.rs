//! C05 (runtime level) correspondence harness: cancellation through
//! `CancelToken` / the `with_cancel` / `with_personality` / `fail_fast`
//! combinators / `time::timeout` / dropping the future (JoinHandle drop), on a
//! real `compio_runtime::Runtime` (io_uring or polling driver).
//!
//! Every task awaits ONE operation future (`compio_runtime::submit` of a driver
//! op on a harness-controlled resource) wrapped in a generated nesting of
//! combinators.  The harness prints, per task, when it finished and how; the
//! extracted Coq model (coq/model/CancelTok.v, RunC05RT.v) predicts the same.
//!
//! case : drv n_res (kind)* n_tok n_steps step*
//!   kind : 0 socket recv | 1 pipe read | 2 accept | 3 poll-readable | 4 connect to a black hole
//!   step : 1 r wx n (wrap arg)*     spawn the next task on resource r (wx: Submit::with_extra)
//!            wrap (innermost first): 1 t with_cancel | 2 p with_personality | 3 t with_cancel.fail_fast
//!                                    4 d timeout (0 zero, 1 short, 2 long) | 5 t with_cancel.fail_fast.fail_slow
//!          2 r extra                write one chunk per live task of r plus `extra`
//!          3 t                      token t .cancel()
//!          4 i                      drop the JoinHandle of task i
//!          5                        run the runtime for a bounded time
//! out  : 0 n_tasks (fin_run class value pers)* n_res (leftover)* (dcancels freed)* n_tok (is_cancelled wait_done)*
//!   class: 0 pending | 1 Ok, bytes valid | 2 ECANCELED | 3 Elapsed | 4 Cancelled | 5 other errno
//!          6 handle dropped | 7 Ok, bytes NOT valid
use std::{
    cell::RefCell,
    collections::{HashMap, HashSet},
    future::Future,
    io::Write as _,
    os::{
        fd::{AsRawFd, FromRawFd, OwnedFd, RawFd},
        unix::net::{UnixListener, UnixStream},
    },
    pin::Pin,
    rc::Rc,
    sync::mpsc,
    task::{Context, Poll},
    time::Duration,
};

use compio_buf::{BufResult, IntoInner};
use compio_driver::{
    DriverType, Extra, OpCode, ProactorBuilder, SharedFd,
    op::{Accept, Connect, Interest, PollOnce, Read, Recv, RecvFlags},
    verif,
};
use compio_runtime::{
    CancelToken, FutureExt as _, JoinHandle, Runtime, RuntimeBuilder,
    time::{sleep, timeout},
};
use verif_harness::*;

const CHUNK: usize = 4;
const RUN_MS: u64 = 12;
/// a run that has to see a short timeout fire lasts LONG_RUN_MS: the margins (first poll well
/// before SHORT_MS, the sleep well before the end of the run) are the only timing assumptions
const SHORT_MS: u64 = 100;
const LONG_RUN_MS: u64 = 135;
const LONG_MS: u64 = 600_000;
const BOGUS_PERSONALITY: u16 = 0x6fff;
const U_MARK: u32 = 120;
const U_MARK_END: u32 = 121;
const ECANCELED: u64 = 125;

#[derive(Clone, Debug)]
enum Res {
    /// leaf result Ok(n); the received bytes (recv/read kinds)
    Ok { n: usize, bytes: Vec<u8>, pers: u64 },
    Errno { e: u64, pers: u64 },
    Elapsed,
    Cancelled,
}

type BoxFut = Pin<Box<dyn Future<Output = Res>>>;

/// emits a marker around every poll of the leaf, so that the storage allocated
/// by the first poll can be attributed to the task
struct Marked<F> {
    id: u64,
    inner: F,
}

impl<F: Future + Unpin> Future for Marked<F> {
    type Output = F::Output;

    fn poll(mut self: Pin<&mut Self>, cx: &mut Context<'_>) -> Poll<F::Output> {
        verif::emit(U_MARK, self.id, 0);
        let r = Pin::new(&mut self.inner).poll(cx);
        verif::emit(U_MARK_END, self.id, 0);
        r
    }
}

fn pers_of(extra: &Extra) -> u64 {
    match extra.get_personality() {
        Ok(Some(p)) => p as u64,
        _ => 0,
    }
}

fn errno_of(e: &std::io::Error) -> u64 {
    e.raw_os_error().unwrap_or(9999) as u64
}

/// the leaf: `compio_runtime::submit(op)` (optionally `.with_extra()`), result mapped to `Res`
fn leaf<T, G>(id: u64, wx: bool, op: T, bytes_of: G) -> BoxFut
where
    T: OpCode + 'static,
    G: FnOnce(T, usize) -> Vec<u8> + 'static,
{
    if wx {
        let fut = Marked { id, inner: compio_runtime::submit(op).with_extra() };
        Box::pin(async move {
            let (BufResult(res, op), extra) = fut.await;
            let pers = pers_of(&extra);
            match res {
                Ok(n) => Res::Ok { n, bytes: bytes_of(op, n), pers },
                Err(e) => Res::Errno { e: errno_of(&e), pers },
            }
        })
    } else {
        let fut = Marked { id, inner: compio_runtime::submit(op) };
        Box::pin(async move {
            let BufResult(res, op) = fut.await;
            match res {
                Ok(n) => Res::Ok { n, bytes: bytes_of(op, n), pers: 0 },
                Err(e) => Res::Errno { e: errno_of(&e), pers: 0 },
            }
        })
    }
}

fn buf_bytes(buf: Vec<u8>, n: usize) -> Vec<u8> {
    // the driver-level op does not set the length; the bytes are in the allocation
    let p = buf.as_ptr();
    (0..n.min(buf.capacity())).map(|i| unsafe { *p.add(i) }).collect()
}

enum Resource {
    Sock { op_side: SharedFd<OwnedFd>, peer: UnixStream },
    Pipe { op_side: SharedFd<OwnedFd>, peer: std::fs::File },
    Listener { op_side: SharedFd<OwnedFd>, path: std::path::PathBuf, conns: Vec<UnixStream> },
    PollSock { op_side: SharedFd<OwnedFd>, peer: UnixStream },
    BlackHole { _listener: std::net::TcpListener, addr: std::net::SocketAddr, _fill: Vec<std::net::TcpStream> },
}

fn chunk(r: usize, j: usize) -> [u8; CHUNK] {
    [(r + 1) as u8, (j & 0xff) as u8, ((j >> 8) & 0xff) as u8, 0x5a ^ (j as u8)]
}

fn set_nonblocking(fd: RawFd) {
    unsafe {
        let fl = libc::fcntl(fd, libc::F_GETFL);
        libc::fcntl(fd, libc::F_SETFL, fl | libc::O_NONBLOCK);
    }
}

fn uniq_path() -> std::path::PathBuf {
    use std::sync::atomic::{AtomicU64, Ordering};
    static N: AtomicU64 = AtomicU64::new(0);
    let n = N.fetch_add(1, Ordering::Relaxed);
    std::env::temp_dir().join(format!("c05rt-{}-{}.sock", std::process::id(), n))
}

fn mk_resource(kind: u64, poll_driver: bool) -> Result<Resource, BadCase> {
    Ok(match kind {
        0 | 3 => {
            let (a, b) = UnixStream::pair().map_err(|_| BadCase)?;
            if poll_driver {
                a.set_nonblocking(true).ok();
            }
            b.set_nonblocking(true).ok();
            let op_side = SharedFd::new(OwnedFd::from(a));
            if kind == 0 {
                Resource::Sock { op_side, peer: b }
            } else {
                Resource::PollSock { op_side, peer: b }
            }
        }
        1 => {
            let mut fds = [0 as RawFd; 2];
            if unsafe { libc::pipe2(fds.as_mut_ptr(), libc::O_CLOEXEC) } != 0 {
                return Err(BadCase);
            }
            if poll_driver {
                set_nonblocking(fds[0]);
            }
            set_nonblocking(fds[1]);
            let rd = unsafe { OwnedFd::from_raw_fd(fds[0]) };
            let wr = unsafe { std::fs::File::from_raw_fd(fds[1]) };
            Resource::Pipe { op_side: SharedFd::new(rd), peer: wr }
        }
        2 => {
            let path = uniq_path();
            let _ = std::fs::remove_file(&path);
            let l = UnixListener::bind(&path).map_err(|_| BadCase)?;
            if poll_driver {
                l.set_nonblocking(true).ok();
            }
            Resource::Listener { op_side: SharedFd::new(OwnedFd::from(l)), path, conns: Vec::new() }
        }
        4 => {
            // a listener whose accept queue is full: further SYNs are dropped, connect never finishes
            let sock = socket2::Socket::new(socket2::Domain::IPV4, socket2::Type::STREAM, None).map_err(|_| BadCase)?;
            let any: std::net::SocketAddr = "127.0.0.1:0".parse().unwrap();
            sock.bind(&any.into()).map_err(|_| BadCase)?;
            sock.listen(0).map_err(|_| BadCase)?;
            let listener: std::net::TcpListener = sock.into();
            let addr = listener.local_addr().map_err(|_| BadCase)?;
            let mut fill = Vec::new();
            for _ in 0..3 {
                let s = socket2::Socket::new(socket2::Domain::IPV4, socket2::Type::STREAM, None).map_err(|_| BadCase)?;
                s.set_nonblocking(true).ok();
                let _ = s.connect(&addr.into());
                fill.push(s.into());
            }
            Resource::BlackHole { _listener: listener, addr, _fill: fill }
        }
        _ => return Err(BadCase),
    })
}

#[derive(Clone)]
enum Wrap {
    Cancel(usize),
    Pers(usize),
    FailFast(usize),
    Timeout(u64),
    FastSlow(usize),
}

enum Step {
    Spawn { r: usize, wx: bool, wraps: Vec<Wrap> },
    Write { r: usize, extra: usize },
    Fire(usize),
    DropHandle(usize),
    Run,
}

struct Program {
    drv: u64,
    kinds: Vec<u64>,
    n_tok: usize,
    steps: Vec<Step>,
}

fn decode(case: &[u64]) -> Result<Program, BadCase> {
    let mut c = Case::new(case);
    let drv = c.take()?;
    let n_res = c.take()? as usize;
    if drv > 1 || n_res > 6 {
        return Err(BadCase);
    }
    let mut kinds = Vec::new();
    for _ in 0..n_res {
        let k = c.take()?;
        if k > 4 {
            return Err(BadCase);
        }
        kinds.push(k);
    }
    let n_tok = c.take()? as usize;
    let n_steps = c.take()? as usize;
    if n_tok > 6 || n_steps > 40 {
        return Err(BadCase);
    }
    let mut steps = Vec::new();
    let mut n_tasks = 0usize;
    for _ in 0..n_steps {
        match c.take()? {
            1 => {
                let r = c.take()? as usize;
                let wx = c.take()?;
                let n = c.take()? as usize;
                if r >= n_res || wx > 1 || n > 8 || n_tasks >= 12 {
                    return Err(BadCase);
                }
                let mut wraps = Vec::new();
                for _ in 0..n {
                    let w = c.take()?;
                    let a = c.take()? as usize;
                    wraps.push(match w {
                        1 if a < n_tok => Wrap::Cancel(a),
                        2 if a < 3 => Wrap::Pers(a),
                        3 if a < n_tok => Wrap::FailFast(a),
                        4 if a < 3 => Wrap::Timeout(a as u64),
                        5 if a < n_tok => Wrap::FastSlow(a),
                        _ => return Err(BadCase),
                    });
                }
                n_tasks += 1;
                steps.push(Step::Spawn { r, wx: wx == 1, wraps });
            }
            2 => {
                let r = c.take()? as usize;
                let extra = c.take()? as usize;
                if r >= n_res || extra > 2 || kinds[r] == 4 {
                    return Err(BadCase);
                }
                steps.push(Step::Write { r, extra });
            }
            3 => {
                let t = c.take()? as usize;
                if t >= n_tok {
                    return Err(BadCase);
                }
                steps.push(Step::Fire(t));
            }
            4 => {
                let i = c.take()? as usize;
                if i >= n_tasks {
                    return Err(BadCase);
                }
                steps.push(Step::DropHandle(i));
            }
            5 => steps.push(Step::Run),
            _ => return Err(BadCase),
        }
    }
    if c.i != case.len() {
        return Err(BadCase);
    }
    Ok(Program { drv, kinds, n_tok, steps })
}

struct TaskRec {
    r: usize,
    handle: Option<JoinHandle<()>>,
    cell: Rc<RefCell<Option<Res>>>,
    fin_run: u64,
    dropped: bool,
    /// the executor had a run to drop the future after the handle was dropped
    drop_done: bool,
    seen: Option<Res>,
}

fn run_settle(rt: &Runtime, ms: u64) {
    rt.block_on(async {
        sleep(Duration::from_millis(ms)).await;
        for _ in 0..6 {
            sleep(Duration::from_millis(1)).await;
        }
    });
}

fn exec(p: Program) -> Vec<u64> {
    let poll_driver = p.drv == 1;
    let mut pb = ProactorBuilder::new();
    pb.driver_type(if poll_driver { DriverType::Poll } else { DriverType::IoUring });
    let rt = RuntimeBuilder::new().with_proactor(pb).build().expect("runtime");
    assert!(rt.driver_type() == if poll_driver { DriverType::Poll } else { DriverType::IoUring });
    let mut resources: Vec<Resource> = Vec::new();
    for &k in &p.kinds {
        match mk_resource(k, poll_driver) {
            Ok(r) => resources.push(r),
            Err(_) => return vec![BAD_CASE],
        }
    }
    // personalities 0 and 1 are registered (io_uring only), 2 is a number nobody registered
    let pers: [u16; 3] = [
        rt.register_personality().unwrap_or(1),
        rt.register_personality().unwrap_or(2),
        BOGUS_PERSONALITY,
    ];
    let tokens: Vec<CancelToken> = (0..p.n_tok).map(|_| rt.enter(CancelToken::new)).collect();
    let mut written: Vec<usize> = vec![0; resources.len()];
    let mut claimed: Vec<HashSet<usize>> = vec![HashSet::new(); resources.len()];
    let mut tasks: Vec<TaskRec> = Vec::new();
    let mut runs = 0u64;

    verif::start();
    let mut fresh_short = false;
    let do_run = |rt: &Runtime, tasks: &mut Vec<TaskRec>, runs: &mut u64, fresh_short: &mut bool| {
        *runs += 1;
        run_settle(rt, if *fresh_short { LONG_RUN_MS } else { RUN_MS });
        *fresh_short = false;
        for t in tasks.iter_mut() {
            if t.dropped {
                t.drop_done = true;
            }
            if t.fin_run == 0 && !t.dropped {
                if let Some(r) = t.cell.borrow().clone() {
                    t.fin_run = *runs;
                    t.seen = Some(r);
                }
            }
        }
    };

    for step in &p.steps {
        match step {
            Step::Spawn { r, wx, wraps } => {
                let id = tasks.len() as u64;
                let cell: Rc<RefCell<Option<Res>>> = Rc::new(RefCell::new(None));
                let fut: BoxFut = rt.enter(|| {
                    let mut fut: BoxFut = match &resources[*r] {
                        Resource::Sock { op_side, .. } => leaf(
                            id,
                            *wx,
                            Recv::new(op_side.clone(), Vec::<u8>::with_capacity(CHUNK), RecvFlags::empty()),
                            |op, n| buf_bytes(op.into_inner(), n),
                        ),
                        Resource::Pipe { op_side, .. } => leaf(
                            id,
                            *wx,
                            Read::new(op_side.clone(), Vec::<u8>::with_capacity(CHUNK)),
                            |op, n| buf_bytes(op.into_inner(), n),
                        ),
                        Resource::Listener { op_side, .. } => leaf(id, *wx, Accept::new(op_side.clone()), |op, _| {
                            let (sock, _addr) = op.into_inner();
                            // a genuine accepted socket answers getsockname
                            if sock.local_addr().is_ok() { vec![1] } else { vec![0] }
                        }),
                        Resource::PollSock { op_side, .. } => {
                            leaf(id, *wx, PollOnce::new(op_side.clone(), Interest::Readable), |_, _| vec![])
                        }
                        Resource::BlackHole { addr, .. } => {
                            let s = socket2::Socket::new(socket2::Domain::IPV4, socket2::Type::STREAM, None)
                                .expect("socket");
                            if poll_driver {
                                s.set_nonblocking(true).ok();
                            }
                            let fd = SharedFd::new(OwnedFd::from(s));
                            leaf(id, *wx, Connect::new(fd, (*addr).into()), |_, _| vec![])
                        }
                    };
                    for w in wraps {
                        fut = match w.clone() {
                            Wrap::Cancel(t) => Box::pin(fut.with_cancel(tokens[t].clone())),
                            Wrap::Pers(pi) => Box::pin(fut.with_personality(pers[pi])),
                            Wrap::FailFast(t) => {
                                let f = fut.with_cancel(tokens[t].clone()).fail_fast();
                                Box::pin(async move {
                                    match f.await {
                                        Ok(r) => r,
                                        Err(_) => Res::Cancelled,
                                    }
                                })
                            }
                            Wrap::FastSlow(t) => Box::pin(fut.with_cancel(tokens[t].clone()).fail_fast().fail_slow()),
                            Wrap::Timeout(d) => {
                                let dur = match d {
                                    0 => Duration::ZERO,
                                    1 => Duration::from_millis(SHORT_MS),
                                    _ => Duration::from_millis(LONG_MS),
                                };
                                let f = timeout(dur, fut);
                                Box::pin(async move {
                                    match f.await {
                                        Ok(r) => r,
                                        Err(_) => Res::Elapsed,
                                    }
                                })
                            }
                        };
                    }
                    fut
                });
                let c2 = cell.clone();
                let handle = rt.spawn(async move {
                    let r = fut.await;
                    *c2.borrow_mut() = Some(r);
                });
                if wraps.iter().any(|w| matches!(w, Wrap::Timeout(1))) {
                    fresh_short = true;
                }
                tasks.push(TaskRec {
                    r: *r,
                    handle: Some(handle),
                    cell,
                    fin_run: 0,
                    dropped: false,
                    drop_done: false,
                    seen: None,
                });
            }
            Step::Write { r, extra } => {
                // a task whose handle was dropped still has its operation in the driver until
                // the executor ran once more
                let live = tasks
                    .iter()
                    .filter(|t| t.r == *r && t.fin_run == 0 && !(t.dropped && t.drop_done))
                    .count();
                let n = live + extra;
                for _ in 0..n {
                    let j = written[*r];
                    let data = chunk(*r, j);
                    let ok = match &mut resources[*r] {
                        Resource::Sock { peer, .. } | Resource::PollSock { peer, .. } => peer.write_all(&data).is_ok(),
                        Resource::Pipe { peer, .. } => peer.write_all(&data).is_ok(),
                        Resource::Listener { path, conns, .. } => match UnixStream::connect(&*path) {
                            Ok(s) => {
                                conns.push(s);
                                true
                            }
                            Err(_) => false,
                        },
                        Resource::BlackHole { .. } => false,
                    };
                    if ok {
                        written[*r] += 1;
                    }
                }
            }
            Step::Fire(t) => tokens[*t].clone().cancel(),
            Step::DropHandle(i) => {
                let t = &mut tasks[*i];
                if let Some(h) = t.handle.take() {
                    drop(h);
                    if t.fin_run == 0 {
                        t.dropped = true;
                    }
                }
            }
            Step::Run => do_run(&rt, &mut tasks, &mut runs, &mut fresh_short),
        }
    }
    // closing run: whatever was requested last gets its chance to finish
    do_run(&rt, &mut tasks, &mut runs, &mut fresh_short);

    // CancelToken::is_cancelled / wait on every token, after the program
    let waited: Vec<Rc<RefCell<bool>>> = tokens
        .iter()
        .map(|t| {
            let flag = Rc::new(RefCell::new(false));
            let f2 = flag.clone();
            let w = t.clone().wait();
            rt.spawn(async move {
                w.await;
                *f2.borrow_mut() = true;
            })
            .detach();
            flag
        })
        .collect();
    run_settle(&rt, 2);

    let log = verif::take();

    // result classes
    let mut out = vec![0, tasks.len() as u64];
    for t in tasks.iter() {
        let (class, value, pers) = if t.dropped {
            (6, 0, 0)
        } else {
            match &t.seen {
                None => (0, 0, 0),
                Some(Res::Ok { n, bytes, pers }) => {
                    let r = t.r;
                    let valid = match p.kinds[r] {
                        0 | 1 => {
                            *n == CHUNK && bytes.len() == CHUNK && bytes[0] as usize == r + 1 && {
                                let j = bytes[1] as usize | ((bytes[2] as usize) << 8);
                                j < written[r] && bytes[..] == chunk(r, j)[..] && claimed[r].insert(j)
                            }
                        }
                        2 => {
                            let k = claimed[r].len();
                            bytes == &[1u8] && claimed[r].insert(k)
                        }
                        _ => true,
                    };
                    (if valid { 1 } else { 7 }, 0, *pers)
                }
                Some(Res::Errno { e, pers }) if *e == ECANCELED => (2, 0, *pers),
                Some(Res::Errno { e, pers }) => (5, *e, *pers),
                Some(Res::Elapsed) => (3, 0, 0),
                Some(Res::Cancelled) => (4, 0, 0),
            }
        };
        out.extend([t.fin_run, class, value, pers]);
    }
    // map personality numbers back to their indices (1-based; 0 = none reached the result)
    for i in 0..tasks.len() {
        let v = out[2 + 4 * i + 3];
        out[2 + 4 * i + 3] = if v == 0 {
            0
        } else {
            pers.iter().position(|&x| x as u64 == v).map(|k| k as u64 + 1).unwrap_or(99)
        };
    }

    // what is left in the resources: chunks nobody consumed
    out.push(resources.len() as u64);
    for (r, res) in resources.iter_mut().enumerate() {
        let left: u64 = match res {
            Resource::Sock { op_side, .. } | Resource::PollSock { op_side, .. } | Resource::Pipe { op_side, .. } => {
                let fd = op_side.as_raw_fd();
                let mut n: libc::c_int = 0;
                unsafe { libc::ioctl(fd, libc::FIONREAD, &mut n) };
                let n = n.max(0) as usize;
                let mut buf = vec![0u8; n];
                let got = if n > 0 { unsafe { libc::read(fd, buf.as_mut_ptr() as *mut _, n) } } else { 0 };
                if got < 0 || got as usize != n || n % CHUNK != 0 {
                    9999
                } else {
                    // unconsumed chunks are genuine and nobody else got them
                    let mut bad = false;
                    for c in buf.chunks(CHUNK) {
                        let j = c[1] as usize | ((c[2] as usize) << 8);
                        if j >= written[r] || c != &chunk(r, j)[..] || !claimed[r].insert(j) {
                            bad = true;
                        }
                    }
                    if bad { 9998 } else { (n / CHUNK) as u64 }
                }
            }
            Resource::Listener { op_side, .. } => {
                let fd = op_side.as_raw_fd();
                let mut k = 0u64;
                loop {
                    let mut pfd = libc::pollfd { fd, events: libc::POLLIN, revents: 0 };
                    let rc = unsafe { libc::poll(&mut pfd, 1, 0) };
                    if rc <= 0 || pfd.revents & libc::POLLIN == 0 {
                        break;
                    }
                    let s = unsafe { libc::accept(fd, std::ptr::null_mut(), std::ptr::null_mut()) };
                    if s < 0 {
                        break;
                    }
                    unsafe { libc::close(s) };
                    k += 1;
                }
                k
            }
            Resource::BlackHole { .. } => 0,
        };
        out.push(left);
    }
    for res in resources.iter() {
        if let Resource::Listener { path, .. } = res {
            let _ = std::fs::remove_file(path);
        }
    }

    // the hook history: driver cancels issued per operation, storage released
    let mut owner: HashMap<u64, usize> = HashMap::new();
    let mut cur: Option<usize> = None;
    let mut dc = vec![0u64; tasks.len()];
    let mut created = vec![false; tasks.len()];
    let mut freed = vec![0u64; tasks.len()];
    for e in &log {
        match e.kind {
            U_MARK => cur = Some(e.a as usize),
            U_MARK_END => cur = None,
            verif::KEY_NEW => {
                if let Some(i) = cur {
                    if !created[i] {
                        created[i] = true;
                        owner.insert(e.a, i);
                    }
                }
            }
            verif::KEY_FREE => {
                if let Some(i) = owner.remove(&e.a) {
                    freed[i] = 1;
                }
            }
            verif::CANCEL_PUSH | verif::POLL_CANCEL => {
                if let Some(&i) = owner.get(&e.a) {
                    dc[i] += 1;
                }
            }
            _ => {}
        }
    }
    for i in 0..tasks.len() {
        out.extend([dc[i], freed[i] + if created[i] { 0 } else { 2 }]);
    }
    out.push(tokens.len() as u64);
    for (t, w) in tokens.iter().zip(waited.iter()) {
        out.extend([t.is_cancelled() as u64, *w.borrow() as u64]);
    }
    drop(tasks);
    drop(tokens);
    drop(rt);
    out
}

fn run(case: &[u64]) -> Result<Vec<u64>, BadCase> {
    let p = decode(case)?;
    let (tx, rx) = mpsc::channel();
    std::thread::spawn(move || {
        let r = std::panic::catch_unwind(std::panic::AssertUnwindSafe(move || exec(p)));
        let _ = tx.send(r);
    });
    match rx.recv_timeout(Duration::from_secs(20)) {
        Ok(Ok(out)) => Ok(out),
        Ok(Err(pl)) => {
            let msg = if let Some(s) = pl.downcast_ref::<&str>() {
                s.to_string()
            } else if let Some(s) = pl.downcast_ref::<String>() {
                s.clone()
            } else {
                String::new()
            };
            Ok(vec![2, panic_code(&msg)])
        }
        // the program never came back: something hangs
        Err(_) => Ok(vec![2, 8]),
    }
}

fn main() {
    main_loop(run);
}
