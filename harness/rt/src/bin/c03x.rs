//! scratch repro: full-queue path of Remote::schedule (to be folded into c03.rs)
use std::{
    future::Future,
    pin::Pin,
    sync::{
        Arc, Mutex,
        atomic::{AtomicBool, AtomicU64, Ordering::SeqCst},
        mpsc,
    },
    task::{Context, Poll, Waker},
    time::{Duration, Instant},
};

use compio_driver::{DriverType, ProactorBuilder};
use compio_executor::verif as xv;
use compio_runtime::RuntimeBuilder;

struct Probe {
    polls: AtomicU64,
    done: AtomicBool,
    waker: Mutex<Option<Waker>>,
}

struct ProbeFut(Arc<Probe>);

impl Future for ProbeFut {
    type Output = ();

    fn poll(self: Pin<&mut Self>, cx: &mut Context<'_>) -> Poll<()> {
        self.0.polls.fetch_add(1, SeqCst);
        if self.0.done.load(SeqCst) {
            return Poll::Ready(());
        }
        *self.0.waker.lock().unwrap() = Some(cx.waker().clone());
        Poll::Pending
    }
}

fn main() {
    for ty in [DriverType::IoUring, DriverType::Poll] {
        let mut pb = ProactorBuilder::new();
        pb.driver_type(ty);
        let mut rb = RuntimeBuilder::new();
        rb.with_proactor(pb).sync_queue_size(1);
        let rt = rb.build().unwrap();
        let a = Arc::new(Probe { polls: 0.into(), done: false.into(), waker: Mutex::new(None) });
        let b = Arc::new(Probe { polls: 0.into(), done: false.into(), waker: Mutex::new(None) });
        let main_polls = Arc::new(AtomicU64::new(0));
        let (go_tx, go_rx) = mpsc::channel::<()>();
        let parked = Arc::new(AtomicBool::new(false));
        let finish = Arc::new(AtomicBool::new(false));
        let drv_waker = rt.waker();

        let ctl = {
            let (a, b, main_polls, parked, finish) =
                (a.clone(), b.clone(), main_polls.clone(), parked.clone(), finish.clone());
            std::thread::spawn(move || {
                while !parked.load(SeqCst) {
                    std::thread::yield_now();
                }
                let wa = a.waker.lock().unwrap().clone().unwrap();
                let wb = b.waker.lock().unwrap().clone().unwrap();
                wa.wake(); // queue 1/1
                xv::block(xv::REMOTE_SPIN_RETRY, true);
                let before = xv::arrived(xv::REMOTE_SPIN_RETRY);
                let w2 = std::thread::spawn(move || wb.wake());
                while xv::arrived(xv::REMOTE_SPIN_RETRY) == before {
                    std::thread::yield_now();
                }
                let b_before = b.polls.load(SeqCst);
                go_tx.send(()).unwrap();
                // let the runtime drain, run A, and go to sleep
                let t0 = Instant::now();
                while main_polls.load(SeqCst) < 4 && t0.elapsed() < Duration::from_millis(500) {
                    std::thread::sleep(Duration::from_millis(5));
                }
                std::thread::sleep(Duration::from_millis(100));
                xv::block(xv::REMOTE_SPIN_RETRY, false);
                w2.join().unwrap();
                // all wake() calls returned: B must be polled again
                let t1 = Instant::now();
                let mut ok = false;
                while t1.elapsed() < Duration::from_millis(1500) {
                    if b.polls.load(SeqCst) > b_before {
                        ok = true;
                        break;
                    }
                    std::thread::sleep(Duration::from_millis(5));
                }
                println!(
                    "{:?}: B polled again after its wake() returned: {} ({} ms, main polls {})",
                    ty,
                    ok,
                    t1.elapsed().as_millis(),
                    main_polls.load(SeqCst)
                );
                a.done.store(true, SeqCst);
                b.done.store(true, SeqCst);
                finish.store(true, SeqCst);
                drv_waker.wake();
            })
        };

        let (a2, b2) = (a.clone(), b.clone());
        rt.block_on(async move {
            let ha = compio_runtime::spawn(ProbeFut(a2));
            let hb = compio_runtime::spawn(ProbeFut(b2));
            let mut n = 0u64;
            std::future::poll_fn(|cx| {
                n += 1;
                main_polls.store(n, SeqCst);
                if n == 1 {
                    cx.waker().wake_by_ref();
                    return Poll::Pending;
                }
                if n == 2 {
                    parked.store(true, SeqCst);
                    go_rx.recv().unwrap();
                    return Poll::Pending;
                }
                if finish.load(SeqCst) { Poll::Ready(()) } else { Poll::Pending }
            })
            .await;
            // the tasks were told to finish; wake them locally
            if let Some(w) = a.waker.lock().unwrap().take() { w.wake(); }
            if let Some(w) = b.waker.lock().unwrap().take() { w.wake(); }
            let _ = ha.await;
            let _ = hb.await;
        });
        ctl.join().unwrap();
    }
}
