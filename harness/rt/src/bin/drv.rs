//! Driver-family harness (C01, C02, C05): runs a program of Proactor calls on
//! the real compio-driver, with harness-controlled readiness of socket pairs,
//! and prints the recorded hook history (compio_driver::verif) interleaved with
//! the user actions, followed by what every operation returned.
//!
//! case: [driver(0 uring,1 poll); sq_cap; n_res; n_steps; (op a b)*]
//! out:  [n_events; (kind key arg)*; n_slots; (slot_kind res status value first_byte contiguous)*]
use std::{
    collections::HashMap,
    io::{Read, Write},
    os::{fd::AsRawFd, unix::net::UnixStream},
    time::Duration,
};

use compio_buf::BufResult;
use compio_driver::{
    DriverType, Key, Proactor, ProactorBuilder, PushEntry, SharedFd,
    op::{AcceptMulti, Asyncify, Recv, RecvFlags, Send, SendFlags, SendZc},
    verif,
};
use verif_harness::*;

type RecvOp = Recv<Vec<u8>, SharedFd<UnixStream>>;
type SendOp = Send<Vec<u8>, SharedFd<UnixStream>>;
type ZcOp = SendZc<Vec<u8>, SharedFd<UnixStream>>;
type AccOp = AcceptMulti<SharedFd<socket2::Socket>>;
type BlockOp = Asyncify<Box<dyn FnOnce() -> BufResult<usize, u64> + std::marker::Send>, u64>;

enum Slot {
    Recv(Option<Key<RecvOp>>),
    Send(Option<Key<SendOp>>),
    Block(Option<Key<BlockOp>>),
    Zc(Option<Key<ZcOp>>),
    Acc(Option<Key<AccOp>>),
}

#[derive(Clone, Default)]
struct SlotRes {
    kind: u64,
    res: u64,
    status: u64, // 0 none, 1 ok, 2 err
    value: u64,
    first: u64,
    contiguous: u64,
    key_id: Option<u64>,
}

const U_POP: u32 = 101;
const U_DROP: u32 = 102;
const U_CANCEL: u32 = 103;
const U_TOKEN: u32 = 104;
const U_PUSH_READY: u32 = 105;
const U_POP_RES: u32 = 106;
const U_POLL: u32 = 107;
const U_PUSH: u32 = 110;
const U_PUSHED: u32 = 111;

struct CountWaker(std::sync::atomic::AtomicUsize, u64);

impl std::task::Wake for CountWaker {
    fn wake(self: std::sync::Arc<Self>) {
        self.wake_by_ref()
    }
    fn wake_by_ref(self: &std::sync::Arc<Self>) {
        verif::emit(U_WAKE, self.1, 0);
        self.0.fetch_add(1, std::sync::atomic::Ordering::SeqCst);
    }
}

const U_SETWAKER: u32 = 108;
const U_WAKE: u32 = 109;

fn errno_of(e: &std::io::Error) -> u64 {
    e.raw_os_error().unwrap_or(9999) as u64
}

fn record_recv(sr: &mut SlotRes, r: BufResult<usize, RecvOp>) {
    let BufResult(res, op) = r;
    match res {
        Ok(n) => {
            use compio_buf::IntoInner;
            let buf = op.into_inner();
            sr.status = 1;
            sr.value = n as u64;
            // the driver-level op does not set the length; the bytes are in the allocation
            let p = buf.as_ptr();
            let bytes: Vec<u8> = (0..n).map(|i| unsafe { *p.add(i) }).collect();
            sr.first = bytes.first().copied().unwrap_or(0) as u64;
            sr.contiguous = bytes
                .windows(2)
                .all(|w| w[1] == ((w[0] as u16 + 1) % 251) as u8) as u64;
        }
        Err(e) => {
            sr.status = 2;
            sr.value = errno_of(&e);
        }
    }
}

fn record_plain(sr: &mut SlotRes, res: std::io::Result<usize>) {
    match res {
        Ok(n) => {
            sr.status = 1;
            sr.value = n as u64;
        }
        Err(e) => {
            sr.status = 2;
            sr.value = errno_of(&e);
        }
    }
}

fn run(case: &[u64]) -> Result<Vec<u64>, BadCase> {
    let mut c = Case::new(case);
    let drv = c.take()?;
    let cap = c.take()? as u32;
    let n_res = c.take()? as usize;
    let n_steps = c.take()? as usize;
    let mut steps = Vec::new();
    for _ in 0..n_steps {
        steps.push((c.take()?, c.take()?, c.take()?));
    }
    if n_res > 8 || cap == 0 {
        return Err(BadCase);
    }

    let mut builder = ProactorBuilder::new();
    builder.capacity(cap).driver_type(if drv == 0 {
        DriverType::IoUring
    } else {
        DriverType::Poll
    });
    builder.thread_pool_limit(4);
    let mut pairs = Vec::new();
    let mut dups: Vec<SharedFd<UnixStream>> = Vec::new();
    for _ in 0..n_res {
        let (a, b) = UnixStream::pair().map_err(|_| BadCase)?;
        a.set_nonblocking(true).ok();
        b.set_nonblocking(true).ok();
        let dup = a.try_clone().map_err(|_| BadCase)?;
        dup.set_nonblocking(true).ok();
        dups.push(SharedFd::new(dup));
        pairs.push((SharedFd::new(a), b, 0u16 /* next byte to write */));
    }

    verif::start();
    let main_thread = {
        verif::emit(U_PUSH, u64::MAX, 0);
        0u64
    };
    let _ = main_thread;
    let jobs_done = std::sync::Arc::new(std::sync::atomic::AtomicUsize::new(0));
    let mut jobs_started = 0usize;
    let mut proactor = Some(builder.build().map_err(|_| BadCase)?);
    let mut slots: Vec<Slot> = Vec::new();
    let wake_counts: Vec<std::sync::Arc<CountWaker>> =
        (0..16).map(|i| std::sync::Arc::new(CountWaker(Default::default(), i))).collect();
    let mut listener: Option<SharedFd<socket2::Socket>> = None;
    let mut listen_addr: Option<std::net::SocketAddr> = None;
    let mut clients: Vec<std::net::TcpStream> = Vec::new();
    let mut results: Vec<SlotRes> = Vec::new();
    // (log position marker id, slot) pairs: U_PUSH markers carry the slot number
    for (op, a, b) in steps {
        let Some(p) = proactor.as_mut() else {
            // after the driver is gone only handle drops make sense
            if op == 7 {
                let i = a as usize;
                if i < slots.len() {
                    verif::emit(U_DROP, i as u64 + (1 << 32), 0);
                    match &mut slots[i] {
                        Slot::Recv(k) => drop(k.take()),
                        Slot::Send(k) => drop(k.take()),
                        Slot::Block(k) => drop(k.take()),
                Slot::Zc(k) => drop(k.take()),
                Slot::Acc(k) => drop(k.take()),
                        Slot::Zc(k) => drop(k.take()),
                Slot::Acc(k) => drop(k.take()),
                        Slot::Acc(k) => drop(k.take()),
                    }
                }
            }
            continue;
        };
        match op {
            1 | 2 | 3 | 12 | 14 | 18 => {
                let slot = slots.len() as u64;
                let mut sr = SlotRes {
                    kind: if op == 18 { 1 } else { op },
                    res: a,
                    ..Default::default()
                };
                verif::emit(U_PUSH, slot, 0);
                match op {
                    1 | 18 => {
                        let r = a as usize;
                        if r >= pairs.len() {
                            return Err(BadCase);
                        }
                        let o = Recv::new(
                            if op == 18 { dups[r].clone() } else { pairs[r].0.clone() },
                            Vec::with_capacity((b as usize).max(1)),
                            RecvFlags::empty(),
                        );
                        match p.push(o) {
                            PushEntry::Pending(k) => slots.push(Slot::Recv(Some(k))),
                            PushEntry::Ready(res) => {
                                verif::emit(U_PUSH_READY, slot, 0);
                                record_recv(&mut sr, res);
                                slots.push(Slot::Recv(None));
                            }
                        }
                    }
                    14 => {
                        // multishot accept on the case's listener
                        if listener.is_none() {
                            let l = std::net::TcpListener::bind("127.0.0.1:0").map_err(|_| BadCase)?;
                            l.set_nonblocking(true).ok();
                            listen_addr = l.local_addr().ok();
                            listener = Some(SharedFd::new(socket2::Socket::from(l)));
                        }
                        let o = AcceptMulti::new(listener.as_ref().unwrap().clone());
                        match p.push(o) {
                            PushEntry::Pending(k) => slots.push(Slot::Acc(Some(k))),
                            PushEntry::Ready(BufResult(res, _)) => {
                                verif::emit(U_PUSH_READY, slot, 0);
                                // the accepted socket (if any) is owned by the returned op
                                record_plain(&mut sr, res.map(|_| 1));
                                slots.push(Slot::Acc(None));
                            }
                        }
                    }
                    12 => {
                        let r = a as usize;
                        if r >= pairs.len() {
                            return Err(BadCase);
                        }
                        let data: Vec<u8> = (0..b as usize).map(|i| (i % 251) as u8).collect();
                        let o = SendZc::new(pairs[r].0.clone(), data, SendFlags::empty());
                        match p.push(o) {
                            PushEntry::Pending(k) => slots.push(Slot::Zc(Some(k))),
                            PushEntry::Ready(BufResult(res, _)) => {
                                verif::emit(U_PUSH_READY, slot, 0);
                                record_plain(&mut sr, res);
                                slots.push(Slot::Zc(None));
                            }
                        }
                    }
                    2 => {
                        let r = a as usize;
                        if r >= pairs.len() {
                            return Err(BadCase);
                        }
                        let data: Vec<u8> = (0..b as usize).map(|i| (i % 251) as u8).collect();
                        let o = Send::new(pairs[r].0.clone(), data, SendFlags::empty());
                        match p.push(o) {
                            PushEntry::Pending(k) => slots.push(Slot::Send(Some(k))),
                            PushEntry::Ready(BufResult(res, _)) => {
                                verif::emit(U_PUSH_READY, slot, 0);
                                record_plain(&mut sr, res);
                                slots.push(Slot::Send(None));
                            }
                        }
                    }
                    _ => {
                        let ms = a;
                        let done = jobs_done.clone();
                        jobs_started += 1;
                        let f: Box<dyn FnOnce() -> BufResult<usize, u64> + std::marker::Send> =
                            Box::new(move || {
                                std::thread::sleep(Duration::from_millis(ms));
                                done.fetch_add(1, std::sync::atomic::Ordering::SeqCst);
                                BufResult(Ok(7), 42)
                            });
                        let o: BlockOp = Asyncify::new(f);
                        match p.push(o) {
                            PushEntry::Pending(k) => slots.push(Slot::Block(Some(k))),
                            PushEntry::Ready(BufResult(res, _)) => {
                                verif::emit(U_PUSH_READY, slot, 0);
                                record_plain(&mut sr, res);
                                slots.push(Slot::Block(None));
                            }
                        }
                    }
                }
                verif::emit(U_PUSHED, slot, 0);
                results.push(sr);
            }
            4 => {
                // make `b` bytes readable on resource `a`
                let r = a as usize;
                if r >= pairs.len() {
                    return Err(BadCase);
                }
                let mut data = Vec::new();
                for _ in 0..b {
                    data.push((pairs[r].2 % 251) as u8);
                    pairs[r].2 = (pairs[r].2 + 1) % 251;
                }
                let _ = (&pairs[r].1).write(&data);
            }
            5 => {
                verif::emit(U_POLL, 0, a as i64);
                let _ = p.poll(Some(Duration::from_millis(a)));
                verif::emit(U_POLL, 1, a as i64);
            }
            6 => {
                let i = a as usize;
                if i >= slots.len() {
                    continue;
                }
                match &mut slots[i] {
                    Slot::Recv(k) => {
                        if let Some(key) = k.take() {
                            verif::emit(U_POP, i as u64 + (1 << 32), 2);
                            match p.pop(key) {
                                PushEntry::Pending(key) => {
                                    verif::emit(U_POP_RES, i as u64 + (1 << 32), 0);
                                    *k = Some(key)
                                }
                                PushEntry::Ready(res) => {
                                    verif::emit(U_POP_RES, i as u64 + (1 << 32), 1);
                                    record_recv(&mut results[i], res)
                                }
                            }
                        }
                    }
                    Slot::Send(k) => {
                        if let Some(key) = k.take() {
                            verif::emit(U_POP, i as u64 + (1 << 32), 2);
                            match p.pop(key) {
                                PushEntry::Pending(key) => {
                                    verif::emit(U_POP_RES, i as u64 + (1 << 32), 0);
                                    *k = Some(key)
                                }
                                PushEntry::Ready(BufResult(res, _)) => {
                                    verif::emit(U_POP_RES, i as u64 + (1 << 32), 1);
                                    record_plain(&mut results[i], res)
                                }
                            }
                        }
                    }
                    Slot::Block(k) => {
                        if let Some(key) = k.take() {
                            verif::emit(U_POP, i as u64 + (1 << 32), 2);
                            match p.pop(key) {
                                PushEntry::Pending(key) => {
                                    verif::emit(U_POP_RES, i as u64 + (1 << 32), 0);
                                    *k = Some(key)
                                }
                                PushEntry::Ready(BufResult(res, _)) => {
                                    verif::emit(U_POP_RES, i as u64 + (1 << 32), 1);
                                    record_plain(&mut results[i], res)
                                }
                            }
                        }
                    }
                    Slot::Zc(k) => {
                        if let Some(key) = k.take() {
                            verif::emit(U_POP, i as u64 + (1 << 32), 2);
                            match p.pop(key) {
                                PushEntry::Pending(key) => {
                                    verif::emit(U_POP_RES, i as u64 + (1 << 32), 0);
                                    *k = Some(key)
                                }
                                PushEntry::Ready(BufResult(res, _)) => {
                                    verif::emit(U_POP_RES, i as u64 + (1 << 32), 1);
                                    record_plain(&mut results[i], res)
                                }
                            }
                        }
                    }
                    Slot::Acc(k) => {
                        if let Some(key) = k.take() {
                            verif::emit(U_POP, i as u64 + (1 << 32), 2);
                            match p.pop(key) {
                                PushEntry::Pending(key) => {
                                    verif::emit(U_POP_RES, i as u64 + (1 << 32), 0);
                                    *k = Some(key)
                                }
                                PushEntry::Ready(BufResult(res, _)) => {
                                    verif::emit(U_POP_RES, i as u64 + (1 << 32), 1);
                                    record_plain(&mut results[i], res.map(|_| 1))
                                }
                            }
                        }
                    }
                }
            }
            7 => {
                let i = a as usize;
                if i >= slots.len() {
                    continue;
                }
                let had = match &slots[i] {
                    Slot::Recv(k) => k.is_some(),
                    Slot::Send(k) => k.is_some(),
                    Slot::Block(k) => k.is_some(),
            Slot::Zc(k) => k.is_some(),
            Slot::Acc(k) => k.is_some(),
                    Slot::Zc(k) => k.is_some(),
            Slot::Acc(k) => k.is_some(),
                    Slot::Acc(k) => k.is_some(),
                };
                if had {
                    verif::emit(U_DROP, i as u64 + (1 << 32), 0);
                    match &mut slots[i] {
                        Slot::Recv(k) => drop(k.take()),
                        Slot::Send(k) => drop(k.take()),
                        Slot::Block(k) => drop(k.take()),
                Slot::Zc(k) => drop(k.take()),
                Slot::Acc(k) => drop(k.take()),
                        Slot::Zc(k) => drop(k.take()),
                Slot::Acc(k) => drop(k.take()),
                        Slot::Acc(k) => drop(k.take()),
                    }
                }
            }
            8 => {
                let i = a as usize;
                if i >= slots.len() {
                    continue;
                }
                match &mut slots[i] {
                    Slot::Recv(k) => {
                        if let Some(key) = k.take() {
                            verif::emit(U_CANCEL, i as u64 + (1 << 32), 0);
                            if let Some(res) = p.cancel(key) {
                                record_recv(&mut results[i], res);
                            }
                        }
                    }
                    Slot::Send(k) => {
                        if let Some(key) = k.take() {
                            verif::emit(U_CANCEL, i as u64 + (1 << 32), 0);
                            if let Some(BufResult(res, _)) = p.cancel(key) {
                                record_plain(&mut results[i], res);
                            }
                        }
                    }
                    Slot::Block(k) => {
                        if let Some(key) = k.take() {
                            verif::emit(U_CANCEL, i as u64 + (1 << 32), 0);
                            if let Some(BufResult(res, _)) = p.cancel(key) {
                                record_plain(&mut results[i], res);
                            }
                        }
                    }
                    Slot::Zc(k) => {
                        if let Some(key) = k.take() {
                            verif::emit(U_CANCEL, i as u64 + (1 << 32), 0);
                            if let Some(BufResult(res, _)) = p.cancel(key) {
                                record_plain(&mut results[i], res);
                            }
                        }
                    }
                    Slot::Acc(k) => {
                        if let Some(key) = k.take() {
                            verif::emit(U_CANCEL, i as u64 + (1 << 32), 0);
                            if let Some(BufResult(res, _)) = p.cancel(key) {
                                record_plain(&mut results[i], res.map(|_| 1));
                            }
                        }
                    }
                }
            }
            9 => {
                let i = a as usize;
                if i >= slots.len() {
                    continue;
                }
                macro_rules! tok {
                    ($k:expr) => {
                        if let Some(key) = $k.as_ref() {
                            verif::emit(U_TOKEN, i as u64 + (1 << 32), 0);
                            let t = p.register_cancel(key);
                            let _ = p.cancel_token(t);
                        }
                    };
                }
                match &slots[i] {
                    Slot::Recv(k) => tok!(k),
                    Slot::Send(k) => tok!(k),
                    Slot::Block(k) => tok!(k),
                    Slot::Zc(k) => tok!(k),
                    Slot::Acc(k) => tok!(k),
                }
            }
            10 => {
                if a == 1 {
                    for i in 0..slots.len() {
                        let had = match &slots[i] {
                            Slot::Recv(k) => k.is_some(),
                            Slot::Send(k) => k.is_some(),
                            Slot::Block(k) => k.is_some(),
            Slot::Zc(k) => k.is_some(),
            Slot::Acc(k) => k.is_some(),
                            Slot::Zc(k) => k.is_some(),
            Slot::Acc(k) => k.is_some(),
                            Slot::Acc(k) => k.is_some(),
                    Slot::Acc(k) => k.is_some(),
                    Slot::Zc(k) => k.is_some(),
            Slot::Acc(k) => k.is_some(),
                    Slot::Acc(k) => k.is_some(),
                        };
                        if had {
                            verif::emit(U_DROP, i as u64 + (1 << 32), 0);
                            match &mut slots[i] {
                                Slot::Recv(k) => drop(k.take()),
                                Slot::Send(k) => drop(k.take()),
                                Slot::Block(k) => drop(k.take()),
                Slot::Zc(k) => drop(k.take()),
                Slot::Acc(k) => drop(k.take()),
                            Slot::Zc(k) => drop(k.take()),
                Slot::Acc(k) => drop(k.take()),
                            Slot::Acc(k) => drop(k.take()),
                        Slot::Acc(k) => drop(k.take()),
                        Slot::Zc(k) => drop(k.take()),
                Slot::Acc(k) => drop(k.take()),
                        Slot::Acc(k) => drop(k.take()),
                            }
                        }
                    }
                }
                drop(proactor.take());
            }
            16 => {
                // a wake-up of the driver (as a task waker / another thread would do)
                p.waker().wake();
            }
            17 => {
                // (re)register waker `b` for the operation in slot `a`
                let i = a as usize;
                let w = std::task::Waker::from(wake_counts[(b % 16) as usize].clone());
                macro_rules! setw {
                    ($k:expr) => {
                        if let Some(key) = $k.as_ref() {
                            verif::emit(U_SETWAKER, i as u64 + (1 << 32), (b % 16) as i64);
                            p.update_waker(key, &w);
                        }
                    };
                }
                match slots.get(i) {
                    Some(Slot::Recv(k)) => setw!(k),
                    Some(Slot::Send(k)) => setw!(k),
                    Some(Slot::Block(k)) => setw!(k),
                    Some(Slot::Zc(k)) => setw!(k),
                    Some(Slot::Acc(k)) => setw!(k),
                    None => {}
                }
            }
            15 => {
                // `a` clients connect to the listener
                if let Some(addr) = listen_addr {
                    for _ in 0..a.min(4) {
                        if let Ok(c) = std::net::TcpStream::connect(addr) {
                            clients.push(c);
                        }
                    }
                }
            }
            13 => {
                // zero-copy send: the byte count is available before the buffer is
                let i = a as usize;
                if let Some(Slot::Acc(Some(key))) = slots.get(i) {
                    while let Some(BufResult(res, _)) = p.pop_multishot(key) {
                        if let Ok(fd) = res {
                            unsafe { libc::close(fd as i32) };
                            results[i].first += 1;
                        }
                    }
                }
                if let Some(Slot::Zc(Some(key))) = slots.get(i) {
                    if let Some(BufResult(res, _)) = p.pop_multishot(key) {
                        results[i].first = match res {
                            Ok(n) => n as u64 + 1,
                            Err(e) => 1_000_000 + errno_of(&e),
                        };
                    }
                }
            }
            11 => {
                let r = a as usize;
                if r >= pairs.len() {
                    return Err(BadCase);
                }
                let mut buf = vec![0u8; b as usize];
                let _ = (&pairs[r].1).read(&mut buf);
            }
            _ => return Err(BadCase),
        }
    }
    // epilogue: everything is let go, handles first, then the driver
    for i in 0..slots.len() {
        let had = match &slots[i] {
            Slot::Recv(k) => k.is_some(),
            Slot::Send(k) => k.is_some(),
            Slot::Block(k) => k.is_some(),
            Slot::Zc(k) => k.is_some(),
            Slot::Acc(k) => k.is_some(),
        };
        if had {
            verif::emit(U_DROP, i as u64 + (1 << 32), 0);
            match &mut slots[i] {
                Slot::Recv(k) => drop(k.take()),
                Slot::Send(k) => drop(k.take()),
                Slot::Block(k) => drop(k.take()),
                Slot::Zc(k) => drop(k.take()),
                Slot::Acc(k) => drop(k.take()),
            }
        }
    }
    // let every blocking job finish (and its pool thread log BLOCKING_END) before
    // the driver goes away and before the next case starts recording
    let t0 = std::time::Instant::now();
    while jobs_done.load(std::sync::atomic::Ordering::SeqCst) < jobs_started
        && t0.elapsed() < Duration::from_secs(5)
    {
        std::thread::sleep(Duration::from_millis(1));
    }
    if jobs_started > 0 {
        std::thread::sleep(Duration::from_millis(5));
    }
    if let Some(mut p) = proactor.take() {
        let _ = p.poll(Some(Duration::ZERO));
        drop(p);
    }
    // the last ref of a thread-pool job is dropped by its pool thread some time after
    // BLOCKING_END: give it time to report the release (a leak is reported after the wait)
    let t0 = std::time::Instant::now();
    while verif::count(verif::KEY_FREE) < verif::count(verif::KEY_NEW)
        && t0.elapsed() < Duration::from_millis(500)
    {
        std::thread::sleep(Duration::from_millis(1));
    }
    let log = verif::take();

    // ---- encode: renumber storage addresses by order of KEY_NEW, map slots to keys
    let mut ids: HashMap<u64, u64> = HashMap::new();
    let mut slot_key: HashMap<u64, u64> = HashMap::new();
    let mut cur_push: Option<u64> = None;
    let mut pending_ready: Vec<u64> = Vec::new(); // keys whose push returned Ready
    let mut evs: Vec<(u64, u64, u64)> = Vec::new();
    // first pass: key ids and slot -> key
    let mut next = 0u64;
    for e in &log {
        match e.kind {
            verif::KEY_NEW => {
                ids.insert(e.a, next);
                if let Some(s) = cur_push {
                    slot_key.entry(s).or_insert(next);
                }
                next += 1;
            }
            U_PUSH if e.a != u64::MAX => cur_push = Some(e.a),
            U_PUSHED => cur_push = None,
            verif::KEY_FREE => {
                // an address may be reused by a later allocation: forget it once freed
            }
            _ => {}
        }
    }
    // second pass with address reuse handled: walk again, tracking live addresses
    let mut live: HashMap<u64, u64> = HashMap::new();
    let mut next = 0u64;
    let main_tid = log.iter().find(|e| e.kind == U_PUSH && e.a == u64::MAX).map_or(0, |e| e.thread);
    for e in &log {
        let k = e.kind;
        if k == U_PUSH && e.a == u64::MAX {
            continue;
        }
        if k == verif::KEY_NEW {
            live.insert(e.a, next);
            evs.push((1, next, 0));
            next += 1;
            continue;
        }
        if k >= 100 {
            if k == U_PUSH || k == U_PUSHED {
                continue;
            }
            if k == U_POLL || k == U_WAKE {
                // poll boundaries: a = 0 begin / 1 end, not tied to an operation;
                // waker invocations: a = waker id
                evs.push((k as u64, e.a, e.b as u64));
                continue;
            }
            let slot = e.a & 0xffff_ffff;
            let Some(&key) = slot_key.get(&slot) else { continue };
            if k == U_PUSH_READY {
                pending_ready.push(key);
                continue;
            }
            if k == U_POP_RES {
                // patch the outcome into the U_POP marker emitted before the call
                if let Some(m) = evs.iter_mut().rev().find(|m| m.0 == U_POP as u64 && m.1 == key && m.2 == 2) {
                    m.2 = e.b as u64;
                }
                continue;
            }
            evs.push((k as u64, key, e.b as u64));
            continue;
        }
        if (41..=46).contains(&k) {
            // polling-driver queue events: key field = id + 1 (0 = none), arg = fd | flags << 32
            let key = if e.a == 0 {
                0
            } else if let Some(k) = live.get(&e.a) {
                *k + 1
            } else {
                9_999_999
            };
            evs.push((k as u64, key, e.b as u64));
            continue;
        }
        if k >= 20 && k != verif::POOL_BUF {
            continue; // wake/enter events: not part of the key model
        }
        let key = if e.a == 0 {
            0
        } else if let Some(k) = live.get(&e.a) {
            *k
        } else if e.thread != main_tid {
            continue; // a straggling pool thread of an earlier case
        } else {
            9_999_999
        };
        let arg = if e.b < 0 { (-e.b) as u64 + 1_000_000 } else { e.b as u64 };
        evs.push((k as u64, key, arg));
        if k == verif::KEY_FREE {
            live.remove(&e.a);
        }
    }
    // a push that returned Ready took the result inside push: place the user
    // event right after that key's SET_RESULT
    for key in pending_ready {
        if let Some(pos) = evs.iter().position(|&(k, kk, _)| k == 6 && kk == key) {
            evs.insert(pos + 1, (U_PUSH_READY as u64, key, 0));
        }
    }
    for (i, r) in results.iter_mut().enumerate() {
        r.key_id = slot_key.get(&(i as u64)).copied();
    }

    let mut out = vec![evs.len() as u64];
    for (k, key, arg) in evs {
        out.extend_from_slice(&[k, key, arg]);
    }
    out.push(results.len() as u64);
    for r in &results {
        out.extend_from_slice(&[
            r.kind,
            r.res,
            r.status,
            r.value,
            r.first,
            r.contiguous,
            r.key_id.map_or(9_999_999, |k| k),
        ]);
    }
    out.push(16);
    for w in &wake_counts {
        out.push(w.0.load(std::sync::atomic::Ordering::SeqCst) as u64);
    }
    Ok(out)
}

fn main() {
    main_loop(run);
}
