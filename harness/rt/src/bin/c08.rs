//! C08 correspondence harness: file and pipe I/O matches the OS, identically on
//! every driver.  Case format and result tokens: see coq/model/RunC08.v.
//!
//! Every case (an operation sequence) is executed FOUR ways, each in a fresh
//! directory under std::env::temp_dir() (removed afterwards):
//!   A  compio-fs on the io_uring driver                     (designated run)
//!   B  compio-fs on the polling driver (on Linux: regular-file reads/writes,
//!      sync and every path operation run on the blocking pool; pipes by readiness)
//!   C  compio-fs on the io_uring driver with OpenAt, Close, Statx, Ftruncate,
//!      UnlinkAt, MkDirAt, RenameAt, SymlinkAt, LinkAt, Pipe masked as unsupported
//!      (compio_driver::verif_mask, cfg(compio_verif)): the `call_blocking`
//!      thread-pool fallback of those operations.  Read/Write/Readv/Writev/Fsync
//!      have no fallback (`call_blocking` is unreachable!()), it cannot be forced.
//!   D  std::fs / libc directly (the OS's own synchronous calls)
//! The line printed is A's results (the model's encoding: results of every
//! operation including buffer lengths, then the final tree), then for B, C, D a
//! flag (1 = agreed byte-for-byte) and the 1-based index of the first operation
//! that differed (0 = none; nops+1 = the final tree).  B and C are compared with
//! A token for token; D has no Vec lengths, it is compared on the projection
//! (status, count / error kind, every byte of every buffer, final tree).
use std::{
    io,
    mem::MaybeUninit,
    os::fd::{AsFd, AsRawFd, FromRawFd, OwnedFd},
    os::unix::fs::{OpenOptionsExt, PermissionsExt},
    path::{Path, PathBuf},
    sync::{atomic::{AtomicU64, Ordering}, mpsc},
    time::Duration,
};

use compio_buf::{BufResult, IntoInner, IoBuf, IoBufExt, IoBufMut, IoBufMutExt, SetLen, Slice, Uninit};
use compio_driver::{DriverType, ProactorBuilder};
use compio_io::{AsyncRead, AsyncReadAt, AsyncWrite, AsyncWriteAt};
use compio_runtime::{RuntimeBuilder, fd::AsyncFd};
use verif_harness::*;

const NSLOTS: usize = 4;
const NPIPES: usize = 2;
const NNAMES: u64 = 6;
const PIPE_SOFT: usize = 4096;
// O_APPEND | O_EXCL | O_NOFOLLOW | O_DIRECTORY | __O_TMPFILE
const CUSTOM_ALLOWED: u64 = 4392064;
const WATCHDOG: Duration = Duration::from_secs(8);

// ---------------------------------------------------------------------------
// cases

#[derive(Clone, Debug)]
struct RBuf { shape: u64, len: usize, cap: usize, a: usize, b: usize }
#[derive(Clone, Debug)]
struct WBuf { shape: u64, extra: usize, a: usize, b: usize, data: Vec<u8> }
type RVec = Vec<(usize, usize)>;
type WVec = Vec<(usize, Vec<u8>)>;
type P = Vec<u64>;

#[derive(Clone, Debug)]
enum Op {
    Open { slot: usize, path: P, bits: u64, seq: bool },
    Close { slot: usize },
    ReadAt { slot: usize, off: u64, rb: RBuf },
    WriteAt { slot: usize, off: u64, wb: WBuf },
    ReadvAt { slot: usize, off: u64, rv: RVec },
    WritevAt { slot: usize, off: u64, wv: WVec },
    SetLen { slot: usize, n: u64 },
    Sync { slot: usize, data: bool },
    FMeta { slot: usize },
    PMeta { path: P, follow: bool },
    Mkdir { path: P },
    MkdirAll { path: P },
    RmFile { path: P },
    RmDir { path: P },
    Rename { a: P, b: P },
    Link { a: P, b: P },
    Symlink { a: P, b: P },
    Chmod { path: P, ro: bool },
    SeqRead { slot: usize, rb: RBuf },
    SeqWrite { slot: usize, wb: WBuf },
    SeqReadv { slot: usize, rv: RVec },
    SeqWritev { slot: usize, wv: WVec },
    PipeNew { p: usize },
    PipeWrite { p: usize, wb: WBuf },
    PipeRead { p: usize, rb: RBuf },
    PipeReadv { p: usize, rv: RVec },
    PipeWritev { p: usize, wv: WVec },
    PipeCloseW { p: usize },
    PipeCloseR { p: usize },
    BigRead { slot: usize, off: u64, k: u64 },
    FsWrite { path: P, data: Vec<u8> },
    FsRead { path: P },
    OpenEx { slot: usize, path: P, bits: u64, mode: u32, custom: i32 },
}

fn view_ok(shape: u64, a: usize, b: usize, len: usize) -> Result<(), BadCase> {
    match shape {
        0 | 3 => Ok(()),
        1 if a <= len => Ok(()),
        2 if a <= len && a <= b => Ok(()),
        _ => Err(BadCase),
    }
}

fn dec_path(c: &mut Case) -> Result<P, BadCase> {
    let k = c.take()? as usize;
    if !(1..=3).contains(&k) {
        return Err(BadCase);
    }
    let cs = c.take_n(k)?;
    if cs.iter().any(|&x| x >= NNAMES) {
        return Err(BadCase);
    }
    Ok(cs.to_vec())
}
fn dec_slot(c: &mut Case) -> Result<usize, BadCase> {
    let s = c.take()? as usize;
    if s < NSLOTS { Ok(s) } else { Err(BadCase) }
}
fn dec_pipe(c: &mut Case) -> Result<usize, BadCase> {
    let s = c.take()? as usize;
    if s < NPIPES { Ok(s) } else { Err(BadCase) }
}
fn dec_rbuf(c: &mut Case) -> Result<RBuf, BadCase> {
    let shape = c.take()?;
    let len = c.take()? as usize;
    let cap = c.take()? as usize;
    let a = c.take()? as usize;
    let b = c.take()? as usize;
    if len > cap {
        return Err(BadCase);
    }
    view_ok(shape, a, b, len)?;
    Ok(RBuf { shape, len, cap, a, b })
}
fn dec_wbuf(c: &mut Case) -> Result<WBuf, BadCase> {
    let shape = c.take()?;
    let extra = c.take()? as usize;
    let a = c.take()? as usize;
    let b = c.take()? as usize;
    let data: Vec<u8> = c.bytes()?.iter().map(|&x| x as u8).collect();
    view_ok(shape, a, b, data.len())?;
    Ok(WBuf { shape, extra, a, b, data })
}
fn dec_rvec(c: &mut Case) -> Result<RVec, BadCase> {
    let nm = c.take()? as usize;
    let mut v = Vec::new();
    for _ in 0..nm {
        v.push(c.len_cap()?);
    }
    Ok(v)
}
fn dec_wvec(c: &mut Case) -> Result<WVec, BadCase> {
    let nm = c.take()? as usize;
    let mut v = Vec::new();
    for _ in 0..nm {
        let extra = c.take()? as usize;
        let data: Vec<u8> = c.bytes()?.iter().map(|&x| x as u8).collect();
        v.push((extra, data));
    }
    Ok(v)
}

fn decode(case: &[u64]) -> Result<Vec<Op>, BadCase> {
    let mut c = Case::new(case);
    let n = c.take()? as usize;
    let mut ops = Vec::new();
    for _ in 0..n {
        let t = c.take()?;
        ops.push(match t {
            1 => {
                let slot = dec_slot(&mut c)?;
                let path = dec_path(&mut c)?;
                let bits = c.take()?;
                let seq = c.take()? != 0;
                Op::Open { slot, path, bits, seq }
            }
            2 => Op::Close { slot: dec_slot(&mut c)? },
            3 => { let slot = dec_slot(&mut c)?; let off = c.take()?; Op::ReadAt { slot, off, rb: dec_rbuf(&mut c)? } }
            4 => { let slot = dec_slot(&mut c)?; let off = c.take()?; Op::WriteAt { slot, off, wb: dec_wbuf(&mut c)? } }
            5 => { let slot = dec_slot(&mut c)?; let off = c.take()?; Op::ReadvAt { slot, off, rv: dec_rvec(&mut c)? } }
            6 => { let slot = dec_slot(&mut c)?; let off = c.take()?; Op::WritevAt { slot, off, wv: dec_wvec(&mut c)? } }
            7 => { let slot = dec_slot(&mut c)?; Op::SetLen { slot, n: c.take()? } }
            8 => { let slot = dec_slot(&mut c)?; Op::Sync { slot, data: c.take()? != 0 } }
            9 => Op::FMeta { slot: dec_slot(&mut c)? },
            10 => { let path = dec_path(&mut c)?; Op::PMeta { path, follow: c.take()? != 0 } }
            11 => Op::Mkdir { path: dec_path(&mut c)? },
            12 => Op::MkdirAll { path: dec_path(&mut c)? },
            13 => Op::RmFile { path: dec_path(&mut c)? },
            14 => Op::RmDir { path: dec_path(&mut c)? },
            15 => { let a = dec_path(&mut c)?; Op::Rename { a, b: dec_path(&mut c)? } }
            16 => { let a = dec_path(&mut c)?; Op::Link { a, b: dec_path(&mut c)? } }
            17 => { let a = dec_path(&mut c)?; Op::Symlink { a, b: dec_path(&mut c)? } }
            18 => { let path = dec_path(&mut c)?; Op::Chmod { path, ro: c.take()? != 0 } }
            19 => { let slot = dec_slot(&mut c)?; Op::SeqRead { slot, rb: dec_rbuf(&mut c)? } }
            20 => { let slot = dec_slot(&mut c)?; Op::SeqWrite { slot, wb: dec_wbuf(&mut c)? } }
            21 => { let slot = dec_slot(&mut c)?; Op::SeqReadv { slot, rv: dec_rvec(&mut c)? } }
            22 => { let slot = dec_slot(&mut c)?; Op::SeqWritev { slot, wv: dec_wvec(&mut c)? } }
            23 => Op::PipeNew { p: dec_pipe(&mut c)? },
            24 => { let p = dec_pipe(&mut c)?; Op::PipeWrite { p, wb: dec_wbuf(&mut c)? } }
            25 => { let p = dec_pipe(&mut c)?; Op::PipeRead { p, rb: dec_rbuf(&mut c)? } }
            26 => { let p = dec_pipe(&mut c)?; Op::PipeReadv { p, rv: dec_rvec(&mut c)? } }
            27 => { let p = dec_pipe(&mut c)?; Op::PipeWritev { p, wv: dec_wvec(&mut c)? } }
            28 => Op::PipeCloseW { p: dec_pipe(&mut c)? },
            29 => Op::PipeCloseR { p: dec_pipe(&mut c)? },
            30 => { let slot = dec_slot(&mut c)?; let off = c.take()?; Op::BigRead { slot, off, k: c.take()? } }
            31 => { let path = dec_path(&mut c)?; let data = c.bytes()?.iter().map(|&x| x as u8).collect(); Op::FsWrite { path, data } }
            32 => Op::FsRead { path: dec_path(&mut c)? },
            33 => {
                let slot = dec_slot(&mut c)?;
                let path = dec_path(&mut c)?;
                let bits = c.take()?;
                let mode = c.take()?;
                let custom = c.take()?;
                if mode > 4095 || custom & !CUSTOM_ALLOWED != 0 || bits >= 64 {
                    return Err(BadCase);
                }
                Op::OpenEx { slot, path, bits, mode: mode as u32, custom: custom as i32 }
            }
            _ => return Err(BadCase),
        });
    }
    if c.i != case.len() {
        return Err(BadCase);
    }
    Ok(ops)
}

// ---------------------------------------------------------------------------
// buffers

/// One buffer type for the four shapes; every trait method delegates, so the
/// operation sees exactly what the Vec / Slice<Vec> / Uninit<Vec> reports.
enum AnyBuf {
    V(Vec<u8>),
    S(Slice<Vec<u8>>),
    U(Uninit<Vec<u8>>),
}

impl IoBuf for AnyBuf {
    fn as_init(&self) -> &[u8] {
        match self {
            AnyBuf::V(v) => IoBuf::as_init(v),
            AnyBuf::S(s) => IoBuf::as_init(s),
            AnyBuf::U(u) => IoBuf::as_init(u),
        }
    }
}
impl SetLen for AnyBuf {
    unsafe fn set_len(&mut self, len: usize) {
        unsafe {
            match self {
                AnyBuf::V(v) => SetLen::set_len(v, len),
                AnyBuf::S(s) => SetLen::set_len(s, len),
                AnyBuf::U(u) => SetLen::set_len(u, len),
            }
        }
    }
}
impl IoBufMut for AnyBuf {
    fn as_uninit(&mut self) -> &mut [MaybeUninit<u8>] {
        match self {
            AnyBuf::V(v) => IoBufMut::as_uninit(v),
            AnyBuf::S(s) => IoBufMut::as_uninit(s),
            AnyBuf::U(u) => IoBufMut::as_uninit(u),
        }
    }
}
impl AnyBuf {
    fn root(self) -> Vec<u8> {
        match self {
            AnyBuf::V(v) => v,
            AnyBuf::S(s) => s.into_inner(),
            AnyBuf::U(u) => u.into_inner(),
        }
    }
    fn shaped(v: Vec<u8>, shape: u64, a: usize, b: usize) -> AnyBuf {
        match shape {
            0 => AnyBuf::V(v),
            1 => AnyBuf::S(v.slice(a..)),
            2 => AnyBuf::S(v.slice(a..b)),
            _ => AnyBuf::U(v.uninit()),
        }
    }
}

fn rbuf_vec(rb: &RBuf) -> Vec<u8> {
    canary_vec(rb.len, rb.cap)
}
fn wbuf_vec(data: &[u8], extra: usize) -> Vec<u8> {
    let n = data.len();
    let mut v: Vec<u8> = Vec::with_capacity(n + extra);
    assert_eq!(v.capacity(), n + extra);
    v.extend_from_slice(data);
    for i in n..n + extra {
        v.push(canary(i));
    }
    v.truncate(n);
    v
}
fn mk_rbuf(rb: &RBuf) -> AnyBuf {
    AnyBuf::shaped(rbuf_vec(rb), rb.shape, rb.a, rb.b)
}
fn mk_wbuf(wb: &WBuf) -> AnyBuf {
    AnyBuf::shaped(wbuf_vec(&wb.data, wb.extra), wb.shape, wb.a, wb.b)
}
fn mk_rvec(rv: &RVec) -> Vec<Vec<u8>> {
    rv.iter().map(|&(l, c)| canary_vec(l, c)).collect()
}
fn mk_wvec(wv: &WVec) -> Vec<Vec<u8>> {
    wv.iter().map(|(e, d)| wbuf_vec(d, *e)).collect()
}

/// where the OS is expected to place a read: (offset, length) in the allocation
fn read_window(rb: &RBuf) -> (usize, usize) {
    match rb.shape {
        0 => (0, rb.cap),
        1 => (rb.a, rb.cap - rb.a),
        2 => (rb.a, rb.b.min(rb.cap) - rb.a),
        _ => (rb.len, rb.cap - rb.len),
    }
}
/// the bytes a write is expected to hand to the OS
fn write_window(wb: &WBuf) -> &[u8] {
    let n = wb.data.len();
    match wb.shape {
        0 => &wb.data[..],
        1 => &wb.data[wb.a..],
        2 => &wb.data[wb.a..wb.b.min(n)],
        _ => &wb.data[n..],
    }
}

/// every cell of the allocation (the harness initialised all of them)
fn cells(v: &Vec<u8>) -> Vec<u64> {
    let p = v.as_ptr();
    (0..v.capacity()).map(|i| unsafe { *p.add(i) } as u64).collect()
}

// ---------------------------------------------------------------------------
// results

fn ecode(e: &io::Error) -> u64 {
    use io::ErrorKind::*;
    match e.kind() {
        NotFound => 30,
        AlreadyExists => 31,
        InvalidInput => 32,
        IsADirectory => 33,
        NotADirectory => 34,
        DirectoryNotEmpty => 35,
        k => match code_of(k) {
            99 => e.raw_os_error().map(|c| 1000 + c as u64).unwrap_or(99),
            c => c,
        },
    }
}

#[derive(Default)]
struct Rec {
    full: Vec<Vec<u64>>,
    proj: Vec<Vec<u64>>,
}
impl Rec {
    fn both(&mut self, v: Vec<u64>) {
        self.full.push(v.clone());
        self.proj.push(v);
    }
    fn unit(&mut self, r: io::Result<()>) {
        self.both(match r { Ok(()) => vec![0, 0], Err(e) => vec![1, ecode(&e)] });
    }
    fn count(&mut self, r: io::Result<usize>) {
        self.both(match r { Ok(n) => vec![0, n as u64], Err(e) => vec![1, ecode(&e)] });
    }
    fn skip(&mut self) { self.both(vec![3]); }
    fn block(&mut self) { self.both(vec![4]); }
    /// a read: head, then per buffer the length (full only) and every cell
    fn read(&mut self, r: &io::Result<usize>, bufs: &[&Vec<u8>]) {
        let head = match r { Ok(n) => vec![0, *n as u64], Err(e) => vec![1, ecode(e)] };
        let (mut f, mut p) = (head.clone(), head);
        for b in bufs {
            f.push(b.len() as u64);
            let c = cells(b);
            f.extend(&c);
            p.extend(&c);
        }
        self.full.push(f);
        self.proj.push(p);
    }
    fn meta(&mut self, r: io::Result<(u64, u64, bool)>) {
        self.both(match r {
            Ok((len, kind, ro)) => vec![0, if kind == 0 { len } else { 0 }, kind, ro as u64],
            Err(e) => vec![1, ecode(&e)],
        });
    }
    fn data(&mut self, r: io::Result<Vec<u8>>) {
        self.both(match r {
            Ok(d) => { let mut v = vec![0, d.len() as u64]; v.extend(d.iter().map(|&b| b as u64)); v }
            Err(e) => vec![1, ecode(&e)],
        });
    }
}

fn pjoin(root: &Path, p: &P) -> PathBuf {
    let mut r = root.to_path_buf();
    for c in p {
        r.push(format!("n{c}"));
    }
    r
}

fn rel_comps(root: &Path, p: &Path) -> Vec<u64> {
    match p.strip_prefix(root) {
        Ok(r) => r.components().map(|c| {
            let s = c.as_os_str().to_string_lossy();
            s.strip_prefix('n').and_then(|x| x.parse::<u64>().ok()).unwrap_or(77)
        }).collect(),
        Err(_) => vec![88],
    }
}

fn dump(root: &Path) -> Vec<u64> {
    fn walk(root: &Path, dir: &Path, out: &mut Vec<u64>, count: &mut u64) {
        let mut names: Vec<PathBuf> = match std::fs::read_dir(dir) {
            Ok(rd) => rd.filter_map(|e| e.ok().map(|e| e.path())).collect(),
            Err(_) => return,
        };
        names.sort_by_key(|p| rel_comps(root, p));
        for p in names {
            let Ok(md) = std::fs::symlink_metadata(&p) else { continue };
            *count += 1;
            let comps = rel_comps(root, &p);
            out.push(comps.len() as u64);
            out.extend(&comps);
            if md.file_type().is_symlink() {
                out.push(2);
                let t = std::fs::read_link(&p).unwrap_or_default();
                let tc = rel_comps(root, &t);
                out.push(tc.len() as u64);
                out.extend(&tc);
            } else if md.is_dir() {
                out.push(1);
                walk(root, &p, out, count);
            } else {
                out.push(0);
                out.push((md.permissions().mode() & 0o7777) as u64);
                let d = std::fs::read(&p).unwrap_or_default();
                out.push(d.len() as u64);
                out.extend(d.iter().map(|&b| b as u64));
            }
        }
    }
    let mut out = Vec::new();
    let mut count = 0;
    walk(root, root, &mut out, &mut count);
    let mut v = vec![count];
    v.extend(out);
    v
}

fn kind_of_md(is_file: bool, is_dir: bool) -> u64 {
    if is_file { 0 } else if is_dir { 1 } else { 2 }
}

// ---------------------------------------------------------------------------
// run D: the OS's own synchronous calls (std::fs / libc)

fn cvt(r: isize) -> io::Result<usize> {
    if r < 0 { Err(io::Error::last_os_error()) } else { Ok(r as usize) }
}

struct OsPipe { rx: Option<OwnedFd>, tx: Option<OwnedFd>, inflight: usize }

fn std_opts(bits: u64) -> std::fs::OpenOptions {
    let mut o = std::fs::OpenOptions::new();
    o.read(bits & 1 != 0).write(bits & 2 != 0).truncate(bits & 8 != 0)
        .create(bits & 16 != 0).create_new(bits & 32 != 0);
    if bits & 4 != 0 {
        o.custom_flags(libc::O_APPEND);
    }
    o
}

fn os_read_into(rb: &RBuf, f: impl FnOnce(*mut u8, usize) -> io::Result<usize>) -> (io::Result<usize>, Vec<u8>) {
    let mut v = rbuf_vec(rb);
    let (o, c) = read_window(rb);
    let r = f(unsafe { v.as_mut_ptr().add(o) }, c);
    (r, v)
}

fn os_readv_into(rv: &RVec, f: impl FnOnce(&[libc::iovec]) -> io::Result<usize>) -> (io::Result<usize>, Vec<Vec<u8>>) {
    let mut ms = mk_rvec(rv);
    let iov: Vec<libc::iovec> = ms.iter_mut()
        .map(|m| libc::iovec { iov_base: m.as_mut_ptr().cast(), iov_len: m.capacity() }).collect();
    let r = f(&iov);
    (r, ms)
}

fn iov_of(wv: &WVec) -> Vec<libc::iovec> {
    wv.iter().map(|(_, d)| libc::iovec { iov_base: d.as_ptr() as *mut _, iov_len: d.len() }).collect()
}

fn run_os(ops: &[Op], root: &Path) -> Rec {
    let mut rec = Rec::default();
    let mut slots: Vec<Option<(std::fs::File, bool)>> = (0..NSLOTS).map(|_| None).collect();
    let mut pipes: Vec<Option<OsPipe>> = (0..NPIPES).map(|_| None).collect();
    for op in ops {
        match op {
            Op::Open { slot, path, bits, seq } => {
                slots[*slot] = None;
                match std_opts(*bits).open(pjoin(root, path)) {
                    Ok(f) => { slots[*slot] = Some((f, *seq)); rec.unit(Ok(())) }
                    Err(e) => rec.unit(Err(e)),
                }
            }
            Op::Close { slot } => match slots[*slot].take() {
                Some(_) => rec.unit(Ok(())),
                None => rec.skip(),
            },
            Op::ReadAt { slot, off, rb } => match &slots[*slot] {
                Some((f, false)) => {
                    let fd = f.as_raw_fd();
                    let (r, v) = os_read_into(rb, |p, c| cvt(unsafe { libc::pread(fd, p.cast(), c, *off as i64) }));
                    rec.read(&r, &[&v]);
                }
                _ => rec.skip(),
            },
            Op::WriteAt { slot, off, wb } => match &slots[*slot] {
                Some((f, false)) => {
                    let w = write_window(wb);
                    rec.count(cvt(unsafe { libc::pwrite(f.as_raw_fd(), w.as_ptr().cast(), w.len(), *off as i64) }));
                }
                _ => rec.skip(),
            },
            Op::ReadvAt { slot, off, rv } => match &slots[*slot] {
                Some((f, false)) => {
                    let fd = f.as_raw_fd();
                    let (r, ms) = os_readv_into(rv, |iov| cvt(unsafe { libc::preadv(fd, iov.as_ptr(), iov.len() as i32, *off as i64) }));
                    rec.read(&r, &ms.iter().collect::<Vec<_>>());
                }
                _ => rec.skip(),
            },
            Op::WritevAt { slot, off, wv } => match &slots[*slot] {
                Some((f, false)) => {
                    let iov = iov_of(wv);
                    rec.count(cvt(unsafe { libc::pwritev(f.as_raw_fd(), iov.as_ptr(), iov.len() as i32, *off as i64) }));
                }
                _ => rec.skip(),
            },
            Op::SetLen { slot, n } => match &slots[*slot] {
                Some((f, false)) => rec.unit(f.set_len(*n)),
                _ => rec.skip(),
            },
            Op::Sync { slot, data } => match &slots[*slot] {
                Some((f, false)) => rec.unit(if *data { f.sync_data() } else { f.sync_all() }),
                _ => rec.skip(),
            },
            Op::FMeta { slot } => match &slots[*slot] {
                Some((f, false)) => rec.meta(f.metadata().map(|m| (m.len(), kind_of_md(m.is_file(), m.is_dir()), m.permissions().readonly()))),
                _ => rec.skip(),
            },
            Op::PMeta { path, follow } => {
                let p = pjoin(root, path);
                let r = if *follow { std::fs::metadata(p) } else { std::fs::symlink_metadata(p) };
                rec.meta(r.map(|m| (m.len(), kind_of_md(m.is_file(), m.is_dir()), m.permissions().readonly())));
            }
            Op::Mkdir { path } => rec.unit(std::fs::create_dir(pjoin(root, path))),
            Op::MkdirAll { path } => rec.unit(std::fs::create_dir_all(pjoin(root, path))),
            Op::RmFile { path } => rec.unit(std::fs::remove_file(pjoin(root, path))),
            Op::RmDir { path } => rec.unit(std::fs::remove_dir(pjoin(root, path))),
            Op::Rename { a, b } => rec.unit(std::fs::rename(pjoin(root, a), pjoin(root, b))),
            Op::Link { a, b } => rec.unit(std::fs::hard_link(pjoin(root, a), pjoin(root, b))),
            Op::Symlink { a, b } => rec.unit(std::os::unix::fs::symlink(pjoin(root, a), pjoin(root, b))),
            Op::Chmod { path, ro } => {
                let p = pjoin(root, path);
                match std::fs::metadata(&p) {
                    Ok(m) if m.is_dir() => rec.skip(),
                    Ok(m) => { let mut perm = m.permissions(); perm.set_readonly(*ro); rec.unit(std::fs::set_permissions(&p, perm)) }
                    Err(e) => rec.unit(Err(e)),
                }
            }
            Op::SeqRead { slot, rb } => match &slots[*slot] {
                Some((f, true)) => {
                    let fd = f.as_raw_fd();
                    let (r, v) = os_read_into(rb, |p, c| cvt(unsafe { libc::read(fd, p.cast(), c) }));
                    rec.read(&r, &[&v]);
                }
                _ => rec.skip(),
            },
            Op::SeqWrite { slot, wb } => match &slots[*slot] {
                Some((f, true)) => {
                    let w = write_window(wb);
                    rec.count(cvt(unsafe { libc::write(f.as_raw_fd(), w.as_ptr().cast(), w.len()) }));
                }
                _ => rec.skip(),
            },
            Op::SeqReadv { slot, rv } => match &slots[*slot] {
                Some((f, true)) => {
                    let fd = f.as_raw_fd();
                    let (r, ms) = os_readv_into(rv, |iov| cvt(unsafe { libc::readv(fd, iov.as_ptr(), iov.len() as i32) }));
                    rec.read(&r, &ms.iter().collect::<Vec<_>>());
                }
                _ => rec.skip(),
            },
            Op::SeqWritev { slot, wv } => match &slots[*slot] {
                Some((f, true)) => {
                    let iov = iov_of(wv);
                    rec.count(cvt(unsafe { libc::writev(f.as_raw_fd(), iov.as_ptr(), iov.len() as i32) }));
                }
                _ => rec.skip(),
            },
            Op::PipeNew { p } => {
                let mut fds = [0i32; 2];
                let r = unsafe { libc::pipe2(fds.as_mut_ptr(), libc::O_CLOEXEC) };
                if r == 0 {
                    pipes[*p] = Some(OsPipe {
                        rx: Some(unsafe { OwnedFd::from_raw_fd(fds[0]) }),
                        tx: Some(unsafe { OwnedFd::from_raw_fd(fds[1]) }),
                        inflight: 0,
                    });
                    rec.unit(Ok(()));
                } else {
                    rec.unit(Err(io::Error::last_os_error()));
                }
            }
            Op::PipeWrite { p, wb } => match &mut pipes[*p] {
                Some(pp) if pp.tx.is_some() => {
                    let w = write_window(wb);
                    if pp.inflight + w.len() > PIPE_SOFT { rec.block(); continue; }
                    let r = cvt(unsafe { libc::write(pp.tx.as_ref().unwrap().as_raw_fd(), w.as_ptr().cast(), w.len()) });
                    if let Ok(n) = r { pp.inflight += n; }
                    rec.count(r);
                }
                _ => rec.skip(),
            },
            Op::PipeWritev { p, wv } => match &mut pipes[*p] {
                Some(pp) if pp.tx.is_some() => {
                    let total: usize = wv.iter().map(|(_, d)| d.len()).sum();
                    if pp.inflight + total > PIPE_SOFT { rec.block(); continue; }
                    let iov = iov_of(wv);
                    let r = cvt(unsafe { libc::writev(pp.tx.as_ref().unwrap().as_raw_fd(), iov.as_ptr(), iov.len() as i32) });
                    if let Ok(n) = r { pp.inflight += n; }
                    rec.count(r);
                }
                _ => rec.skip(),
            },
            Op::PipeRead { p, rb } => match &mut pipes[*p] {
                Some(pp) if pp.rx.is_some() => {
                    let (_, c) = read_window(rb);
                    if c > 0 && pp.inflight == 0 && pp.tx.is_some() { rec.block(); continue; }
                    let fd = pp.rx.as_ref().unwrap().as_raw_fd();
                    let (r, v) = os_read_into(rb, |ptr, c| cvt(unsafe { libc::read(fd, ptr.cast(), c) }));
                    if let Ok(n) = r { pp.inflight -= n; }
                    rec.read(&r, &[&v]);
                }
                _ => rec.skip(),
            },
            Op::PipeReadv { p, rv } => match &mut pipes[*p] {
                Some(pp) if pp.rx.is_some() => {
                    let c: usize = rv.iter().map(|x| x.1).sum();
                    if c > 0 && pp.inflight == 0 && pp.tx.is_some() { rec.block(); continue; }
                    let fd = pp.rx.as_ref().unwrap().as_raw_fd();
                    let (r, ms) = os_readv_into(rv, |iov| cvt(unsafe { libc::readv(fd, iov.as_ptr(), iov.len() as i32) }));
                    if let Ok(n) = r { pp.inflight -= n; }
                    rec.read(&r, &ms.iter().collect::<Vec<_>>());
                }
                _ => rec.skip(),
            },
            Op::PipeCloseW { p } => match &mut pipes[*p] {
                Some(pp) if pp.tx.is_some() => { pp.tx = None; rec.unit(Ok(())) }
                _ => rec.skip(),
            },
            Op::PipeCloseR { p } => match &mut pipes[*p] {
                Some(pp) if pp.rx.is_some() => { pp.rx = None; rec.unit(Ok(())) }
                _ => rec.skip(),
            },
            Op::BigRead { slot, off, k } => match &slots[*slot] {
                Some((f, false)) => {
                    let cap = (1usize << 32) + *k as usize;
                    let mut v: Vec<u8> = Vec::with_capacity(cap);
                    let r = cvt(unsafe { libc::pread(f.as_raw_fd(), v.as_mut_ptr().cast(), cap, *off as i64) });
                    rec.data(r.map(|n| { unsafe { v.set_len(n) }; v.clone() }));
                }
                _ => rec.skip(),
            },
            Op::FsWrite { path, data } => rec.unit(std::fs::write(pjoin(root, path), data)),
            Op::FsRead { path } => rec.data(std::fs::read(pjoin(root, path))),
            Op::OpenEx { slot, path, bits, mode, custom } => {
                slots[*slot] = None;
                let mut o = std_opts(*bits);
                let base = if bits & 4 != 0 { libc::O_APPEND } else { 0 };
                o.mode(*mode).custom_flags(base | *custom);
                match o.open(pjoin(root, path)).and_then(|f| f.metadata().map(|m| (f, m))) {
                    Ok((f, m)) => {
                        slots[*slot] = Some((f, false));
                        rec.both(vec![0, (m.permissions().mode() & 0o7777) as u64]);
                    }
                    Err(e) => rec.unit(Err(e)),
                }
            }
        }
    }
    drop(slots);
    drop(pipes);
    rec.both(dump(root));
    rec
}

// ---------------------------------------------------------------------------
// runs A, B, C: compio

enum Slot {
    Pos(compio_fs::File),
    Seq(AsyncFd<std::fs::File>),
}

struct CPipe {
    rx: Option<compio_fs::pipe::Receiver>,
    tx: Option<compio_fs::pipe::Sender>,
    inflight: usize,
}

fn compio_opts(bits: u64) -> compio_fs::OpenOptions {
    let mut o = compio_fs::OpenOptions::new();
    o.read(bits & 1 != 0).write(bits & 2 != 0).truncate(bits & 8 != 0)
        .create(bits & 16 != 0).create_new(bits & 32 != 0);
    if bits & 4 != 0 {
        o.custom_flags(libc::O_APPEND);
    }
    o
}

fn cmeta(m: &compio_fs::Metadata) -> (u64, u64, bool) {
    (m.len(), kind_of_md(m.is_file(), m.is_dir()), m.permissions().readonly())
}

async fn run_compio(ops: &[Op], root: &Path) -> Rec {
    let mut rec = Rec::default();
    let mut slots: Vec<Option<Slot>> = (0..NSLOTS).map(|_| None).collect();
    let mut pipes: Vec<Option<CPipe>> = (0..NPIPES).map(|_| None).collect();
    for op in ops {
        if std::env::var("C08_DEBUG").is_ok() {
            eprintln!("  compio op {:?}", op);
        }
        match op {
            Op::Open { slot, path, bits, seq } => {
                slots[*slot] = None;
                match compio_opts(*bits).open(pjoin(root, path)).await {
                    Ok(f) => {
                        if *seq {
                            // the same open file description, driven through the
                            // sequential (cursor) operations of AsyncFd
                            let r = f.as_fd().try_clone_to_owned()
                                .and_then(|fd| AsyncFd::new(std::fs::File::from(fd)));
                            match r {
                                Ok(a) => { slots[*slot] = Some(Slot::Seq(a)); rec.unit(Ok(())) }
                                Err(e) => rec.unit(Err(e)),
                            }
                        } else {
                            slots[*slot] = Some(Slot::Pos(f));
                            rec.unit(Ok(()));
                        }
                    }
                    Err(e) => rec.unit(Err(e)),
                }
            }
            Op::Close { slot } => match slots[*slot].take() {
                Some(Slot::Pos(f)) => rec.unit(f.close().await),
                Some(Slot::Seq(_)) => rec.unit(Ok(())),
                None => rec.skip(),
            },
            Op::ReadAt { slot, off, rb } => match &slots[*slot] {
                Some(Slot::Pos(f)) => {
                    let BufResult(r, b) = f.read_at(mk_rbuf(rb), *off).await;
                    rec.read(&r, &[&b.root()]);
                }
                _ => rec.skip(),
            },
            Op::WriteAt { slot, off, wb } => match &slots[*slot] {
                Some(Slot::Pos(f)) => {
                    let mut fr: &compio_fs::File = f;
                    let BufResult(r, _) = fr.write_at(mk_wbuf(wb), *off).await;
                    rec.count(r);
                }
                _ => rec.skip(),
            },
            Op::ReadvAt { slot, off, rv } => match &slots[*slot] {
                Some(Slot::Pos(f)) => {
                    let BufResult(r, ms) = f.read_vectored_at(mk_rvec(rv), *off).await;
                    rec.read(&r, &ms.iter().collect::<Vec<_>>());
                }
                _ => rec.skip(),
            },
            Op::WritevAt { slot, off, wv } => match &slots[*slot] {
                Some(Slot::Pos(f)) => {
                    let mut fr: &compio_fs::File = f;
                    let BufResult(r, _) = fr.write_vectored_at(mk_wvec(wv), *off).await;
                    rec.count(r);
                }
                _ => rec.skip(),
            },
            Op::SetLen { slot, n } => match &slots[*slot] {
                Some(Slot::Pos(f)) => rec.unit(f.set_len(*n).await),
                _ => rec.skip(),
            },
            Op::Sync { slot, data } => match &slots[*slot] {
                Some(Slot::Pos(f)) => rec.unit(if *data { f.sync_data().await } else { f.sync_all().await }),
                _ => rec.skip(),
            },
            Op::FMeta { slot } => match &slots[*slot] {
                Some(Slot::Pos(f)) => rec.meta(f.metadata().await.map(|m| cmeta(&m))),
                _ => rec.skip(),
            },
            Op::PMeta { path, follow } => {
                let p = pjoin(root, path);
                let r = if *follow { compio_fs::metadata(p).await } else { compio_fs::symlink_metadata(p).await };
                rec.meta(r.map(|m| cmeta(&m)));
            }
            Op::Mkdir { path } => rec.unit(compio_fs::create_dir(pjoin(root, path)).await),
            Op::MkdirAll { path } => rec.unit(compio_fs::create_dir_all(pjoin(root, path)).await),
            Op::RmFile { path } => rec.unit(compio_fs::remove_file(pjoin(root, path)).await),
            Op::RmDir { path } => rec.unit(compio_fs::remove_dir(pjoin(root, path)).await),
            Op::Rename { a, b } => rec.unit(compio_fs::rename(pjoin(root, a), pjoin(root, b)).await),
            Op::Link { a, b } => rec.unit(compio_fs::hard_link(pjoin(root, a), pjoin(root, b)).await),
            Op::Symlink { a, b } => rec.unit(compio_fs::symlink(pjoin(root, a), pjoin(root, b)).await),
            Op::Chmod { path, ro } => {
                let p = pjoin(root, path);
                match compio_fs::metadata(&p).await {
                    Ok(m) if m.is_dir() => rec.skip(),
                    Ok(m) => {
                        let mut perm = m.permissions();
                        perm.set_readonly(*ro);
                        rec.unit(compio_fs::set_permissions(&p, perm).await);
                    }
                    Err(e) => rec.unit(Err(e)),
                }
            }
            Op::SeqRead { slot, rb } => match &slots[*slot] {
                Some(Slot::Seq(a)) => {
                    let mut ar: &AsyncFd<std::fs::File> = a;
                    let BufResult(r, b) = ar.read(mk_rbuf(rb)).await;
                    rec.read(&r, &[&b.root()]);
                }
                _ => rec.skip(),
            },
            Op::SeqWrite { slot, wb } => match &slots[*slot] {
                Some(Slot::Seq(a)) => {
                    let mut ar: &AsyncFd<std::fs::File> = a;
                    let BufResult(r, _) = ar.write(mk_wbuf(wb)).await;
                    rec.count(r);
                }
                _ => rec.skip(),
            },
            Op::SeqReadv { slot, rv } => match &slots[*slot] {
                Some(Slot::Seq(a)) => {
                    let mut ar: &AsyncFd<std::fs::File> = a;
                    let BufResult(r, ms) = ar.read_vectored(mk_rvec(rv)).await;
                    rec.read(&r, &ms.iter().collect::<Vec<_>>());
                }
                _ => rec.skip(),
            },
            Op::SeqWritev { slot, wv } => match &slots[*slot] {
                Some(Slot::Seq(a)) => {
                    let mut ar: &AsyncFd<std::fs::File> = a;
                    let BufResult(r, _) = ar.write_vectored(mk_wvec(wv)).await;
                    rec.count(r);
                }
                _ => rec.skip(),
            },
            Op::PipeNew { p } => match compio_fs::pipe::anonymous().await {
                Ok((rx, tx)) => { pipes[*p] = Some(CPipe { rx: Some(rx), tx: Some(tx), inflight: 0 }); rec.unit(Ok(())) }
                Err(e) => rec.unit(Err(e)),
            },
            Op::PipeWrite { p, wb } => match &mut pipes[*p] {
                Some(pp) if pp.tx.is_some() => {
                    if pp.inflight + write_window(wb).len() > PIPE_SOFT { rec.block(); continue; }
                    let mut tx = pp.tx.as_ref().unwrap();
                    let BufResult(r, _) = tx.write(mk_wbuf(wb)).await;
                    if let Ok(n) = r { pp.inflight += n; }
                    rec.count(r);
                }
                _ => rec.skip(),
            },
            Op::PipeWritev { p, wv } => match &mut pipes[*p] {
                Some(pp) if pp.tx.is_some() => {
                    let total: usize = wv.iter().map(|(_, d)| d.len()).sum();
                    if pp.inflight + total > PIPE_SOFT { rec.block(); continue; }
                    let mut tx = pp.tx.as_ref().unwrap();
                    let BufResult(r, _) = tx.write_vectored(mk_wvec(wv)).await;
                    if let Ok(n) = r { pp.inflight += n; }
                    rec.count(r);
                }
                _ => rec.skip(),
            },
            Op::PipeRead { p, rb } => match &mut pipes[*p] {
                Some(pp) if pp.rx.is_some() => {
                    let (_, c) = read_window(rb);
                    if c > 0 && pp.inflight == 0 && pp.tx.is_some() { rec.block(); continue; }
                    let mut rx = pp.rx.as_ref().unwrap();
                    let BufResult(r, b) = rx.read(mk_rbuf(rb)).await;
                    if let Ok(n) = r { pp.inflight = pp.inflight.saturating_sub(n); }
                    rec.read(&r, &[&b.root()]);
                }
                _ => rec.skip(),
            },
            Op::PipeReadv { p, rv } => match &mut pipes[*p] {
                Some(pp) if pp.rx.is_some() => {
                    let c: usize = rv.iter().map(|x| x.1).sum();
                    if c > 0 && pp.inflight == 0 && pp.tx.is_some() { rec.block(); continue; }
                    let mut rx = pp.rx.as_ref().unwrap();
                    let BufResult(r, ms) = rx.read_vectored(mk_rvec(rv)).await;
                    if let Ok(n) = r { pp.inflight = pp.inflight.saturating_sub(n); }
                    rec.read(&r, &ms.iter().collect::<Vec<_>>());
                }
                _ => rec.skip(),
            },
            Op::PipeCloseW { p } => match &mut pipes[*p] {
                Some(pp) if pp.tx.is_some() => rec.unit(pp.tx.take().unwrap().close().await),
                _ => rec.skip(),
            },
            Op::PipeCloseR { p } => match &mut pipes[*p] {
                Some(pp) if pp.rx.is_some() => rec.unit(pp.rx.take().unwrap().close().await),
                _ => rec.skip(),
            },
            Op::BigRead { slot, off, k } => match &slots[*slot] {
                Some(Slot::Pos(f)) => {
                    let cap = (1usize << 32) + *k as usize;
                    let BufResult(r, b) = f.read_at(Vec::<u8>::with_capacity(cap), *off).await;
                    rec.data(r.map(|n| { assert_eq!(b.len(), n); b.clone() }));
                }
                _ => rec.skip(),
            },
            Op::FsWrite { path, data } => rec.unit(compio_fs::write(pjoin(root, path), data.clone()).await.0),
            Op::FsRead { path } => rec.data(compio_fs::read(pjoin(root, path)).await),
            Op::OpenEx { slot, path, bits, mode, custom } => {
                slots[*slot] = None;
                let mut o = compio_opts(*bits);
                let base = if bits & 4 != 0 { libc::O_APPEND } else { 0 };
                o.mode(*mode).custom_flags(base | *custom);
                match o.open(pjoin(root, path)).await {
                    Ok(f) => match f.metadata().await {
                        Ok(m) => {
                            slots[*slot] = Some(Slot::Pos(f));
                            rec.both(vec![0, (m.permissions().mode() & 0o7777) as u64]);
                        }
                        Err(e) => rec.unit(Err(e)),
                    },
                    Err(e) => rec.unit(Err(e)),
                }
            }
        }
    }
    drop(slots);
    drop(pipes);
    rec.both(dump(root));
    rec
}

#[derive(Clone, Copy, PartialEq)]
enum Mode { Uring, Poll, Fallback }

// io_uring opcodes that have a `call_blocking` fallback in compio-driver
const FALLBACK_OPS: [u8; 11] = [18, 19, 21, 30, 35, 36, 37, 38, 39, 55, 62];

static SEQ: AtomicU64 = AtomicU64::new(0);

fn fresh_dir(tag: &str) -> PathBuf {
    let d = std::env::temp_dir().join(format!(
        "verif_c08_{}_{}_{}", std::process::id(), SEQ.fetch_add(1, Ordering::SeqCst), tag));
    let _ = std::fs::remove_dir_all(&d);
    std::fs::create_dir_all(&d).expect("temp dir");
    d
}

/// Err(None) = watchdog (a hang), Err(Some(msg)) = the run panicked
fn compio_run(ops: &[Op], mode: Mode) -> Result<Rec, Option<String>> {
    let dir = fresh_dir(match mode { Mode::Uring => "a", Mode::Poll => "b", Mode::Fallback => "c" });
    let (tx, rx) = mpsc::channel();
    let ops2 = ops.to_vec();
    let dir2 = dir.clone();
    if mode == Mode::Fallback {
        compio_driver::verif_mask::set(&FALLBACK_OPS);
    }
    std::thread::spawn(move || {
        let r = std::panic::catch_unwind(std::panic::AssertUnwindSafe(|| {
            let mut pb = ProactorBuilder::new();
            pb.driver_type(if mode == Mode::Poll { DriverType::Poll } else { DriverType::IoUring });
            let t0 = std::time::Instant::now();
            let rt = RuntimeBuilder::new().with_proactor(pb).build().expect("runtime");
            assert!(rt.driver_type() == if mode == Mode::Poll { DriverType::Poll } else { DriverType::IoUring });
            let t1 = t0.elapsed();
            let r = rt.block_on(run_compio(&ops2, &dir2));
            let t2 = t0.elapsed();
            drop(rt);
            if std::env::var("C08_TIMES").is_ok() {
                eprintln!("build {:?} run {:?} drop {:?}", t1, t2 - t1, t0.elapsed() - t2);
            }
            r
        }));
        let _ = tx.send(r.map_err(|p| {
            if let Some(s) = p.downcast_ref::<&str>() { s.to_string() }
            else if let Some(s) = p.downcast_ref::<String>() { s.clone() }
            else { String::new() }
        }));
    });
    let res = rx.recv_timeout(WATCHDOG);
    compio_driver::verif_mask::clear();
    let _ = std::fs::remove_dir_all(&dir);
    match res {
        Ok(Ok(rec)) => Ok(rec),
        Ok(Err(msg)) => Err(Some(msg)),
        Err(_) => Err(None),
    }
}

fn first_diff(a: &[Vec<u64>], b: &[Vec<u64>]) -> (u64, u64) {
    for i in 0..a.len().max(b.len()) {
        if a.get(i) != b.get(i) {
            return (0, i as u64 + 1);
        }
    }
    (1, 0)
}

fn run(case: &[u64]) -> Result<Vec<u64>, BadCase> {
    let ops = decode(case)?;
    let a = match compio_run(&ops, Mode::Uring) {
        Ok(r) => r,
        Err(None) => return Ok(vec![2, 8]),
        Err(Some(msg)) => panic!("{msg}"),
    };
    let mut out: Vec<u64> = a.full.iter().flatten().copied().collect();
    for mode in [Mode::Poll, Mode::Fallback] {
        let (flag, idx) = match compio_run(&ops, mode) {
            Ok(r) => {
                if std::env::var("C08_DEBUG").is_ok() {
                    eprintln!("A {:?}\nX {:?}", a.full, r.full);
                }
                first_diff(&a.full, &r.full)
            }
            Err(None) => (0, 9998),
            Err(Some(_)) => (0, 9999),
        };
        out.push(flag);
        out.push(idx);
    }
    let dir = fresh_dir("d");
    let d = run_os(&ops, &dir);
    let _ = std::fs::remove_dir_all(&dir);
    if std::env::var("C08_DEBUG").is_ok() {
        eprintln!("A {:?}\nD {:?}", a.proj, d.proj);
    }
    let (flag, idx) = first_diff(&a.proj, &d.proj);
    out.push(flag);
    out.push(idx);
    Ok(out)
}

fn main() {
    // the reference (coq/model/FileSpec.v UMASK) assumes this umask
    unsafe { libc::umask(0o022) };
    main_loop(run);
}
