//! C20 correspondence harness: child processes — complete stdio and the real
//! exit status.  Runs one REAL child process per case through compio-process
//! (on the io_uring or the polling driver) and prints what the parent observed,
//! in the encoding the Coq reference (coq/model/RunC20.v) predicts.
//!
//! case   = [drv; n_out; n_err; n_in; use_stdin; rchunk; wchunk; exit_kind;
//!           exit_arg; order; reuse; delay_ms]
//! result = [0; out_len; out_sum; out_ok; echo_ok; err_len; err_sum; err_ok;
//!           in_written; code (256 = none); signal (0 = none); not_early]
//!        | [1; where; io error kind]  | [2; 8] (watchdog: the scenario hung)
//!
//! huge-buffer case = [drv; dir; m; k; n_out]: ONE write call (dir 0) with a buffer of
//!   m * 2^32 + k bytes to a child that does not read, or (dir 1) ONE read call with a
//!   Vec of that capacity after the child wrote n_out bytes and exited, then a small
//!   read; result = [0; n; byte sum; bytes ok; second read = end of file; exit code].
//!   The 4 GiB+ buffers are zero pages never written (calloc) / never touched.
//!
//! Child (sh -c): `cat;` (only with use_stdin) then `yes LINE | head -c n_out`,
//! then the same to stderr with another line, `sleep delay`, then `exit K` or
//! `kill -SIG $$`.  Every scenario runs on its own thread with a fresh Runtime
//! under a watchdog; on a hang the child is killed and the thread is leaked.
use std::{
    cell::Cell,
    io,
    os::unix::process::ExitStatusExt,
    process::{ExitStatus, Stdio},
    rc::Rc,
    sync::{
        Arc,
        atomic::{AtomicU32, Ordering},
        mpsc,
    },
    time::{Duration, Instant},
};

use compio_buf::BufResult;
use compio_driver::{DriverType, ProactorBuilder};
use compio_io::{AsyncRead, AsyncWrite};
use compio_process::{ChildStdin, Command};
use compio_runtime::RuntimeBuilder;
use verif_harness::*;

const CAP: u64 = 65536;
const MAXSZ: u64 = 4194304;
const MAXSTEPS: u64 = 20000;
const SIGNALS: [u64; 8] = [1, 2, 9, 10, 12, 13, 14, 15];

#[derive(Clone, Copy)]
struct Sc {
    drv: u64,
    n_out: u64,
    n_err: u64,
    n_in: u64,
    use_stdin: bool,
    rchunk: usize,
    wchunk: usize,
    ekind: u64,
    earg: u64,
    order: u64,
    reuse: bool,
    delay: u64,
}

fn decode(c: &[u64]) -> Result<Sc, BadCase> {
    if c.len() != 12 {
        return Err(BadCase);
    }
    let (drv, n_out, n_err, n_in, use_stdin, rchunk, wchunk) =
        (c[0], c[1], c[2], c[3], c[4], c[5], c[6]);
    let (ekind, earg, order, reuse, delay) = (c[7], c[8], c[9], c[10], c[11]);
    let ok = drv <= 1
        && n_out <= MAXSZ
        && n_err <= MAXSZ
        && n_in <= MAXSZ
        && use_stdin <= 1
        && (use_stdin == 1 || n_in == 0)
        && (1..=MAXSZ).contains(&rchunk)
        && (1..=MAXSZ).contains(&wchunk)
        && (n_in + n_out + n_err) / rchunk.min(wchunk) <= MAXSTEPS
        && (if ekind == 0 { earg <= 255 } else { ekind == 1 && SIGNALS.contains(&earg) })
        && order <= 5
        && (order < 4 || (use_stdin == 1 && n_in == 0))
        && reuse <= 1
        && delay <= 500;
    if !ok {
        return Err(BadCase);
    }
    Ok(Sc {
        drv,
        n_out,
        n_err,
        n_in,
        use_stdin: use_stdin == 1,
        rchunk: rchunk as usize,
        wchunk: wchunk as usize,
        ekind,
        earg,
        order,
        reuse: reuse == 1,
        delay,
    })
}

// ---- patterns (the same functions as in RunC20.v) -------------------------

#[derive(Clone, Copy, PartialEq)]
enum Pat {
    In,
    Out,
    Err,
}

fn period(p: Pat) -> u64 {
    if p == Pat::In { 251 } else { 63 }
}

fn byte_out(j: u64) -> u8 {
    (if j < 10 {
        48 + j
    } else if j < 36 {
        55 + j
    } else if j < 62 {
        61 + j
    } else {
        10
    }) as u8
}

fn byte_of(p: Pat, j: u64) -> u8 {
    match p {
        Pat::In => j as u8,
        Pat::Out => byte_out(j),
        Pat::Err => {
            if j < 62 {
                byte_out(61 - j)
            } else {
                10
            }
        }
    }
}

fn line(p: Pat) -> String {
    (0..62).map(|j| byte_of(p, j) as char).collect()
}

/// what a parent reader has seen (mirror of `cons_st` / `absorb`)
struct Stats {
    p1: Pat,
    p2: Pat,
    cnt: u64,
    sum: u64,
    ok1: bool,
    ok2: bool,
    rem1: u64,
    ph: u64,
    eof: bool,
    len_rule: bool,
}

impl Stats {
    fn new(p1: Pat, p2: Pat, rem1: u64) -> Self {
        Self { p1, p2, cnt: 0, sum: 0, ok1: true, ok2: true, rem1, ph: 0, eof: false, len_rule: true }
    }

    fn absorb(&mut self, bs: &[u8]) {
        for &b in bs {
            self.cnt += 1;
            self.sum += b as u64;
            if self.rem1 == 0 {
                self.ok2 &= b == byte_of(self.p2, self.ph);
                self.ph = (self.ph + 1) % period(self.p2);
            } else {
                self.ok1 &= b == byte_of(self.p1, self.ph);
                self.rem1 -= 1;
                self.ph = if self.rem1 == 0 { 0 } else { (self.ph + 1) % period(self.p1) };
            }
        }
    }
}

type Fail = (u64, io::Error);

/// read to end of file in read calls of at most `rchunk` bytes
async fn drain<R: AsyncRead>(mut r: R, rchunk: usize, reuse: bool, st: &mut Stats, at: u64) -> Result<(), Fail> {
    let mut buf: Vec<u8> = Vec::with_capacity(rchunk);
    loop {
        if !reuse {
            buf.clear();
        }
        let before = buf.len();
        let BufResult(res, b) = r.read(buf).await;
        buf = b;
        let n = res.map_err(|e| (at, e))?;
        // map_advanced: the length becomes max(old length, n), never beyond capacity
        if buf.len() != before.max(n) || n > rchunk {
            st.len_rule = false;
        }
        if n == 0 {
            st.eof = true;
            return Ok(());
        }
        st.absorb(&buf[..n.min(buf.len())]);
    }
}

/// write the stdin payload in write calls of at most `wchunk` bytes, then close
async fn feed(stdin: Option<ChildStdin>, n_in: u64, wchunk: usize) -> Result<u64, Fail> {
    let Some(mut stdin) = stdin else { return Ok(0) };
    let mut pos: u64 = 0;
    while pos < n_in {
        let k = (wchunk as u64).min(n_in - pos);
        let chunk: Vec<u8> = (pos..pos + k).map(|i| (i % 251) as u8).collect();
        let BufResult(res, _) = stdin.write(chunk).await;
        let n = res.map_err(|e| (3, e))?;
        if n == 0 {
            return Err((3, io::Error::new(io::ErrorKind::WriteZero, "write returned 0")));
        }
        pos += n as u64;
    }
    drop(stdin);
    Ok(pos)
}

fn script(sc: &Sc) -> String {
    let mut s = String::new();
    if sc.use_stdin {
        s += "cat; ";
    }
    if sc.n_out > 0 {
        s += &format!("yes {} | head -c {}; ", line(Pat::Out), sc.n_out);
    }
    if sc.n_err > 0 {
        s += &format!("yes {} | head -c {} >&2; ", line(Pat::Err), sc.n_err);
    }
    if sc.delay > 0 {
        s += &format!("sleep 0.{:03}; ", sc.delay);
    }
    if sc.ekind == 0 {
        s += &format!("exit {}", sc.earg);
    } else {
        // a fresh shell (same pid): dash that has waited for a pipeline catches SIGINT
        // itself and would survive `kill -2 $$`
        s += &format!("exec /bin/sh -c 'kill -{} $$; sleep 5'", sc.earg);
    }
    s
}

async fn scenario(sc: Sc, pid: Arc<AtomicU32>) -> Result<Vec<u64>, Fail> {
    let t0 = Instant::now();
    let mut cmd = Command::new("/bin/sh");
    cmd.arg("-c").arg(script(&sc));
    cmd.stdin(if sc.use_stdin { Stdio::piped() } else { Stdio::null() }).unwrap();
    cmd.stdout(Stdio::piped()).unwrap();
    cmd.stderr(Stdio::piped()).unwrap();
    cmd.process_group(0); // own group, so that the watchdog can kill sh and its helpers
    let mut child = cmd.spawn().map_err(|e| (0, e))?;
    pid.store(child.id(), Ordering::SeqCst);
    // orders 4 and 5: ChildStdin stays inside the Child that wait consumes
    let stdin = if sc.order >= 4 { None } else { child.stdin.take() };

    let mut so = Stats::new(Pat::In, Pat::Out, sc.n_in);
    let mut se = Stats::new(Pat::In, Pat::Err, 0);
    let status: ExitStatus;
    let written: u64;
    let mut early = false;
    let waited: Duration;

    match sc.order {
        0 => {
            // wait first: nothing is read or written while the wait is pending
            let out = child.stdout.take().unwrap();
            let err = child.stderr.take().unwrap();
            let done: Rc<Cell<Option<Duration>>> = Rc::new(Cell::new(None));
            let done2 = done.clone();
            let h = compio_runtime::spawn(async move {
                let r = child.wait().await;
                done2.set(Some(t0.elapsed()));
                r
            });
            let must_block = sc.use_stdin || sc.n_out > CAP || sc.n_err > CAP;
            if must_block {
                // the child cannot have exited: it is blocked on a full pipe or
                // waits for end of file on its stdin
                compio_runtime::time::sleep(Duration::from_millis(300)).await;
                early = h.is_finished() || done.get().is_some();
            }
            let (w, a, b) = futures_util::join!(
                feed(stdin, sc.n_in, sc.wchunk),
                drain(out, sc.rchunk, sc.reuse, &mut so, 1),
                drain(err, sc.rchunk, sc.reuse, &mut se, 2)
            );
            written = w?;
            a?;
            b?;
            status = h
                .await
                .map_err(|_| (4, io::Error::other("wait task cancelled or panicked")))?
                .map_err(|e| (4, e))?;
            waited = done.get().unwrap_or_default();
        }
        1 => {
            // drain to end of file, then wait (the child is a zombie by then)
            let out = child.stdout.take().unwrap();
            let err = child.stderr.take().unwrap();
            let (w, a, b) = futures_util::join!(
                feed(stdin, sc.n_in, sc.wchunk),
                drain(out, sc.rchunk, sc.reuse, &mut so, 1),
                drain(err, sc.rchunk, sc.reuse, &mut se, 2)
            );
            written = w?;
            a?;
            b?;
            status = child.wait().await.map_err(|e| (4, e))?;
            waited = t0.elapsed();
        }
        2 => {
            // everything at once
            let out = child.stdout.take().unwrap();
            let err = child.stderr.take().unwrap();
            let wait = async {
                let r = child.wait().await;
                (r, t0.elapsed())
            };
            let ((st, wt), w, a, b) = futures_util::join!(
                wait,
                feed(stdin, sc.n_in, sc.wchunk),
                drain(out, sc.rchunk, sc.reuse, &mut so, 1),
                drain(err, sc.rchunk, sc.reuse, &mut se, 2)
            );
            written = w?;
            a?;
            b?;
            status = st.map_err(|e| (4, e))?;
            waited = wt;
        }
        4 => {
            // wait(self) while the Child still owns its ChildStdin: nobody else can
            // close it any more, so the child (cat) sees end of file only if waiting
            // closes it (as std::process::Child::wait documents)
            let out = child.stdout.take().unwrap();
            let err = child.stderr.take().unwrap();
            let wait = async {
                let r = child.wait().await;
                (r, t0.elapsed())
            };
            let ((st, wt), a, b) = futures_util::join!(
                wait,
                drain(out, sc.rchunk, sc.reuse, &mut so, 1),
                drain(err, sc.rchunk, sc.reuse, &mut se, 2)
            );
            a?;
            b?;
            written = 0;
            status = st.map_err(|e| (4, e))?;
            waited = wt;
        }
        _ => {
            // the API's own combination: wait + read_to_end of both streams
            // (order 5: with the ChildStdin still inside the Child)
            let wait = async {
                let r = child.wait_with_output().await;
                (r, t0.elapsed())
            };
            let ((o, wt), w) = futures_util::join!(wait, feed(stdin, sc.n_in, sc.wchunk));
            written = w?;
            let o = o.map_err(|e| (4, e))?;
            so.absorb(&o.stdout);
            so.eof = true;
            se.absorb(&o.stderr);
            se.eof = true;
            status = o.status;
            waited = wt;
        }
    }

    // the child sleeps `delay` before exiting: a wait that returned sooner
    // returned before the exit
    let not_early = !early && waited >= Duration::from_millis(sc.delay);
    let code = status.code().map(|c| c as u64).unwrap_or(256);
    let signal = status.signal().map(|s| s as u64).unwrap_or(0);
    Ok(vec![
        0,
        so.cnt,
        so.sum % (1 << 32),
        (so.ok2 && so.eof && so.len_rule && so.cnt == sc.n_in + sc.n_out) as u64,
        (so.ok1 && so.cnt >= sc.n_in) as u64,
        se.cnt,
        se.sum % (1 << 32),
        (se.ok2 && se.eof && se.len_rule && se.cnt == sc.n_err) as u64,
        written,
        code,
        signal,
        not_early as u64,
    ])
}


// ---- huge buffers ----------------------------------------------------------

#[derive(Clone, Copy)]
struct Huge {
    drv: u64,
    dir: u64,
    size: usize,
    n_out: u64,
}

fn decode_huge(c: &[u64]) -> Result<Huge, BadCase> {
    let (drv, dir, m, k, n_out) = (c[0], c[1], c[2], c[3], c[4]);
    let ok = drv <= 1 && dir <= 1 && (1..=2).contains(&m) && k <= 65536 && n_out <= CAP
        && (dir == 0 || n_out >= 1);
    if !ok {
        return Err(BadCase);
    }
    Ok(Huge { drv, dir, size: ((m as usize) << 32) + k as usize, n_out })
}

async fn huge_scenario(h: Huge, pid: Arc<AtomicU32>) -> Result<Vec<u64>, Fail> {
    let mut cmd = Command::new("/bin/sh");
    let script = if h.dir == 0 {
        // the child never reads its stdin
        "sleep 0.3; exit 0".to_string()
    } else {
        format!("yes {} | head -c {}; exit 0", line(Pat::Out), h.n_out)
    };
    cmd.arg("-c").arg(script);
    cmd.stdin(if h.dir == 0 { Stdio::piped() } else { Stdio::null() }).unwrap();
    cmd.stdout(if h.dir == 1 { Stdio::piped() } else { Stdio::null() }).unwrap();
    cmd.stderr(Stdio::null()).unwrap();
    cmd.process_group(0);
    let mut child = cmd.spawn().map_err(|e| (0, e))?;
    pid.store(child.id(), Ordering::SeqCst);
    if h.dir == 0 {
        let mut stdin = child.stdin.take().unwrap();
        // zeroed pages that are never written: only what the kernel copies is read
        let buf: Vec<u8> = vec![0u8; h.size];
        let BufResult(res, buf) = stdin.write(buf).await;
        let n = res.map_err(|e| (3, e))?;
        let intact = buf.len() == h.size;
        drop(buf);
        drop(stdin);
        let status = child.wait().await.map_err(|e| (4, e))?;
        let code = status.code().map(|c| c as u64).unwrap_or(256);
        Ok(vec![0, n as u64, 0, intact as u64, 1, code])
    } else {
        let mut out = child.stdout.take().unwrap();
        // the child has written everything (n_out <= pipe capacity) and exited
        let status = child.wait().await.map_err(|e| (4, e))?;
        let code = status.code().map(|c| c as u64).unwrap_or(256);
        let BufResult(res, buf) = out.read(Vec::<u8>::with_capacity(h.size)).await;
        let n = res.map_err(|e| (1, e))?;
        let mut st = Stats::new(Pat::In, Pat::Out, 0);
        let len_rule = buf.len() == n && buf.capacity() >= h.size;
        st.absorb(&buf[..n.min(buf.len())]);
        drop(buf);
        let BufResult(res2, _) = out.read(Vec::<u8>::with_capacity(16)).await;
        let eof = res2.map_err(|e| (1, e))? == 0;
        Ok(vec![0, n as u64, st.sum % (1 << 32), (st.ok2 && len_rule) as u64, eof as u64, code])
    }
}

enum Job {
    Std(Sc),
    Huge(Huge),
}

fn run(case: &[u64]) -> Result<Vec<u64>, BadCase> {
    let (job, drv, delay) = if case.len() == 5 {
        let h = decode_huge(case)?;
        (Job::Huge(h), h.drv, 0)
    } else {
        let sc = decode(case)?;
        (Job::Std(sc), sc.drv, sc.delay)
    };
    let (tx, rx) = mpsc::channel::<Vec<u64>>();
    let pid = Arc::new(AtomicU32::new(0));
    let pid2 = pid.clone();
    std::thread::Builder::new()
        .name("c20-scenario".into())
        .spawn(move || {
            let res = std::panic::catch_unwind(std::panic::AssertUnwindSafe(|| {
                let mut pb = ProactorBuilder::new();
                pb.driver_type(if drv == 1 { DriverType::Poll } else { DriverType::IoUring });
                let rt = RuntimeBuilder::new().with_proactor(pb).build().expect("runtime");
                assert!(rt.driver_type() == if drv == 1 { DriverType::Poll } else { DriverType::IoUring });
                match job {
                    Job::Std(sc) => rt.block_on(scenario(sc, pid2)),
                    Job::Huge(h) => rt.block_on(huge_scenario(h, pid2)),
                }
            }));
            let out = match res {
                Ok(Ok(v)) => v,
                Ok(Err((at, e))) => vec![1, at, code_of(e.kind())],
                Err(p) => {
                    let msg = if let Some(s) = p.downcast_ref::<&str>() {
                        s.to_string()
                    } else if let Some(s) = p.downcast_ref::<String>() {
                        s.clone()
                    } else {
                        String::new()
                    };
                    vec![2, panic_code(&msg)]
                }
            };
            let _ = tx.send(out);
        })
        .expect("thread");
    let limit = Duration::from_millis(12_000 + delay);
    match rx.recv_timeout(limit) {
        Ok(v) => Ok(v),
        Err(_) => {
            // hang: kill the child (and its group members reading our pipes die
            // of SIGPIPE / end of file); the stuck thread is leaked
            let p = pid.load(Ordering::SeqCst);
            if p != 0 {
                unsafe { libc::kill(-(p as i32), libc::SIGKILL) };
            }
            Ok(vec![2, 8])
        }
    }
}

fn main() {
    // a harness started as a background job of a non-interactive shell inherits
    // SIGINT / SIGQUIT as ignored, and so would the children: `kill -2 $$` would
    // not terminate them.  Children must start with default dispositions.
    for s in [libc::SIGHUP, libc::SIGINT, libc::SIGQUIT, libc::SIGUSR1, libc::SIGUSR2, libc::SIGALRM, libc::SIGTERM] {
        unsafe { libc::signal(s, libc::SIG_DFL) };
    }
    main_loop(run);
}
