//! C17 harness: the real `compio_driver::AsyncifyPool` driven directly from 1-4
//! dispatcher threads (modes 0, 1), through real Proactors sharing one pool
//! (mode 2) and through `compio_runtime::spawn_blocking` (mode 3).
//!
//! cases:
//!   [0; L; tmo_ms; D; nphases; (gap_ms; njobs; (d dur_us pre_us)*)*]   concurrent dispatchers, phases
//!   [1; L; tmo_ms; D; dur_ms; hold_ms]                                  forced window at sched_point(10)
//!   [2; L; tmo_ms; R; drv; njobs; (r panics dur_us)*]                   R proactors sharing one pool
//!   [3; L; tmo_ms; njobs; (panics dur_us)*]                             Runtime::spawn_blocking
//!   [4; L; tmo_ms; drv; k; rounds; dur_us]    k jobs finishing at the same instant while the driver
//!                                             sleeps in poll(4 s): every result must wake it
//!   [5; L; tmo_ms; sub; m; drv]   the OS refuses a thread exactly when the pool must grow: a CHILD process
//!        of this binary (`--fault-child`) occupies m < L workers, lowers RLIMIT_AS to just above its
//!        VmSize (the 2 MiB stack mmap of a new thread fails), calls dispatch (sub 0) / Proactor::push of
//!        an Asyncify op (sub 1), restores the limit; a control thread::Builder::spawn under the same
//!        limit must fail too (else the case is inconclusive).  extras = [outcome; control; ran; recovered]
//!        outcome 1 panic reached the caller, 2 Err with the same closure, 3 Ok / Pending, 4 Err with
//!        another closure, 0 child died; ran: the job ran / the op completed afterwards; recovered: after
//!        the fault is lifted and the workers retired the pool again runs L jobs at once (2 = not tried)
//! out:
//!   [n_ev; (kind a b)*; njobs; (owner panics runner first runs status)*; max_gauge; L; hang; dropped; D;
//!    lost_wake; timed_out_polls; max_poll_ms; rounds_done]
//!   lost_wake (mode 4): 1 + job id when a poll ran into its 4 s timeout although a pool thread had sent
//!   that job's result AND called the waker at least 1.5 s (15 ticks of a 100 ms ticker thread recorded in
//!   the same log) before the poll gave up — machine load cannot cause that, a lost wake-up does
//!   events (jobs renumbered in submission order of the log, workers in start order):
//!     1 CALL d j | 2 RET_OK d j | 3 RET_REJ d j (same closure back) | 4 RET_REJ_WRONG d j
//!     5 RESERVE_OK d counter | 6 RESERVE_FAIL d counter | 7 WORKER_START t 0
//!     8 JOB_START t j | 9 JOB_END t j | 10 GUARD_DROP t counter | 11 WOKEN t j
//!   status: 1 result delivered to its submitter once, 2 panic surfaced at the submitter,
//!           0 nothing delivered, 3 anything else (wrong value, wrong receiver, twice)
use std::{
    collections::HashMap,
    panic::{AssertUnwindSafe, catch_unwind},
    sync::{
        Arc, Mutex,
        atomic::{AtomicU64, AtomicUsize, Ordering::SeqCst},
        mpsc,
    },
    time::{Duration, Instant},
};

use compio_buf::BufResult;
use compio_driver::{
    AsyncifyPool, Dispatchable, DriverType, Key, ProactorBuilder, PushEntry, op::Asyncify, verif,
};
use verif_harness::*;

const H_CALL: u32 = 201;
const H_RET: u32 = 202;
const H_JSTART: u32 = 203;
const H_JEND: u32 = 204;
const H_WOKEN: u32 = 205;
const H_TICK: u32 = 206;
const H_POLL_END: u32 = 207; // a = 1 when the poll timed out
const H_POP: u32 = 208; // a = token
const K_BLOCKING_WOKEN: u32 = 33;
/// nothing is judged as a hang before this much time has passed (a loaded machine is slow, not stuck)
const DEADLINE: Duration = Duration::from_secs(40);
const WATCHDOG: Duration = Duration::from_secs(90);
const K_BLOCKING_DISPATCH: u32 = 11;
const K_BLOCKING_START: u32 = 12;
const K_BLOCKING_END: u32 = 13;
const K_WORKER_START: u32 = 30;
const K_WORKER_EXIT: u32 = 31;
const K_POOL_RESERVE: u32 = 32;

struct JobRec {
    tok: u64,
    owner: u64,
    panics: bool,
    dur: Duration,
    runs: AtomicU64,
    delivered: AtomicU64,
    status: AtomicU64,
}

#[derive(Default)]
struct Gauge {
    cur: AtomicUsize,
    max: AtomicUsize,
}

impl Gauge {
    fn enter(&self) {
        let n = self.cur.fetch_add(1, SeqCst) + 1;
        self.max.fetch_max(n, SeqCst);
    }
    fn leave(&self) {
        self.cur.fetch_sub(1, SeqCst);
    }
}

/// The dispatchable of the direct modes: identity = (token, nonce address).
struct DirectJob {
    rec: Arc<JobRec>,
    nonce: Box<u64>,
    gauge: Arc<Gauge>,
    tx: mpsc::Sender<u64>,
}

impl Dispatchable for DirectJob {
    fn run(self: Box<Self>) {
        verif::emit(H_JSTART, self.rec.tok, 0);
        self.rec.runs.fetch_add(1, SeqCst);
        self.gauge.enter();
        std::thread::sleep(self.rec.dur);
        self.gauge.leave();
        verif::emit(H_JEND, self.rec.tok, 0);
        let _ = self.tx.send(self.rec.tok);
        verif::emit(H_WOKEN, self.rec.tok, 0);
    }
}

/// dispatch with the retry loop of push_blocking (plus a short sleep that keeps the log small)
fn dispatch_direct(pool: &AsyncifyPool, d: u64, rec: &Arc<JobRec>, gauge: &Arc<Gauge>, tx: &mpsc::Sender<u64>, deadline: Instant) {
    let mut job = DirectJob {
        rec: rec.clone(),
        nonce: Box::new(rec.tok ^ 0x5a5a),
        gauge: gauge.clone(),
        tx: tx.clone(),
    };
    let nonce_addr = &*job.nonce as *const u64 as usize;
    verif::emit(H_CALL, rec.tok, d as i64);
    loop {
        match pool.dispatch(job) {
            Ok(()) => {
                verif::emit(H_RET, rec.tok, 1);
                return;
            }
            Err(e) => {
                let back = e.0;
                let same = back.rec.tok == rec.tok
                    && (&*back.nonce as *const u64 as usize) == nonce_addr
                    && *back.nonce == rec.tok ^ 0x5a5a;
                verif::emit(H_RET, rec.tok, if same { 0 } else { -1 });
                job = back;
                if Instant::now() > deadline {
                    return;
                }
                std::thread::yield_now();
                std::thread::sleep(Duration::from_micros(100));
            }
        }
    }
}

fn mk_jobs(specs: &[(u64, bool, u64)]) -> Vec<Arc<JobRec>> {
    specs
        .iter()
        .enumerate()
        .map(|(i, &(owner, panics, dur_us))| {
            Arc::new(JobRec {
                tok: i as u64,
                owner,
                panics,
                dur: Duration::from_micros(dur_us),
                runs: AtomicU64::new(0),
                delivered: AtomicU64::new(0),
                status: AtomicU64::new(0),
            })
        })
        .collect()
}

/// collect `n` results on the submitter's own channel
fn collect(rx: &mpsc::Receiver<u64>, n: usize, d: u64, jobs: &[Arc<JobRec>], deadline: Instant) {
    for _ in 0..n {
        let left = deadline.saturating_duration_since(Instant::now());
        match rx.recv_timeout(left) {
            Ok(tok) => {
                let j = &jobs[tok as usize];
                if j.owner == d {
                    j.delivered.fetch_add(1, SeqCst);
                } else {
                    j.status.store(3, SeqCst);
                }
            }
            Err(_) => return,
        }
    }
}

fn settle_direct(jobs: &[Arc<JobRec>]) {
    for j in jobs {
        if j.status.load(SeqCst) == 0 {
            let st = match j.delivered.load(SeqCst) {
                0 => 0,
                1 => 1,
                _ => 3,
            };
            j.status.store(st, SeqCst);
        }
    }
}

struct CaseOut {
    jobs: Vec<Arc<JobRec>>,
    events: Vec<verif::Event>,
    max_gauge: u64,
    proactor_mode: bool,
    /// mode 4: lost_wake, timed_out_polls, max_poll_ms, rounds_done
    extra: [u64; 4],
}

fn mode0(l: usize, tmo: Duration, d_n: u64, phases: Vec<(u64, Vec<(u64, u64, u64)>)>) -> CaseOut {
    let specs: Vec<(u64, bool, u64)> = phases
        .iter()
        .flat_map(|(_, js)| js.iter().map(|&(d, dur, _)| (d, false, dur)))
        .collect();
    let jobs = mk_jobs(&specs);
    let gauge = Arc::new(Gauge::default());
    let deadline = Instant::now() + DEADLINE;
    verif::start();
    let pool = AsyncifyPool::new(l, tmo);
    let mut next = 0usize;
    for (gap_ms, js) in &phases {
        let mut hs = vec![];
        for d in 0..d_n {
            let mine: Vec<(Arc<JobRec>, u64)> = js
                .iter()
                .enumerate()
                .filter(|(_, s)| s.0 == d)
                .map(|(i, s)| (jobs[next + i].clone(), s.2))
                .collect();
            if mine.is_empty() {
                continue;
            }
            let (pool, gauge, jobs) = (pool.clone(), gauge.clone(), jobs.clone());
            hs.push(std::thread::spawn(move || {
                let (tx, rx) = mpsc::channel();
                for (rec, pre_us) in &mine {
                    std::thread::sleep(Duration::from_micros(*pre_us));
                    dispatch_direct(&pool, d, rec, &gauge, &tx, deadline);
                }
                collect(&rx, mine.len(), d, &jobs, deadline);
            }));
        }
        for h in hs {
            let _ = h.join();
        }
        next += js.len();
        std::thread::sleep(Duration::from_millis(*gap_ms));
    }
    std::thread::sleep(tmo + Duration::from_millis(3));
    let events = verif::take();
    settle_direct(&jobs);
    CaseOut { jobs, events, max_gauge: gauge.max.load(SeqCst) as u64, proactor_mode: false, extra: [0; 4] }
}

fn mode1(l: usize, tmo: Duration, d_n: u64, dur_ms: u64, hold_ms: u64) -> CaseOut {
    let specs: Vec<(u64, bool, u64)> = (0..d_n).map(|d| (d, false, dur_ms * 1000)).collect();
    let jobs = mk_jobs(&specs);
    let gauge = Arc::new(Gauge::default());
    let deadline = Instant::now() + DEADLINE;
    verif::start();
    let pool = AsyncifyPool::new(l, tmo);
    // the window between the limit check and thread::spawn
    verif::block(10, true);
    let base = verif::arrived(10);
    let mut hs = vec![];
    for d in 0..d_n {
        let (pool, gauge, jobs) = (pool.clone(), gauge.clone(), jobs.clone());
        hs.push(std::thread::spawn(move || {
            let (tx, rx) = mpsc::channel();
            dispatch_direct(&pool, d, &jobs[d as usize], &gauge, &tx, deadline);
            collect(&rx, 1, d, &jobs, deadline);
        }));
    }
    let t0 = Instant::now();
    while verif::arrived(10) < base + d_n && t0.elapsed() < Duration::from_millis(40) {
        std::thread::yield_now();
    }
    std::thread::sleep(Duration::from_millis(hold_ms));
    verif::block(10, false);
    for h in hs {
        let _ = h.join();
    }
    std::thread::sleep(tmo + Duration::from_millis(3));
    let events = verif::take();
    settle_direct(&jobs);
    CaseOut { jobs, events, max_gauge: gauge.max.load(SeqCst) as u64, proactor_mode: false, extra: [0; 4] }
}

type BlockFn = Box<dyn FnOnce() -> BufResult<usize, u64> + Send>;
type BlockOp = Asyncify<BlockFn, u64>;

fn blocking_body(rec: Arc<JobRec>, gauge: Arc<Gauge>) -> impl FnOnce() -> u64 + Send + 'static {
    move || {
        verif::emit(H_JSTART, rec.tok, 0);
        rec.runs.fetch_add(1, SeqCst);
        gauge.enter();
        std::thread::sleep(rec.dur);
        gauge.leave();
        if rec.panics {
            panic!("scripted panic of a blocking job");
        }
        rec.tok + 7
    }
}

fn mode2(l: usize, tmo: Duration, r_n: u64, drv: u64, specs: Vec<(u64, bool, u64)>) -> Result<CaseOut, BadCase> {
    let jobs = mk_jobs(&specs);
    let gauge = Arc::new(Gauge::default());
    let deadline = Instant::now() + DEADLINE;
    let mut builder = ProactorBuilder::new();
    builder
        .driver_type(if drv == 0 { DriverType::IoUring } else { DriverType::Poll })
        .thread_pool_limit(l)
        .thread_pool_recv_timeout(tmo);
    // one pool for every proactor built from this builder (what compio-dispatcher does)
    builder.force_reuse_thread_pool();
    if specs.len() % 2 == 0 {
        // a tiny ring / event capacity: the jobs below are all pushed before the first poll, so
        // more results than `capacity` wait for the driver while it is still pushing
        builder.capacity(2);
    }
    verif::start();
    let failed = Arc::new(AtomicU64::new(0));
    let mut hs = vec![];
    for r in 0..r_n {
        let mine: Vec<Arc<JobRec>> = jobs.iter().filter(|j| j.owner == r).cloned().collect();
        let (builder, gauge, failed) = (builder.clone(), gauge.clone(), failed.clone());
        hs.push(std::thread::spawn(move || {
            let Ok(mut p) = builder.build() else {
                failed.store(1, SeqCst);
                return;
            };
            let mut keys: Vec<(Arc<JobRec>, Option<Key<BlockOp>>)> = vec![];
            for rec in &mine {
                let body = blocking_body(rec.clone(), gauge.clone());
                let f: BlockFn = Box::new(move || {
                    let v = body();
                    BufResult(Ok(v as usize), v)
                });
                match p.push(Asyncify::new(f)) {
                    PushEntry::Pending(k) => keys.push((rec.clone(), Some(k))),
                    PushEntry::Ready(_) => rec.status.store(3, SeqCst),
                }
            }
            while keys.iter().any(|(_, k)| k.is_some()) && Instant::now() < deadline {
                let _ = p.poll(Some(Duration::from_millis(1)));
                for (rec, slot) in keys.iter_mut() {
                    let Some(k) = slot.take() else { continue };
                    match catch_unwind(AssertUnwindSafe(|| p.pop(k))) {
                        Ok(PushEntry::Pending(k)) => *slot = Some(k),
                        Ok(PushEntry::Ready(BufResult(res, _))) => {
                            let ok = matches!(res, Ok(v) if v as u64 == rec.tok + 7);
                            rec.status.store(if ok && !rec.panics { 1 } else { 3 }, SeqCst);
                        }
                        // resume_unwind_io: the panic of the job surfaces at the submitter
                        Err(_) => rec.status.store(if rec.panics { 2 } else { 3 }, SeqCst),
                    }
                }
            }
        }));
    }
    for h in hs {
        let _ = h.join();
    }
    std::thread::sleep(tmo + Duration::from_millis(3));
    let events = verif::take();
    if failed.load(SeqCst) != 0 {
        return Err(BadCase);
    }
    Ok(CaseOut { jobs, events, max_gauge: gauge.max.load(SeqCst) as u64, proactor_mode: true, extra: [0; 4] })
}

fn mode3(l: usize, tmo: Duration, specs: Vec<(u64, bool, u64)>) -> Result<CaseOut, BadCase> {
    let jobs = mk_jobs(&specs);
    let gauge = Arc::new(Gauge::default());
    let mut pb = ProactorBuilder::new();
    pb.thread_pool_limit(l).thread_pool_recv_timeout(tmo);
    let rt = compio_runtime::Runtime::builder()
        .with_proactor(pb)
        .build()
        .map_err(|_| BadCase)?;
    verif::start();
    rt.block_on(async {
        let hs: Vec<_> = jobs
            .iter()
            .map(|rec| compio_runtime::spawn_blocking(blocking_body(rec.clone(), gauge.clone())))
            .collect();
        for (h, rec) in hs.into_iter().zip(jobs.iter()) {
            let st = match h.await {
                Ok(v) if v == rec.tok + 7 && !rec.panics => 1,
                Err(compio_runtime::JoinError::Panicked(_)) if rec.panics => 2,
                _ => 3,
            };
            rec.status.store(st, SeqCst);
        }
    });
    drop(rt);
    std::thread::sleep(tmo + Duration::from_millis(3));
    let events = verif::take();
    Ok(CaseOut { jobs, events, max_gauge: gauge.max.load(SeqCst) as u64, proactor_mode: true, extra: [0; 4] })
}

/// k blocking jobs leave a spin barrier together while the driver thread sleeps in poll
fn mode4(l: usize, tmo: Duration, drv: u64, k: u64, rounds: u64, dur_us: u64) -> Result<CaseOut, BadCase> {
    const POLL_TIMEOUT: Duration = Duration::from_secs(4);
    const LOST_TICKS: u64 = 15;
    let specs: Vec<(u64, bool, u64)> = (0..k * rounds).map(|_| (0, false, dur_us)).collect();
    let jobs = mk_jobs(&specs);
    let gauge = Arc::new(Gauge::default());
    let mut builder = ProactorBuilder::new();
    builder
        .driver_type(if drv == 0 { DriverType::IoUring } else { DriverType::Poll })
        .thread_pool_limit(l)
        .thread_pool_recv_timeout(tmo);
    let mut p = builder.build().map_err(|_| BadCase)?;
    verif::start();
    let stop = Arc::new(AtomicU64::new(0));
    let ticker = {
        let stop = stop.clone();
        std::thread::spawn(move || {
            while stop.load(SeqCst) == 0 {
                std::thread::sleep(Duration::from_millis(100));
                verif::emit(H_TICK, 0, 0);
            }
        })
    };
    let t_case = Instant::now();
    let mut timed_out_polls = 0u64;
    let mut max_poll_ms = 0u64;
    let mut rounds_done = 0u64;
    let mut pushed_n = 0usize;
    'rounds: for r in 0..rounds {
        if t_case.elapsed() > Duration::from_secs(8) {
            break; // a slow machine: fewer rounds, not a finding
        }
        let arrived = Arc::new(AtomicUsize::new(0));
        // nanoseconds after `t_case` at which every job of the round returns (set by the last to arrive)
        let release_at = Arc::new(AtomicU64::new(0));
        let mut keys: Vec<(Arc<JobRec>, Option<Key<BlockOp>>)> = vec![];
        for i in 0..k {
            let rec = jobs[(r * k + i) as usize].clone();
            let (gauge, arrived, rec2, release_at) = (gauge.clone(), arrived.clone(), rec.clone(), release_at.clone());
            let f: BlockFn = Box::new(move || {
                verif::emit(H_JSTART, rec2.tok, 0);
                rec2.runs.fetch_add(1, SeqCst);
                gauge.enter();
                let t0 = Instant::now();
                if arrived.fetch_add(1, SeqCst) + 1 == k as usize {
                    // the driver thread needs a moment to fall asleep in poll
                    release_at.store((t_case.elapsed() + rec2.dur).as_nanos() as u64 + 1, SeqCst);
                }
                // all k return at the same instant (give up after a long while: nothing can hang here)
                loop {
                    let at = release_at.load(SeqCst);
                    if (at != 0 && t_case.elapsed().as_nanos() as u64 >= at) || t0.elapsed() > Duration::from_secs(20) {
                        break;
                    }
                    std::hint::spin_loop();
                }
                gauge.leave();
                let v = rec2.tok + 7;
                BufResult(Ok(v as usize), v)
            });
            pushed_n += 1;
            match p.push(Asyncify::new(f)) {
                PushEntry::Pending(key) => keys.push((rec, Some(key))),
                PushEntry::Ready(_) => rec.status.store(3, SeqCst),
            }
        }
        let t_round = Instant::now();
        while keys.iter().any(|(_, key)| key.is_some()) {
            if t_round.elapsed() > DEADLINE {
                break 'rounds;
            }
            let t0 = Instant::now();
            let res = p.poll(Some(POLL_TIMEOUT));
            let el = t0.elapsed();
            max_poll_ms = max_poll_ms.max(el.as_millis() as u64);
            let timed_out = matches!(&res, Err(e) if e.kind() == std::io::ErrorKind::TimedOut)
                && el >= POLL_TIMEOUT.mul_f32(0.9);
            timed_out_polls += timed_out as u64;
            verif::emit(H_POLL_END, timed_out as u64, 0);
            for (rec, slot) in keys.iter_mut() {
                let Some(key) = slot.take() else { continue };
                match catch_unwind(AssertUnwindSafe(|| p.pop(key))) {
                    Ok(PushEntry::Pending(key)) => *slot = Some(key),
                    Ok(PushEntry::Ready(BufResult(res, _))) => {
                        verif::emit(H_POP, rec.tok, 0);
                        let ok = matches!(res, Ok(v) if v as u64 == rec.tok + 7);
                        rec.status.store(if ok { 1 } else { 3 }, SeqCst);
                    }
                    Err(_) => rec.status.store(3, SeqCst),
                }
            }
            if timed_out {
                // one lost wake-up is enough; do not sit through 4 s for every further one
                rounds_done = r;
                break 'rounds;
            }
        }
        rounds_done = r + 1;
    }
    stop.store(1, SeqCst);
    let _ = ticker.join();
    drop(p);
    std::thread::sleep(tmo.min(Duration::from_millis(20)) + Duration::from_millis(3));
    let mut events = verif::take();
    // judge the timed-out polls against the ticker
    let mut lost = 0u64;
    let mut ticks = 0u64;
    let mut woken_at: HashMap<u64, u64> = HashMap::new(); // token -> tick count when WOKEN was logged
    let mut cur_tok: HashMap<u64, u64> = HashMap::new(); // worker thread -> token it runs
    for e in &events {
        match e.kind {
            H_TICK => ticks += 1,
            H_JSTART => {
                cur_tok.insert(e.thread, e.a);
            }
            K_BLOCKING_WOKEN => {
                if let Some(tok) = cur_tok.get(&e.thread) {
                    woken_at.insert(*tok, ticks);
                }
            }
            H_POP => {
                woken_at.remove(&e.a);
            }
            H_POLL_END if e.a == 1 => {
                if let Some((tok, _)) = woken_at.iter().filter(|(_, t)| ticks >= **t + LOST_TICKS).min() {
                    if lost == 0 {
                        lost = 1 + tok;
                    }
                }
            }
            _ => {}
        }
    }
    if lost != 0 && std::env::var_os("C17_DUMP").is_some() {
        // dev aid: the raw log of a lost wake-up
        for e in events.iter() {
            eprintln!("{} {} {} t{}", e.kind, e.a, e.b, e.thread);
        }
    }
    events.retain(|e| !matches!(e.kind, H_TICK | H_POLL_END | H_POP));
    // only the jobs that were pushed are part of the case
    let mut jobs = jobs;
    jobs.truncate(pushed_n);
    Ok(CaseOut {
        jobs,
        events,
        max_gauge: gauge.max.load(SeqCst) as u64,
        proactor_mode: true,
        extra: [lost, timed_out_polls, max_poll_ms, rounds_done],
    })
}

/// raw log -> model events (see the header), renumbering jobs and threads
fn model_events(c: &CaseOut) -> (Vec<[u64; 3]>, Vec<usize>, u64) {
    let ev = &c.events;
    let n = ev.len();
    // proactor modes: bind BLOCKING_* (operation address) to the job through the
    // H_JSTART marker the closure emits on the same thread right after BLOCKING_START
    let mut bind: Vec<Option<u64>> = vec![None; n];
    if c.proactor_mode {
        let mut next_js: HashMap<u64, u64> = HashMap::new(); // thread -> tok of the next H_JSTART
        let mut next_start: HashMap<u64, u64> = HashMap::new(); // addr -> tok of the next BLOCKING_START
        for i in (0..n).rev() {
            let e = &ev[i];
            match e.kind {
                H_JSTART => {
                    next_js.insert(e.thread, e.a);
                }
                K_BLOCKING_START => {
                    if let Some(&tok) = next_js.get(&e.thread) {
                        bind[i] = Some(tok);
                        next_start.insert(e.a, tok);
                        next_js.remove(&e.thread);
                    }
                }
                K_BLOCKING_DISPATCH => {
                    bind[i] = next_start.remove(&e.a);
                }
                _ => {}
            }
        }
    }
    let mut out: Vec<[u64; 3]> = vec![];
    let mut order: Vec<usize> = vec![]; // model job id -> index into jobs
    let mut jid: HashMap<u64, u64> = HashMap::new();
    let mut th_d: HashMap<u64, u64> = HashMap::new();
    let mut th_w: HashMap<u64, u64> = HashMap::new();
    let mut cur: HashMap<u64, u64> = HashMap::new();
    let mut sent: HashMap<u64, u64> = HashMap::new();
    let mut pending_ret: HashMap<u64, u64> = HashMap::new();
    const NOBODY: u64 = 99;
    for (i, e) in ev.iter().enumerate() {
        match e.kind {
            H_CALL if !c.proactor_mode => {
                let d = e.b as u64;
                th_d.insert(e.thread, d);
                let j = order.len() as u64;
                jid.insert(e.a, j);
                order.push(e.a as usize);
                out.push([1, d, j]);
            }
            K_BLOCKING_DISPATCH if c.proactor_mode => {
                let Some(tok) = bind[i] else { continue };
                let d = c.jobs[tok as usize].owner;
                th_d.insert(e.thread, d);
                if let Some(pj) = pending_ret.remove(&d) {
                    out.push([2, d, pj]);
                }
                let j = order.len() as u64;
                jid.insert(tok, j);
                order.push(tok as usize);
                out.push([1, d, j]);
                pending_ret.insert(d, j);
            }
            H_RET if !c.proactor_mode => {
                let d = th_d.get(&e.thread).copied().unwrap_or(NOBODY);
                let j = jid.get(&e.a).copied().unwrap_or(NOBODY);
                out.push([if e.b == 1 { 2 } else if e.b == 0 { 3 } else { 4 }, d, j]);
            }
            K_POOL_RESERVE => {
                if let Some(&d) = th_d.get(&e.thread) {
                    out.push([if e.b == 1 { 5 } else { 6 }, d, e.a]);
                }
            }
            K_WORKER_START => {
                let t = th_w.len() as u64;
                th_w.insert(e.thread, t);
                out.push([7, t, 0]);
            }
            H_JSTART if !c.proactor_mode => {
                let t = th_w.get(&e.thread).copied().unwrap_or(NOBODY);
                out.push([8, t, jid.get(&e.a).copied().unwrap_or(NOBODY)]);
            }
            K_BLOCKING_START if c.proactor_mode => {
                let Some(tok) = bind[i] else { continue };
                let t = th_w.get(&e.thread).copied().unwrap_or(NOBODY);
                let j = jid.get(&tok).copied().unwrap_or(NOBODY);
                cur.insert(e.thread, j);
                out.push([8, t, j]);
            }
            H_JEND if !c.proactor_mode => {
                let t = th_w.get(&e.thread).copied().unwrap_or(NOBODY);
                let j = jid.get(&e.a).copied().unwrap_or(NOBODY);
                sent.insert(e.thread, j);
                out.push([9, t, j]);
            }
            K_BLOCKING_END if c.proactor_mode => {
                let Some(j) = cur.remove(&e.thread) else { continue };
                let t = th_w.get(&e.thread).copied().unwrap_or(NOBODY);
                sent.insert(e.thread, j);
                out.push([9, t, j]);
            }
            K_BLOCKING_WOKEN if c.proactor_mode => {
                let Some(j) = sent.remove(&e.thread) else { continue };
                let t = th_w.get(&e.thread).copied().unwrap_or(NOBODY);
                out.push([11, t, j]);
            }
            H_WOKEN if !c.proactor_mode => {
                // a straggler of an earlier case (its last event) is not part of this history
                let Some(j) = sent.remove(&e.thread) else { continue };
                let t = th_w.get(&e.thread).copied().unwrap_or(NOBODY);
                out.push([11, t, j]);
            }
            K_WORKER_EXIT => {
                // a straggler of an earlier case's pool is not part of this history
                if let Some(&t) = th_w.get(&e.thread) {
                    out.push([10, t, e.a]);
                }
            }
            _ => {}
        }
    }
    let mut rest: Vec<(u64, u64)> = pending_ret.into_iter().collect();
    rest.sort();
    for (d, j) in rest {
        out.push([2, d, j]);
    }
    // a repeated rejection of the same dispatcher with no counter change in between is
    // implied by the first one (same model state): dropped, counted
    let mut kept: Vec<[u64; 3]> = vec![];
    let mut epoch = 0u64;
    let mut rej: HashMap<u64, u64> = HashMap::new();
    let mut dropped_last: HashMap<u64, bool> = HashMap::new();
    let mut dropped = 0u64;
    for e in out {
        match e[0] {
            5 | 10 => {
                epoch += 1;
                if e[0] == 5 {
                    rej.remove(&e[1]);
                    dropped_last.insert(e[1], false);
                }
                kept.push(e);
            }
            6 => {
                if rej.get(&e[1]) == Some(&epoch) {
                    dropped_last.insert(e[1], true);
                    dropped += 1;
                } else {
                    rej.insert(e[1], epoch);
                    dropped_last.insert(e[1], false);
                    kept.push(e);
                }
            }
            3 => {
                if dropped_last.get(&e[1]).copied().unwrap_or(false) {
                    dropped += 1;
                } else {
                    kept.push(e);
                }
            }
            1 | 2 => {
                rej.remove(&e[1]);
                dropped_last.insert(e[1], false);
                kept.push(e);
            }
            _ => kept.push(e),
        }
    }
    (kept, order, dropped)
}

fn encode(c: &CaseOut, l: u64, d_n: u64, hang: u64) -> Vec<u64> {
    let (evs, mut order, dropped) = model_events(c);
    // jobs never submitted according to the log go last (keeps the table total)
    for i in 0..c.jobs.len() {
        if !order.contains(&i) {
            order.push(i);
        }
    }
    let mut runner: HashMap<u64, (u64, u64)> = HashMap::new();
    let mut seen_t: HashMap<u64, bool> = HashMap::new();
    for e in &evs {
        if e[0] == 8 {
            let first = !seen_t.contains_key(&e[1]);
            seen_t.insert(e[1], true);
            runner.entry(e[2]).or_insert((e[1], first as u64));
        }
    }
    let mut out = vec![evs.len() as u64];
    for e in &evs {
        out.extend_from_slice(e);
    }
    out.push(c.jobs.len() as u64);
    for (j, &idx) in order.iter().enumerate() {
        let rec = &c.jobs[idx];
        let (t, first) = runner.get(&(j as u64)).copied().unwrap_or((99, 0));
        out.extend_from_slice(&[
            rec.owner,
            rec.panics as u64,
            t,
            first,
            rec.runs.load(SeqCst),
            rec.status.load(SeqCst),
        ]);
    }
    out.extend_from_slice(&[c.max_gauge, l, hang, dropped, d_n]);
    out.extend_from_slice(&c.extra);
    out
}

// ---------------------------------------------------------------------------------------------
// mode 5: thread creation refused at pool growth (runs in a child process)

fn vm_bytes() -> u64 {
    let s = std::fs::read_to_string("/proc/self/statm").unwrap_or_default();
    let pages: u64 = s.split_whitespace().next().and_then(|t| t.parse().ok()).unwrap_or(0);
    pages * unsafe { libc::sysconf(libc::_SC_PAGESIZE) } as u64
}

/// run `f` with the address-space limit just above what the process uses now: small heap growth
/// still works, the 2 MiB stack of a new thread does not
fn with_as_limit<R>(f: impl FnOnce() -> R) -> R {
    unsafe {
        let mut old = std::mem::zeroed::<libc::rlimit>();
        libc::getrlimit(libc::RLIMIT_AS, &mut old);
        let new = libc::rlimit { rlim_cur: vm_bytes() + (1 << 20), rlim_max: old.rlim_max };
        libc::setrlimit(libc::RLIMIT_AS, &new);
        let r = f();
        libc::setrlimit(libc::RLIMIT_AS, &old);
        r
    }
}

struct GatedJob {
    tok: u64,
    started: Arc<AtomicUsize>,
    ran: Arc<AtomicU64>,
    gate: Arc<AtomicU64>,
}

impl Dispatchable for GatedJob {
    fn run(self: Box<Self>) {
        self.started.fetch_add(1, SeqCst);
        let t0 = Instant::now();
        while self.gate.load(SeqCst) == 0 && t0.elapsed() < Duration::from_secs(60) {
            std::thread::sleep(Duration::from_millis(1));
        }
        self.ran.fetch_add(1, SeqCst);
    }
}

fn wait_for(cond: impl Fn() -> bool, limit: Duration) -> bool {
    let t0 = Instant::now();
    while !cond() {
        if t0.elapsed() > limit {
            return false;
        }
        std::thread::sleep(Duration::from_millis(1));
    }
    true
}

/// after the fault: let every worker retire, then the pool must again run `l` jobs at once
fn pool_recovers(pool: &AsyncifyPool, l: usize, tmo: Duration) -> u64 {
    std::thread::sleep(tmo + Duration::from_millis(30));
    let started = Arc::new(AtomicUsize::new(0));
    let ran = Arc::new(AtomicU64::new(0));
    let gate = Arc::new(AtomicU64::new(0));
    let t0 = Instant::now();
    for i in 0..l {
        let mut job = GatedJob { tok: 100 + i as u64, started: started.clone(), ran: ran.clone(), gate: gate.clone() };
        loop {
            match pool.dispatch(job) {
                Ok(()) => break,
                Err(e) => {
                    job = e.0;
                    if t0.elapsed() > DEADLINE {
                        gate.store(1, SeqCst);
                        return 0;
                    }
                    std::thread::sleep(Duration::from_millis(1));
                }
            }
        }
    }
    let ok = wait_for(|| started.load(SeqCst) == l, DEADLINE);
    gate.store(1, SeqCst);
    ok as u64
}

fn fault_child(args: &[String]) {
    std::panic::set_hook(Box::new(|_| {}));
    let num = |i: usize| args.get(i).and_then(|s| s.parse::<u64>().ok()).unwrap_or(0);
    let (sub, l, tmo_ms, m, drv) = (num(0), num(1) as usize, num(2), num(3) as usize, num(4));
    let tmo = Duration::from_millis(tmo_ms);
    let started = Arc::new(AtomicUsize::new(0));
    let ran = Arc::new(AtomicU64::new(0));
    let gate = Arc::new(AtomicU64::new(0));
    let faulted_ran = Arc::new(AtomicU64::new(0));
    let (outcome, control, ran_after, recovered);
    if sub == 0 {
        let pool = AsyncifyPool::new(l, tmo);
        for i in 0..m {
            let _ = pool.dispatch(GatedJob { tok: i as u64, started: started.clone(), ran: ran.clone(), gate: gate.clone() });
        }
        wait_for(|| started.load(SeqCst) == m, DEADLINE);
        let open = Arc::new(AtomicU64::new(1));
        let job = GatedJob { tok: 77, started: Arc::new(AtomicUsize::new(0)), ran: faulted_ran.clone(), gate: open };
        let (r, c) = with_as_limit(|| {
            let r = catch_unwind(AssertUnwindSafe(|| pool.dispatch(job)));
            let c = std::thread::Builder::new().spawn(|| {});
            (r, c)
        });
        control = c.is_err() as u64;
        if let Ok(h) = c {
            let _ = h.join();
        }
        outcome = match r {
            Err(_) => 1,
            Ok(Err(e)) => {
                if e.0.tok == 77 {
                    2
                } else {
                    4
                }
            }
            Ok(Ok(())) => 3,
        };
        gate.store(1, SeqCst);
        ran_after = if outcome == 3 {
            wait_for(|| faulted_ran.load(SeqCst) == 1, Duration::from_secs(20)) as u64
        } else {
            std::thread::sleep(Duration::from_millis(20));
            faulted_ran.load(SeqCst)
        };
        wait_for(|| ran.load(SeqCst) == m as u64, DEADLINE);
        recovered = pool_recovers(&pool, l, tmo);
    } else {
        let mut builder = ProactorBuilder::new();
        builder
            .driver_type(if drv == 0 { DriverType::IoUring } else { DriverType::Poll })
            .thread_pool_limit(l)
            .thread_pool_recv_timeout(tmo);
        let Ok(mut p) = builder.build() else {
            println!("0 0 0 2");
            return;
        };
        let fr = faulted_ran.clone();
        let f: BlockFn = Box::new(move || {
            fr.fetch_add(1, SeqCst);
            BufResult(Ok(5), 5)
        });
        let op = Asyncify::new(f);
        let (r, c) = with_as_limit(|| {
            let r = catch_unwind(AssertUnwindSafe(|| p.push(op)));
            let c = std::thread::Builder::new().spawn(|| {});
            (r, c)
        });
        control = c.is_err() as u64;
        if let Ok(h) = c {
            let _ = h.join();
        }
        match r {
            Err(_) => {
                // the panic came out of Proactor::push: visible to the submitter
                outcome = 1;
                ran_after = faulted_ran.load(SeqCst);
                std::mem::forget(p);
            }
            Ok(PushEntry::Ready(_)) => {
                outcome = 3;
                ran_after = 1;
            }
            Ok(PushEntry::Pending(key)) => {
                outcome = 3;
                // accepted: the operation must complete
                let t0 = Instant::now();
                let mut slot = Some(key);
                let mut done = 0;
                while t0.elapsed() < Duration::from_secs(20) && done == 0 {
                    let _ = p.poll(Some(Duration::from_millis(20)));
                    if let Some(k) = slot.take() {
                        match catch_unwind(AssertUnwindSafe(|| p.pop(k))) {
                            Ok(PushEntry::Pending(k)) => slot = Some(k),
                            _ => done = 1, // a result, or the panic re-raised at the submitter
                        }
                    }
                }
                ran_after = done;
                std::mem::forget(slot);
            }
        }
        recovered = 2;
    }
    println!("{outcome} {control} {ran_after} {recovered}");
}

fn mode5(l: u64, tmo_ms: u64, sub: u64, m: u64, drv: u64) -> Vec<u64> {
    use std::process::{Command, Stdio};
    let exe = std::env::current_exe().expect("current_exe");
    let child = Command::new(exe)
        .arg("--fault-child")
        .args([sub, l, tmo_ms, m, drv].map(|x| x.to_string()))
        .stdin(Stdio::null())
        .stdout(Stdio::piped())
        .stderr(Stdio::null())
        .spawn();
    let mut extra = [0u64; 4];
    let mut hang = 0;
    if let Ok(mut child) = child {
        let t0 = Instant::now();
        let status = loop {
            match child.try_wait() {
                Ok(Some(st)) => break Some(st),
                Ok(None) if t0.elapsed() > WATCHDOG + WATCHDOG => {
                    let _ = child.kill();
                    let _ = child.wait();
                    break None;
                }
                Ok(None) => std::thread::sleep(Duration::from_millis(5)),
                Err(_) => break None,
            }
        };
        if status.is_none() {
            hang = 1;
        }
        let mut out = String::new();
        if let Some(mut so) = child.stdout.take() {
            use std::io::Read;
            let _ = so.read_to_string(&mut out);
        }
        let v: Vec<u64> = out.split_whitespace().filter_map(|t| t.parse().ok()).collect();
        if v.len() == 4 {
            extra.copy_from_slice(&v);
        }
    }
    let mut out = vec![0, 0, 0, l, hang, 0, 1];
    out.extend_from_slice(&extra);
    out
}

static SERIAL: Mutex<()> = Mutex::new(());

fn run(case: &[u64]) -> Result<Vec<u64>, BadCase> {
    let mut c = Case::new(case);
    let mode = c.take()?;
    let l = c.take()?;
    let tmo_ms = c.take()?;
    if !(1..=8).contains(&l) || tmo_ms > 100 {
        return Err(BadCase);
    }
    if mode == 5 {
        let sub = c.take()?;
        let m = c.take()?;
        let drv = c.take()?;
        if sub > 1 || m >= l || drv > 1 || c.i != case.len() {
            return Err(BadCase);
        }
        return Ok(mode5(l, tmo_ms, sub, m, drv));
    }
    let tmo = Duration::from_millis(tmo_ms);
    let us = |x: u64| if x > 60_000 { Err(BadCase) } else { Ok(x) };
    let (d_n, job): (u64, Box<dyn FnOnce() -> Result<CaseOut, BadCase> + Send>) = match mode {
        0 => {
            let d_n = c.take()?;
            let np = c.take()?;
            if !(1..=4).contains(&d_n) || np > 6 {
                return Err(BadCase);
            }
            let mut phases = vec![];
            let mut total = 0;
            for _ in 0..np {
                let gap = c.take()?;
                let nj = c.take()?;
                total += nj;
                if gap > 200 || total > 40 {
                    return Err(BadCase);
                }
                let mut js = vec![];
                for _ in 0..nj {
                    let d = c.take()?;
                    let dur = us(c.take()?)?;
                    let pre = us(c.take()?)?;
                    if d >= d_n {
                        return Err(BadCase);
                    }
                    js.push((d, dur, pre));
                }
                phases.push((gap, js));
            }
            (d_n, Box::new(move || Ok(mode0(l as usize, tmo, d_n, phases))))
        }
        1 => {
            let d_n = c.take()?;
            let dur_ms = c.take()?;
            let hold_ms = c.take()?;
            if !(1..=4).contains(&d_n) || dur_ms > 60 || hold_ms > 200 {
                return Err(BadCase);
            }
            (d_n, Box::new(move || Ok(mode1(l as usize, tmo, d_n, dur_ms, hold_ms))))
        }
        2 => {
            let r_n = c.take()?;
            let drv = c.take()?;
            let nj = c.take()?;
            if !(1..=4).contains(&r_n) || drv > 1 || nj > 24 {
                return Err(BadCase);
            }
            let mut specs = vec![];
            for _ in 0..nj {
                let r = c.take()?;
                let p = c.take()?;
                let dur = us(c.take()?)?;
                if r >= r_n || p > 1 {
                    return Err(BadCase);
                }
                specs.push((r, p == 1, dur));
            }
            (r_n, Box::new(move || mode2(l as usize, tmo, r_n, drv, specs)))
        }
        3 => {
            let nj = c.take()?;
            if nj > 24 {
                return Err(BadCase);
            }
            let mut specs = vec![];
            for _ in 0..nj {
                let p = c.take()?;
                let dur = us(c.take()?)?;
                if p > 1 {
                    return Err(BadCase);
                }
                specs.push((0, p == 1, dur));
            }
            (1, Box::new(move || mode3(l as usize, tmo, specs)))
        }
        4 => {
            let drv = c.take()?;
            let k = c.take()?;
            let rounds = c.take()?;
            let dur = us(c.take()?)?;
            if drv > 1 || !(1..=4).contains(&k) || k > l || rounds == 0 || rounds > 1000 || dur > 20_000 {
                return Err(BadCase);
            }
            (1, Box::new(move || mode4(l as usize, tmo, drv, k, rounds, dur)))
        }
        _ => return Err(BadCase),
    };
    if c.i != case.len() {
        return Err(BadCase);
    }
    // the event log and the scheduling points are process-wide
    let _g = SERIAL.lock().unwrap_or_else(|e| e.into_inner());
    let (tx, rx) = mpsc::channel();
    std::thread::spawn(move || {
        let _ = tx.send(job());
    });
    // watchdog: nothing may hang
    match rx.recv_timeout(WATCHDOG) {
        Ok(Ok(out)) => {
            let hang = out.jobs.iter().any(|j| j.status.load(SeqCst) == 0) as u64;
            Ok(encode(&out, l, d_n, hang))
        }
        Ok(Err(e)) => Err(e),
        Err(_) => {
            verif::block(10, false);
            let _ = verif::take();
            Ok(vec![0, 0, 0, l, 1, 0, d_n, 0, 0, 0, 0])
        }
    }
}

fn main() {
    let args: Vec<String> = std::env::args().collect();
    if args.get(1).map(|s| s.as_str()) == Some("--fault-child") {
        fault_child(&args[2..]);
        return;
    }
    main_loop(run);
}
