//! C09 correspondence harness (timers).  Case format: see coq/model/RunC09.v.
//!
//! mode 1  exact differential part: the real timer wheel
//!         (compio_runtime::time::verif::Wheel = TimerRuntime behind the
//!         cfg(compio_verif) forwarding shims) driven with harness-chosen
//!         deadlines `base + d*S`; the wheel reads the real clock, so every step
//!         is executed strictly inside the real-time slot `(base + t*S,
//!         base + (t+1)*S)` the case names (spin-wait; a step that leaves its
//!         slot makes the attempt indeterminate and the case is re-run with a
//!         larger S).  Deadlines are slot boundaries, so the outcome of every
//!         operation is a function of the slot only.
//! mode 2  end-to-end part on a real compio_runtime::Runtime: one-sided oracles
//!         that need no tolerance (never early: exact; completes within the
//!         watchdog; nothing left in the wheel).  Results that depend on timing
//!         are printed as the nominal value and counted as indeterminate when
//!         the measured one differs.
//! mode 3  Interval::tick arithmetic read back exactly from the runtime's wheel.
//! mode 4  Runtime::poll_with / Runtime::poll called by hand on a real Runtime
//!         (slot clock as in mode 1), with and without an I/O completion waiting
//!         for the driver: which sleeps are woken by each turn.
//! mode 6  timers (sleep_until / timeout_at / timeout / sleep) next to a task that
//!         keeps completions flowing through the driver (pipe or socketpair
//!         ping-pong between two tasks, cross-thread wakes, spawn_blocking
//!         results, inline file operations) until well after the last deadline:
//!         every timer must fire while the traffic is still running.  Lateness
//!         is judged in traffic rounds (each needs a driver poll), not wall time.
//! mode 5  Interval starting in the future whose first tick is dropped several
//!         times: the deadline of each attempt, read back from the wheel.
use std::{
    collections::HashMap,
    future::Future,
    os::fd::AsRawFd,
    pin::Pin,
    sync::{
        Arc, Mutex, OnceLock,
        atomic::{AtomicBool, AtomicU64, Ordering},
        mpsc,
    },
    task::{Context, Poll, Wake, Waker},
    time::{Duration, Instant},
};

use compio_driver::{DriverType, ProactorBuilder};
use compio_io::{AsyncRead, AsyncReadAt, AsyncReadExt, AsyncWriteAt, AsyncWriteExt};
use compio_runtime::{
    Runtime, RuntimeBuilder,
    time::{
        interval_at, sleep_until, timeout_at,
        verif::{Key, Wheel, runtime_entries},
    },
};
use verif_harness::*;

// ---------------------------------------------------------------------------
// side channel (counts of indeterminate steps / retries for the evidence)

fn side(line: String) {
    if let Ok(p) = std::env::var("VERIF_C09_SIDE") {
        use std::io::Write;
        if let Ok(mut f) = std::fs::OpenOptions::new().create(true).append(true).open(p) {
            let _ = f.write_all(format!("{line}\n").as_bytes());
        }
    }
}

// ---------------------------------------------------------------------------
// mode 1: the wheel itself

struct IdWaker {
    id: u64,
    log: Arc<Mutex<Vec<u64>>>,
}

impl Wake for IdWaker {
    fn wake(self: Arc<Self>) {
        self.log.lock().unwrap().push(self.id);
    }
}

#[derive(Clone, Copy)]
enum AStep {
    Insert(u64, u64),
    SetWaker(u64, usize, usize),
    Cancel(u64, usize),
    MinTimeout(u64),
    Wake(u64),
    Poll(u64, usize, usize),
    Loop(u64, u64),
}

const MAX_T: u64 = 63;
const MAX_D: u64 = 100_000;
const N_WAKERS: u64 = 16;

fn decode_a(c: &mut Case) -> Result<(u64, Vec<AStep>), BadCase> {
    let g0 = c.take()?;
    if g0 > 1000 {
        return Err(BadCase);
    }
    let n = c.take()? as usize;
    let mut steps = Vec::new();
    let mut inserts = 0usize;
    let mut last_t = 0u64;
    let mut time = |t: u64| -> Result<u64, BadCase> {
        if t < last_t || t > MAX_T {
            return Err(BadCase);
        }
        last_t = t;
        Ok(t)
    };
    for _ in 0..n {
        let op = c.take()?;
        let t = time(c.take()?)?;
        let mut key = |c: &mut Case| -> Result<usize, BadCase> {
            let i = c.take()? as usize;
            if i >= inserts { Err(BadCase) } else { Ok(i) }
        };
        let st = match op {
            1 => {
                let d = c.take()?;
                if d > MAX_D {
                    return Err(BadCase);
                }
                inserts += 1;
                AStep::Insert(t, d)
            }
            2 => {
                let i = key(c)?;
                let wk = c.take()?;
                if wk >= N_WAKERS {
                    return Err(BadCase);
                }
                AStep::SetWaker(t, i, wk as usize)
            }
            3 => AStep::Cancel(t, key(c)?),
            4 => AStep::MinTimeout(t),
            5 => AStep::Wake(t),
            6 => {
                let i = key(c)?;
                let wk = c.take()?;
                if wk >= N_WAKERS {
                    return Err(BadCase);
                }
                AStep::Poll(t, i, wk as usize)
            }
            7 => {
                let t2 = time(c.take()?)?;
                AStep::Loop(t, t2)
            }
            _ => return Err(BadCase),
        };
        steps.push(st);
    }
    if c.i != c.v.len() {
        return Err(BadCase);
    }
    Ok((g0, steps))
}

/// One attempt with slot length `s`.  `None`: some step left its slot.
fn attempt_a(g0: u64, steps: &[AStep], s: Duration) -> Option<Vec<u64>> {
    let log = Arc::new(Mutex::new(Vec::new()));
    let wakers: Vec<Waker> = (0..N_WAKERS)
        .map(|id| Waker::from(Arc::new(IdWaker { id, log: log.clone() })))
        .collect();
    let gen0 = if g0 == 0 { 0 } else { u64::MAX - (g0 - 1) };
    let mut w = Wheel::new();
    w.set_generation(gen0);
    let mut keys: Vec<Option<Key>> = Vec::new();
    let mut out = vec![0u64];
    let sn = s.as_nanos();
    let base = Instant::now() + Duration::from_micros(30);
    let at = |k: u64| base + Duration::from_nanos((sn * k as u128) as u64);
    // wait until the clock is inside slot t; false if the slot is (nearly) over
    let enter = |t: u64| -> bool {
        let lo = at(t) + s / 8;
        let hi = at(t + 1) - s / 4;
        loop {
            let now = Instant::now();
            if now >= hi {
                return false;
            }
            if now >= lo {
                return true;
            }
            std::hint::spin_loop();
        }
    };
    let inside = |t: u64| Instant::now() < at(t + 1);
    let min_timeout = |w: &Wheel, out: &mut Vec<u64>| {
        let before = Instant::now();
        let mt = w.min_timeout();
        let after = Instant::now();
        match mt {
            None => out.push(0),
            Some(d) if d.is_zero() => out.push(2),
            Some(d) => {
                // deadline - after <= d <= deadline - before, deadline = base + j*S
                let lo = (before - base).as_nanos() + d.as_nanos();
                let hi = (after - base).as_nanos() + d.as_nanos();
                let j = lo.div_ceil(sn);
                if j * sn <= hi {
                    out.extend([1, j as u64]);
                } else {
                    out.extend([7, 0]);
                }
            }
        }
    };
    let wake = |w: &mut Wheel, out: &mut Vec<u64>| {
        log.lock().unwrap().clear();
        w.wake();
        let l = log.lock().unwrap();
        out.push(l.len() as u64);
        out.extend(l.iter().copied());
    };
    for st in steps {
        match *st {
            AStep::Insert(t, d) => {
                if !enter(t) {
                    return None;
                }
                let k = w.insert(at(d));
                out.push(k.is_some() as u64);
                keys.push(k);
                if !inside(t) {
                    return None;
                }
            }
            AStep::SetWaker(_, i, wk) => {
                if let Some(k) = &keys[i] {
                    w.update_waker(k, &wakers[wk]);
                }
                out.push(0);
            }
            AStep::Cancel(_, i) => {
                if let Some(k) = &keys[i] {
                    w.cancel(k);
                }
                out.push(0);
            }
            AStep::MinTimeout(t) => {
                if !enter(t) {
                    return None;
                }
                min_timeout(&w, &mut out);
                if !inside(t) {
                    return None;
                }
            }
            AStep::Wake(t) => {
                if !enter(t) {
                    return None;
                }
                wake(&mut w, &mut out);
                if !inside(t) {
                    return None;
                }
            }
            AStep::Poll(_, i, wk) => {
                // Sleep::poll: no timer => Ready
                let r = match &keys[i] {
                    None => true,
                    Some(k) => {
                        let mut cx = Context::from_waker(&wakers[wk]);
                        let r = w.poll_timer(&mut cx, k).is_ready();
                        assert_eq!(r, w.is_completed(k));
                        r
                    }
                };
                out.push(r as u64);
            }
            AStep::Loop(t1, t2) => {
                if !enter(t1) {
                    return None;
                }
                min_timeout(&w, &mut out);
                if !inside(t1) {
                    return None;
                }
                if !enter(t2) {
                    return None;
                }
                wake(&mut w, &mut out);
                if !inside(t2) {
                    return None;
                }
            }
        }
    }
    let es = w.entries();
    out.push(w.generation().wrapping_sub(gen0));
    out.push(es.len() as u64);
    for (dl, g, wk) in es {
        let off = (dl - base).as_nanos();
        out.push(if off % sn == 0 { (off / sn) as u64 } else { 77777 });
        out.push(g.wrapping_sub(gen0));
        out.push(match wk {
            None => 0,
            Some(wk) => match wakers.iter().position(|x| x.will_wake(&wk)) {
                Some(id) => id as u64 + 1,
                None => 99,
            },
        });
    }
    Some(out)
}

fn run_a(c: &mut Case) -> Result<Vec<u64>, BadCase> {
    let (g0, steps) = decode_a(c)?;
    let mut s = Duration::from_micros(200);
    for attempt in 0..12 {
        if let Some(out) = attempt_a(g0, &steps, s) {
            if attempt > 0 {
                side(format!("A retries {attempt}"));
            }
            return Ok(out);
        }
        s *= 2;
    }
    side("A gave-up 1".to_string());
    Ok(vec![3])
}

// ---------------------------------------------------------------------------
// small future helpers

async fn poll_once<F: Future + ?Sized>(f: &mut Pin<Box<F>>) -> Poll<F::Output> {
    std::future::poll_fn(|cx| Poll::Ready(f.as_mut().poll(cx))).await
}

/// counts polls and remembers the number of polls that returned Ready
struct Counted<F: ?Sized> {
    polls: Arc<AtomicU64>,
    fut: Pin<Box<F>>,
}

impl<F: Future + ?Sized> Future for Counted<F> {
    type Output = F::Output;

    fn poll(mut self: Pin<&mut Self>, cx: &mut Context<'_>) -> Poll<Self::Output> {
        self.polls.fetch_add(1, Ordering::SeqCst);
        self.fut.as_mut().poll(cx)
    }
}

/// completes when another thread sets the flag and wakes the stored waker
struct Flag {
    ready: AtomicBool,
    waker: Mutex<Option<Waker>>,
}

struct FlagFuture(Arc<Flag>);

impl Future for FlagFuture {
    type Output = ();

    fn poll(self: Pin<&mut Self>, cx: &mut Context<'_>) -> Poll<()> {
        if self.0.ready.load(Ordering::SeqCst) {
            return Poll::Ready(());
        }
        *self.0.waker.lock().unwrap() = Some(cx.waker().clone());
        if self.0.ready.load(Ordering::SeqCst) {
            Poll::Ready(())
        } else {
            Poll::Pending
        }
    }
}

struct YieldOnce(bool);

impl Future for YieldOnce {
    type Output = ();

    fn poll(mut self: Pin<&mut Self>, cx: &mut Context<'_>) -> Poll<()> {
        if self.0 {
            Poll::Ready(())
        } else {
            self.0 = true;
            cx.waker().wake_by_ref();
            Poll::Pending
        }
    }
}

// ---------------------------------------------------------------------------
// mode 2: programs on a real Runtime

const U_MS: u64 = 40; // one deadline slot
const Q_MS: u64 = 10; // nominal time unit (quarter slot)
const WATCHDOG: Duration = Duration::from_secs(5);
const MAX_SLOT: u64 = 12;

#[derive(Clone, Copy)]
enum BStep {
    SpawnSleep(u64),
    AwaitSleep(u64),
    CreatePollDrop(u64),
    Timeout(u64, u64, u64),
    Interval(u64, u64, u64, u64),
    PipeIo(u64),
    Join(usize),
    SelectDrop(u64, u64),
    Yields(u64),
    Busy(u64, u64),
    IntervalCancel(u64, u64, u64, u64),
}

fn decode_b(c: &mut Case) -> Result<(u64, Vec<BStep>), BadCase> {
    let drv = c.take()?;
    if drv > 1 {
        return Err(BadCase);
    }
    let n = c.take()? as usize;
    let mut steps = Vec::new();
    let mut joined: Vec<bool> = Vec::new();
    let slot = |x: u64| if x > MAX_SLOT { Err(BadCase) } else { Ok(x) };
    for _ in 0..n {
        let st = match c.take()? {
            1 => {
                joined.push(false);
                BStep::SpawnSleep(slot(c.take()?)?)
            }
            2 => BStep::AwaitSleep(slot(c.take()?)?),
            3 => BStep::CreatePollDrop(slot(c.take()?)?),
            4 => {
                let d = slot(c.take()?)?;
                let r = slot(c.take()?)?;
                let k = c.take()?;
                if k > 2 {
                    return Err(BadCase);
                }
                BStep::Timeout(d, r, k)
            }
            5 => {
                let s = slot(c.take()?)?;
                let p = c.take()?;
                let n = c.take()?;
                let g = c.take()?;
                if p > 16 || n > 6 || g > 30 {
                    return Err(BadCase);
                }
                BStep::Interval(s, p, n, g)
            }
            6 => {
                let nb = c.take()?;
                if nb == 0 || nb > 4096 {
                    return Err(BadCase);
                }
                BStep::PipeIo(nb)
            }
            7 => {
                let j = c.take()? as usize;
                if j >= joined.len() || joined[j] {
                    return Err(BadCase);
                }
                joined[j] = true;
                BStep::Join(j)
            }
            8 => BStep::SelectDrop(slot(c.take()?)?, slot(c.take()?)?),
            9 => {
                let k = c.take()?;
                if k > 50 {
                    return Err(BadCase);
                }
                BStep::Yields(k)
            }
            10 => {
                let d = slot(c.take()?)?;
                let k = c.take()?;
                if k > 3 {
                    return Err(BadCase);
                }
                BStep::Busy(d, k)
            }
            11 => {
                let s = slot(c.take()?)?;
                let p = c.take()?;
                let cn = c.take()?;
                let n = c.take()?;
                if p > 16 || cn > 4 || n > 5 {
                    return Err(BadCase);
                }
                BStep::IntervalCancel(s, p, cn, n)
            }
            _ => return Err(BadCase),
        };
        steps.push(st);
    }
    if c.i != c.v.len() {
        return Err(BadCase);
    }
    Ok((drv, steps))
}

fn timer_count() -> u64 {
    Runtime::with_current(|rt| runtime_entries(rt).len() as u64)
}

/// never early (exact) and within the watchdog of the moment it was due
fn judge(done: Instant, deadline: Instant, asked: Instant) -> u64 {
    if done < deadline {
        71
    } else if done.saturating_duration_since(deadline.max(asked)) >= WATCHDOG {
        72
    } else {
        1
    }
}

/// a delivered tick: start + k * period, the first one start itself, advancing,
/// not handed out before its time
fn tick_code(
    t: Instant,
    start: Instant,
    period: Duration,
    prev: Option<Instant>,
    done: Instant,
    asked: Instant,
) -> u64 {
    let aligned = t >= start && (t - start).as_nanos() % period.as_nanos() == 0;
    if !aligned {
        75
    } else if prev.is_none() && t != start {
        80
    } else if prev.is_some_and(|p| t <= p) {
        76
    } else {
        judge(done, t, asked)
    }
}

/// an operation that completes at submission: write to /dev/null or read of /dev/zero
async fn inline_op(null: &compio_fs::File, zero: &compio_fs::File, read: bool) {
    if read {
        let (n, _) = zero.read_at(Vec::with_capacity(8), 0).await.unwrap();
        assert_eq!(n, 8);
    } else {
        let mut f = null;
        let (n, _) = f.write_at(vec![7u8; 8], 0).await.unwrap();
        assert_eq!(n, 8);
    }
}

async fn program_b(steps: Vec<BStep>, indet: Arc<AtomicU64>) -> Vec<u64> {
    let mut out = vec![0u64];
    let base = Instant::now() + Duration::from_millis(3);
    let slot = |d: u64| base + Duration::from_millis(d * U_MS);
    let half = |r: u64| base + Duration::from_millis(r * U_MS + U_MS / 2);
    let mut cur: u64 = 0; // nominal lower bound of the elapsed time, in Q units
    let mut sleepers: Vec<(u64, Instant, Option<compio_runtime::JoinHandle<Instant>>)> = Vec::new();
    let mut helpers: Vec<std::thread::JoinHandle<()>> = Vec::new();
    let mut keep_pipes = Vec::new();
    let needs_files = steps.iter().any(|s| matches!(s, BStep::Busy(..)));
    let files = if needs_files {
        let null = compio_fs::OpenOptions::new().write(true).open("/dev/null").await.unwrap();
        let zero = compio_fs::File::open("/dev/zero").await.unwrap();
        Some((null, zero))
    } else {
        None
    };
    for st in steps {
        match st {
            BStep::SpawnSleep(d) => {
                let dl = slot(d);
                let h = compio_runtime::spawn(async move {
                    sleep_until(dl).await;
                    Instant::now()
                });
                sleepers.push((d, Instant::now(), Some(h)));
                out.push(1);
            }
            BStep::AwaitSleep(d) => {
                let dl = slot(d);
                let asked = Instant::now();
                sleep_until(dl).await;
                out.push(judge(Instant::now(), dl, asked));
                cur = cur.max(4 * d);
            }
            BStep::CreatePollDrop(d) => {
                let n0 = timer_count();
                let mut s = Box::pin(sleep_until(slot(d)));
                let _ = poll_once(&mut s).await;
                drop(s);
                let n1 = timer_count();
                out.push(if n0 == n1 { 1 } else { 73 });
            }
            BStep::Timeout(d, r, kind) => {
                let dl = slot(d);
                let ready_at = half(r);
                let (dlq, riq) = (4 * d, 4 * r + 2);
                let nominal_ok = if riq <= cur {
                    true
                } else if dlq <= cur {
                    false
                } else {
                    riq < dlq
                };
                let inner_polls = Arc::new(AtomicU64::new(0));
                let inner: Pin<Box<dyn Future<Output = ()>>> = match kind {
                    0 => Box::pin(sleep_until(ready_at)),
                    1 => {
                        let (mut rx, tx) = compio_fs::pipe::anonymous().await.unwrap();
                        let fd = unsafe { libc::dup(tx.as_raw_fd()) };
                        helpers.push(std::thread::spawn(move || {
                            std::thread::sleep(ready_at.saturating_duration_since(Instant::now()));
                            let b = [7u8];
                            unsafe {
                                libc::write(fd, b.as_ptr() as *const _, 1);
                                libc::close(fd);
                            }
                        }));
                        keep_pipes.push(tx);
                        Box::pin(async move {
                            let (n, _) = rx.read(Vec::with_capacity(1)).await.unwrap();
                            assert_eq!(n, 1);
                        })
                    }
                    _ => {
                        let flag = Arc::new(Flag {
                            ready: AtomicBool::new(false),
                            waker: Mutex::new(None),
                        });
                        let f2 = flag.clone();
                        helpers.push(std::thread::spawn(move || {
                            std::thread::sleep(ready_at.saturating_duration_since(Instant::now()));
                            f2.ready.store(true, Ordering::SeqCst);
                            if let Some(w) = f2.waker.lock().unwrap().take() {
                                w.wake();
                            }
                        }));
                        Box::pin(FlagFuture(flag))
                    }
                };
                let inner = Counted { polls: inner_polls.clone(), fut: inner };
                let outer_polls = Arc::new(AtomicU64::new(0));
                let asked = Instant::now();
                let res = Counted {
                    polls: outer_polls.clone(),
                    fut: Box::pin(timeout_at(dl, inner)),
                }
                .await;
                let done = Instant::now();
                let ok = res.is_ok();
                let code = if !ok && done < dl {
                    71 // Elapsed before the deadline
                } else if ok && done < ready_at {
                    71 // the inner future's own timer / helper fired early
                } else if inner_polls.load(Ordering::SeqCst) != outer_polls.load(Ordering::SeqCst) {
                    74 // inner future not polled (first) on every poll
                } else if done.saturating_duration_since(dl.min(ready_at).max(asked)) >= WATCHDOG {
                    72
                } else if kind == 0 && riq <= cur && !ok {
                    79 // inner was certainly ready at the first poll
                } else {
                    if ok != nominal_ok {
                        indet.fetch_add(1, Ordering::SeqCst);
                    }
                    if nominal_ok { 0 } else { 1 }
                };
                out.push(code);
                cur = cur.max(dlq.min(riq));
            }
            BStep::Interval(s, p, n, g) => {
                let start = slot(s);
                let period = Duration::from_millis(p * Q_MS);
                let mut iv = interval_at(start, period);
                let mut prev: Option<Instant> = None;
                for _ in 0..n {
                    let asked = Instant::now();
                    let prev_none = prev.is_none();
                    let t = iv.tick().await;
                    let done = Instant::now();
                    out.push(tick_code(t, start, period, prev, done, asked));
                    prev = Some(t);
                    // nominal lower bound of the time this tick completes at
                    cur = if prev_none { cur.max(4 * s) } else { 4 * s + ((cur - 4 * s) / p + 1) * p };
                    if g > 0 {
                        std::thread::sleep(Duration::from_millis(g));
                    }
                }
            }
            BStep::PipeIo(nb) => {
                let (mut rx, mut tx) = compio_fs::pipe::anonymous().await.unwrap();
                let data: Vec<u8> = (0..nb).map(|i| (i % 251) as u8).collect();
                let expect = data.clone();
                tx.write_all(data).await.unwrap();
                let (_, got) = rx.read_exact(Vec::with_capacity(nb as usize)).await.unwrap();
                out.push(if got == expect { 1 } else { 70 });
            }
            BStep::Join(j) => {
                let (d, asked, h) = &mut sleepers[j];
                let done = h.take().unwrap().await.unwrap();
                out.push(judge(done, slot(*d), *asked));
                cur = cur.max(4 * *d);
            }
            BStep::SelectDrop(a, b) => {
                let (da, db) = (slot(a), slot(b));
                let asked = Instant::now();
                let e = futures_util::future::select(
                    Box::pin(sleep_until(da)),
                    Box::pin(sleep_until(db)),
                )
                .await;
                let done = Instant::now();
                drop(e);
                out.push(judge(done, da.min(db), asked));
                cur = cur.max(4 * a.min(b));
            }
            BStep::Busy(d, kind) => {
                let dl = slot(d);
                let asked = Instant::now();
                let guard = dl.max(asked) + WATCHDOG;
                let (null, zero) = files.as_ref().unwrap();
                let code = match kind {
                    0 | 1 => {
                        // a Timeout around a loop of operations that complete inline:
                        // every driver poll finds a completion
                        let busy = async {
                            while Instant::now() < guard {
                                inline_op(null, zero, kind == 1).await;
                            }
                        };
                        let res = timeout_at(dl, busy).await;
                        let done = Instant::now();
                        if res.is_ok() {
                            72
                        } else if done < dl {
                            71
                        } else {
                            judge(done, dl, asked)
                        }
                    }
                    2 => {
                        // the main task sleeps next to a task that keeps the driver busy
                        let stop = std::rc::Rc::new(std::cell::Cell::new(false));
                        let (stop2, null2, zero2) = (stop.clone(), null.clone(), zero.clone());
                        let h = compio_runtime::spawn(async move {
                            while !stop2.get() && Instant::now() < guard {
                                inline_op(&null2, &zero2, false).await;
                            }
                        });
                        sleep_until(dl).await;
                        let done = Instant::now();
                        stop.set(true);
                        let _ = h.await;
                        judge(done, dl, asked)
                    }
                    _ => {
                        // a spawned sleeper; the main task keeps the driver busy
                        let at = std::rc::Rc::new(std::cell::Cell::new(None));
                        let at2 = at.clone();
                        let h = compio_runtime::spawn(async move {
                            sleep_until(dl).await;
                            at2.set(Some(Instant::now()));
                        });
                        while at.get().is_none() && Instant::now() < guard {
                            inline_op(null, zero, true).await;
                        }
                        match at.get() {
                            Some(done) => {
                                let _ = h.await;
                                judge(done, dl, asked)
                            }
                            None => 72,
                        }
                    }
                };
                out.push(code);
                cur = cur.max(4 * d);
            }
            BStep::IntervalCancel(s, p, cn, n) => {
                let start = slot(s);
                let period = Duration::from_millis(p * Q_MS);
                let mut iv = interval_at(start, period);
                let mut ft = false; // nominal "first tick delivered"
                let mut prev: Option<Instant> = None;
                for _ in 0..cn {
                    let tdl = if !ft { 4 * s } else { 4 * s + ((cur - 4 * s) / p + 1) * p };
                    let cq = cur + 1;
                    let nominal_ok = tdl <= cq;
                    let cancel_at = base + Duration::from_millis(cq * Q_MS);
                    let asked = Instant::now();
                    let res = timeout_at(cancel_at, iv.tick()).await;
                    let done = Instant::now();
                    let check = match res {
                        Ok(t) => {
                            let c = tick_code(t, start, period, prev, done, asked);
                            prev = Some(t);
                            c
                        }
                        Err(_) => {
                            if done < cancel_at { 71 } else { 1 }
                        }
                    };
                    if check != 1 {
                        out.push(check);
                    } else {
                        if res.is_ok() != nominal_ok {
                            indet.fetch_add(1, Ordering::SeqCst);
                        }
                        out.push(if nominal_ok { 0 } else { 1 });
                    }
                    cur = if tdl <= cur { cur } else { tdl.min(cq) };
                    if nominal_ok {
                        ft = true;
                    }
                }
                for _ in 0..n {
                    let asked = Instant::now();
                    let t = iv.tick().await;
                    let done = Instant::now();
                    out.push(tick_code(t, start, period, prev, done, asked));
                    prev = Some(t);
                    cur = if !ft { cur.max(4 * s) } else { 4 * s + ((cur - 4 * s) / p + 1) * p };
                    ft = true;
                }
            }
            BStep::Yields(k) => {
                let hs: Vec<_> = (0..k)
                    .map(|i| {
                        compio_runtime::spawn(async move {
                            YieldOnce(false).await;
                            i
                        })
                    })
                    .collect();
                let mut ok = true;
                for (i, h) in hs.into_iter().enumerate() {
                    ok &= h.await.unwrap() == i as u64;
                }
                out.push(ok as u64);
            }
        }
    }
    // every sleeper that was not joined by the program
    for (d, asked, h) in sleepers.iter_mut() {
        if let Some(h) = h.take() {
            let done = h.await.unwrap();
            out.push(judge(done, slot(*d), *asked));
        }
    }
    // nothing may be left in the wheel
    out.push(timer_count());
    drop(keep_pipes);
    for h in helpers {
        let _ = h.join();
    }
    out
}

fn exec_b(drv: u64, steps: Vec<BStep>) -> Vec<u64> {
    let (tx, rx) = mpsc::channel();
    let n_steps = steps.len();
    std::thread::spawn(move || {
        let r = std::panic::catch_unwind(move || {
            let mut pb = ProactorBuilder::new();
            pb.driver_type(if drv == 1 { DriverType::Poll } else { DriverType::IoUring });
            let rt = RuntimeBuilder::new().with_proactor(pb).build().unwrap();
            let indet = Arc::new(AtomicU64::new(0));
            let out = rt.block_on(program_b(steps, indet.clone()));
            (out, indet.load(Ordering::SeqCst))
        });
        let _ = tx.send(r);
    });
    match rx.recv_timeout(Duration::from_secs(25)) {
        Ok(Ok((out, indet))) => {
            side(format!("B steps {n_steps} indeterminate {indet}"));
            out
        }
        Ok(Err(p)) => {
            let msg = if let Some(s) = p.downcast_ref::<&str>() {
                s.to_string()
            } else if let Some(s) = p.downcast_ref::<String>() {
                s.clone()
            } else {
                String::new()
            };
            vec![2, panic_code(&msg)]
        }
        // the program never finished: some timer never fired
        Err(_) => vec![0, 78],
    }
}

static B_TABLE: OnceLock<HashMap<Vec<u64>, Vec<u64>>> = OnceLock::new();

/// all mode-2 and mode-6 cases of the case file are run up front, in parallel
fn precompute_b() -> HashMap<Vec<u64>, Vec<u64>> {
    let args: Vec<String> = std::env::args().collect();
    let start: usize = args.get(2).map(|s| s.parse().unwrap()).unwrap_or(0);
    let text = std::fs::read_to_string(&args[1]).unwrap_or_default();
    type Job = Box<dyn FnOnce() -> Vec<u64> + Send>;
    let mut todo: Vec<(Vec<u64>, Job)> = Vec::new();
    for line in text.lines().skip(start) {
        let case: Vec<u64> = line.split_whitespace().filter_map(|t| t.parse().ok()).collect();
        match case.first() {
            Some(&2) => {
                let mut c = Case::new(&case[1..]);
                if let Ok((drv, steps)) = decode_b(&mut c) {
                    todo.push((case.clone(), Box::new(move || exec_b(drv, steps))));
                }
            }
            Some(&6) => {
                let mut c = Case::new(&case[1..]);
                if let Ok(t) = decode_t(&mut c) {
                    todo.push((case.clone(), Box::new(move || exec_t(t))));
                }
            }
            _ => {}
        }
    }
    let mut table = HashMap::new();
    // at most 32 runtimes at a time
    let mut todo = todo.into_iter().peekable();
    while todo.peek().is_some() {
        let handles: Vec<_> = todo
            .by_ref()
            .take(32)
            .map(|(case, job)| (case, std::thread::spawn(job)))
            .collect();
        for (c, h) in handles {
            table.insert(c, h.join().unwrap_or_else(|_| vec![2, 9]));
        }
    }
    table
}

fn run_b(case: &[u64]) -> Result<Vec<u64>, BadCase> {
    let mut c = Case::new(&case[1..]);
    let (drv, steps) = decode_b(&mut c)?;
    if let Some(r) = B_TABLE.get().and_then(|t| t.get(case)) {
        return Ok(r.clone());
    }
    Ok(exec_b(drv, steps))
}

// ---------------------------------------------------------------------------
// mode 6: timers while other tasks keep the driver busy

#[derive(Clone)]
struct TCase {
    drv: u64,
    traffic: u64,
    extra: u64,
    timers: Vec<(u64, u64)>,
}

fn decode_t(c: &mut Case) -> Result<TCase, BadCase> {
    let (drv, traffic, extra, k) = (c.take()?, c.take()?, c.take()?, c.take()?);
    if drv > 1 || traffic > 4 || extra > 20 || k == 0 || k > 4 {
        return Err(BadCase);
    }
    let mut timers = Vec::new();
    for _ in 0..k {
        let (d, kind) = (c.take()?, c.take()?);
        if d > 5 || kind > 3 {
            return Err(BadCase);
        }
        timers.push((d, kind));
    }
    if c.i != c.v.len() {
        return Err(BadCase);
    }
    Ok(TCase { drv, traffic, extra, timers })
}

/// rounds the traffic keeps going after it has seen the last deadline pass
const AFTER_ROUNDS: u64 = 200;

struct Traffic {
    rounds: std::cell::Cell<u64>,
    deadlines: Vec<Instant>,
    seen: std::cell::RefCell<Vec<Option<(u64, Instant)>>>, // round / time the deadline was first seen passed
    end: Instant,
    hard_end: Instant,
    by_guard: std::cell::Cell<bool>,
}

impl Traffic {
    /// one round done; true = stop
    fn round(&self) -> bool {
        let r = self.rounds.get() + 1;
        self.rounds.set(r);
        let now = Instant::now();
        let mut seen = self.seen.borrow_mut();
        let mut last = 0;
        let mut all = true;
        for (i, dl) in self.deadlines.iter().enumerate() {
            if seen[i].is_none() && now >= *dl {
                seen[i] = Some((r, now));
            }
            match seen[i] {
                Some((r0, _)) => last = last.max(r0),
                None => all = false,
            }
        }
        if now >= self.hard_end {
            self.by_guard.set(true);
            return true;
        }
        all && now >= self.end && r >= last + AFTER_ROUNDS
    }
}

async fn program_t(t: TCase, indet: Arc<AtomicU64>) -> Vec<u64> {
    use std::{cell::RefCell, rc::Rc};
    let base = Instant::now() + Duration::from_millis(3);
    let deadlines: Vec<Instant> =
        t.timers.iter().map(|(d, _)| base + Duration::from_millis(d * U_MS)).collect();
    let maxdl = *deadlines.iter().max().unwrap();
    let end = maxdl + Duration::from_millis(300 + t.extra * Q_MS);
    let tr = Rc::new(Traffic {
        rounds: std::cell::Cell::new(0),
        deadlines: deadlines.clone(),
        seen: RefCell::new(vec![None; deadlines.len()]),
        end,
        hard_end: end + Duration::from_secs(4),
        by_guard: std::cell::Cell::new(false),
    });
    // the timers, each in its own task
    let fired: Rc<RefCell<Vec<Option<(u64, Instant)>>>> = Rc::new(RefCell::new(vec![None; deadlines.len()]));
    let mut handles = Vec::new();
    for (i, (_, kind)) in t.timers.iter().enumerate() {
        let (dl, kind, tr2, fired2) = (deadlines[i], *kind, tr.clone(), fired.clone());
        handles.push(compio_runtime::spawn(async move {
            match kind {
                0 => sleep_until(dl).await,
                1 => {
                    let r = timeout_at(dl, std::future::pending::<()>()).await;
                    assert!(r.is_err());
                }
                2 => {
                    let r = compio_runtime::time::timeout(
                        dl.saturating_duration_since(Instant::now()),
                        std::future::pending::<()>(),
                    )
                    .await;
                    assert!(r.is_err());
                }
                _ => compio_runtime::time::sleep(dl.saturating_duration_since(Instant::now())).await,
            }
            fired2.borrow_mut()[i] = Some((tr2.rounds.get(), Instant::now()));
        }));
    }
    // the traffic: every round needs the driver to deliver a completion / a wake
    match t.traffic {
        0 => {
            let (mut rx1, mut tx1) = compio_fs::pipe::anonymous().await.unwrap();
            let (mut rx2, mut tx2) = compio_fs::pipe::anonymous().await.unwrap();
            let echo = compio_runtime::spawn(async move {
                loop {
                    let (n, b) = rx1.read(Vec::with_capacity(1)).await.unwrap();
                    if n == 0 || b[0] == 0 {
                        break;
                    }
                    tx2.write_all(b).await.unwrap();
                }
            });
            loop {
                tx1.write_all(vec![1u8]).await.unwrap();
                let (n, _) = rx2.read(Vec::with_capacity(1)).await.unwrap();
                assert_eq!(n, 1);
                if tr.round() {
                    break;
                }
            }
            tx1.write_all(vec![0u8]).await.unwrap();
            let _ = echo.await;
        }
        1 => {
            let (a, b) = std::os::unix::net::UnixStream::pair().unwrap();
            a.set_nonblocking(true).unwrap();
            b.set_nonblocking(true).unwrap();
            let mut a = compio_net::UnixStream::from_std(a).unwrap();
            let mut b = compio_net::UnixStream::from_std(b).unwrap();
            let echo = compio_runtime::spawn(async move {
                loop {
                    let (n, buf) = b.read(Vec::with_capacity(1)).await.unwrap();
                    if n == 0 || buf[0] == 0 {
                        break;
                    }
                    b.write_all(buf).await.unwrap();
                }
            });
            loop {
                a.write_all(vec![1u8]).await.unwrap();
                let (n, _) = a.read(Vec::with_capacity(1)).await.unwrap();
                assert_eq!(n, 1);
                if tr.round() {
                    break;
                }
            }
            a.write_all(vec![0u8]).await.unwrap();
            let _ = echo.await;
        }
        2 => {
            // a stream of wakes from another thread
            let flag = Arc::new(Flag { ready: AtomicBool::new(false), waker: Mutex::new(None) });
            let stop = Arc::new(AtomicBool::new(false));
            let (f2, s2) = (flag.clone(), stop.clone());
            let helper = std::thread::spawn(move || {
                while !s2.load(Ordering::SeqCst) {
                    f2.ready.store(true, Ordering::SeqCst);
                    if let Some(w) = f2.waker.lock().unwrap().take() {
                        w.wake();
                    }
                    std::thread::yield_now();
                }
            });
            loop {
                FlagFuture(flag.clone()).await;
                flag.ready.store(false, Ordering::SeqCst);
                if tr.round() {
                    break;
                }
            }
            stop.store(true, Ordering::SeqCst);
            let _ = helper.join();
        }
        3 => loop {
            compio_runtime::spawn_blocking(|| ()).await.unwrap();
            if tr.round() {
                break;
            }
        },
        _ => {
            let null = compio_fs::OpenOptions::new().write(true).open("/dev/null").await.unwrap();
            let zero = compio_fs::File::open("/dev/zero").await.unwrap();
            loop {
                inline_op(&null, &zero, tr.rounds.get() % 2 == 1).await;
                if tr.round() {
                    break;
                }
            }
        }
    }
    // the traffic has stopped: every timer must have fired by now
    let stop_round = tr.rounds.get();
    let at_stop: Vec<Option<(u64, Instant)>> = fired.borrow().clone();
    for h in handles {
        let _ = h.await;
    }
    let mut out = vec![0u64];
    let (mut late_rounds, mut late_us) = (0u64, 0u64);
    for (i, dl) in deadlines.iter().enumerate() {
        let after = fired.borrow()[i].unwrap();
        let code = match at_stop[i] {
            Some((r, at)) => {
                if at < *dl {
                    71
                } else {
                    if let Some((r0, t0)) = tr.seen.borrow()[i] {
                        late_rounds = late_rounds.max(r.saturating_sub(r0));
                        late_us = late_us.max(at.saturating_duration_since(t0).as_micros() as u64);
                    }
                    1
                }
            }
            None if after.1 < *dl => 71,
            None if tr.by_guard.get() => {
                // the traffic itself did not get its rounds done in 4 s: no verdict
                indet.fetch_add(1, Ordering::SeqCst);
                1
            }
            None => 81, // fired only after the traffic stopped
        };
        out.push(code);
    }
    side(format!(
        "T traffic {} drv {} rounds {} late_rounds {} late_us {}",
        t.traffic, t.drv, stop_round, late_rounds, late_us
    ));
    out.push(timer_count());
    out
}

fn exec_t(t: TCase) -> Vec<u64> {
    let (tx, rx) = mpsc::channel();
    std::thread::spawn(move || {
        let r = std::panic::catch_unwind(move || {
            let mut pb = ProactorBuilder::new();
            pb.driver_type(if t.drv == 1 { DriverType::Poll } else { DriverType::IoUring });
            let rt = RuntimeBuilder::new().with_proactor(pb).build().unwrap();
            let indet = Arc::new(AtomicU64::new(0));
            let out = rt.block_on(program_t(t, indet.clone()));
            (out, indet.load(Ordering::SeqCst))
        });
        let _ = tx.send(r);
    });
    match rx.recv_timeout(Duration::from_secs(25)) {
        Ok(Ok((out, indet))) => {
            side(format!("B steps {} indeterminate {indet}", out.len() - 2));
            out
        }
        Ok(Err(p)) => {
            let msg = if let Some(s) = p.downcast_ref::<&str>() {
                s.to_string()
            } else if let Some(s) = p.downcast_ref::<String>() {
                s.clone()
            } else {
                String::new()
            };
            vec![2, panic_code(&msg)]
        }
        Err(_) => vec![0, 78],
    }
}

fn run_t(case: &[u64]) -> Result<Vec<u64>, BadCase> {
    let mut c = Case::new(&case[1..]);
    let t = decode_t(&mut c)?;
    if let Some(r) = B_TABLE.get().and_then(|t| t.get(case)) {
        return Ok(r.clone());
    }
    Ok(exec_t(t))
}

// ---------------------------------------------------------------------------
// mode 3: Interval::tick arithmetic, read back from the runtime's wheel

fn run_i(c: &mut Case) -> Result<Vec<u64>, BadCase> {
    let (off_s, off_ns, per_s, per_ns) = (c.take()?, c.take()?, c.take()?, c.take()?);
    if c.i != c.v.len() || off_ns >= 1_000_000_000 || per_ns >= 1_000_000_000 {
        return Err(BadCase);
    }
    if off_s > 50_000_000_000 || per_s > 50_000_000_000 {
        return Err(BadCase);
    }
    let off = Duration::new(off_s, off_ns as u32);
    let period = Duration::new(per_s, per_ns as u32);
    let rt = Runtime::new().unwrap();
    let out = rt.block_on(async move {
        let t0 = Instant::now();
        let start = t0 - off;
        let mut iv = interval_at(start, period);
        let first = iv.tick().await;
        let before = Instant::now();
        let mut f = Box::pin(iv.tick());
        let r = poll_once(&mut f).await;
        let after = Instant::now();
        let next = match r {
            Poll::Ready(t) => t,
            Poll::Pending => {
                let es = Runtime::with_current(|rt| runtime_entries(rt));
                if es.len() != 1 {
                    return vec![7, 2, es.len() as u64];
                }
                es[0].0
            }
        };
        drop(f);
        let aligned =
            first == start && next >= start && (next - start).as_nanos() % period.as_nanos() == 0;
        let gt = next > before;
        let le = next <= after + period;
        vec![0, aligned as u64, gt as u64, le as u64, (timer_count() == 0) as u64]
    });
    Ok(out)
}

// ---------------------------------------------------------------------------
// mode 4: one turn of the loop (Runtime::poll_with / Runtime::poll) by hand

#[derive(Clone, Copy)]
enum LStep {
    Sleep(u64, u64),
    Turn(u64, bool, bool),
    Drop(u64, usize),
}

fn decode_l(c: &mut Case) -> Result<(u64, Vec<LStep>), BadCase> {
    let drv = c.take()?;
    if drv > 1 {
        return Err(BadCase);
    }
    let n = c.take()? as usize;
    let mut steps = Vec::new();
    let mut made = 0usize;
    let mut last_t = 0u64;
    for _ in 0..n {
        let op = c.take()?;
        let t = c.take()?;
        if t < last_t || t > MAX_T {
            return Err(BadCase);
        }
        last_t = t;
        steps.push(match op {
            1 => {
                let d = c.take()?;
                if d > MAX_D || made >= 16 {
                    return Err(BadCase);
                }
                made += 1;
                LStep::Sleep(t, d)
            }
            2 => {
                let ans = c.take()?;
                let rem = c.take()?;
                if ans > 1 || rem > 1 || (rem == 0 && ans == 0) {
                    return Err(BadCase);
                }
                LStep::Turn(t, ans == 1, rem == 1)
            }
            3 => {
                let i = c.take()? as usize;
                if i >= made {
                    return Err(BadCase);
                }
                LStep::Drop(t, i)
            }
            _ => return Err(BadCase),
        });
    }
    if c.i != c.v.len() {
        return Err(BadCase);
    }
    Ok((drv, steps))
}

fn attempt_l(drv: u64, steps: &[LStep], s: Duration) -> Option<Vec<u64>> {
    let mut pb = ProactorBuilder::new();
    pb.driver_type(if drv == 1 { DriverType::Poll } else { DriverType::IoUring });
    let rt = RuntimeBuilder::new().with_proactor(pb).build().unwrap();
    let null = rt.block_on(async {
        compio_fs::OpenOptions::new().write(true).open("/dev/null").await.unwrap()
    });
    let log = Arc::new(Mutex::new(Vec::new()));
    let wakers: Vec<Waker> = (0..N_WAKERS)
        .map(|id| Waker::from(Arc::new(IdWaker { id, log: log.clone() })))
        .collect();
    let mut sleeps: Vec<Option<Pin<Box<compio_runtime::time::Sleep>>>> = Vec::new();
    let mut out = vec![0u64];
    let sn = s.as_nanos();
    let base = Instant::now() + Duration::from_micros(100);
    let at = |k: u64| base + Duration::from_nanos((sn * k as u128) as u64);
    let enter = |t: u64| -> bool {
        let lo = at(t) + s / 8;
        let hi = at(t + 1) - s / 2;
        loop {
            let now = Instant::now();
            if now >= hi {
                return false;
            }
            if now >= lo {
                return true;
            }
            std::hint::spin_loop();
        }
    };
    let inside = |t: u64| Instant::now() < at(t + 1);
    for st in steps {
        match *st {
            LStep::Sleep(t, d) => {
                if !enter(t) {
                    return None;
                }
                let id = sleeps.len();
                let (fut, ready) = rt.enter(|| {
                    let mut f = Box::pin(sleep_until(at(d)));
                    let mut cx = Context::from_waker(&wakers[id]);
                    let r = f.as_mut().poll(&mut cx).is_ready();
                    (f, r)
                });
                out.push(ready as u64);
                sleeps.push(Some(fut));
                if !inside(t) {
                    return None;
                }
            }
            LStep::Turn(t, ans, rem) => {
                if !enter(t) {
                    return None;
                }
                let noop = Waker::noop();
                // an operation that completes at submission waits for the driver
                let mut op = if ans {
                    let f = null.clone();
                    let mut fut: Pin<Box<dyn Future<Output = usize>>> = Box::pin(async move {
                        let mut f = &f;
                        f.write_at(vec![1u8], 0).await.0.unwrap()
                    });
                    let pending = rt.enter(|| fut.as_mut().poll(&mut Context::from_waker(noop)).is_pending());
                    if pending { Some(fut) } else { None }
                } else {
                    None
                };
                log.lock().unwrap().clear();
                // poll() blocks until something completes or the nearest deadline: only
                // call it when a completion is really on its way
                if rem || op.is_none() {
                    rt.poll_with(Some(Duration::ZERO));
                } else {
                    rt.poll();
                }
                // let the operation finish (polling driver: it runs on the thread pool)
                let mut tries = 0;
                while let Some(fut) = op.as_mut() {
                    if rt.enter(|| fut.as_mut().poll(&mut Context::from_waker(noop)).is_ready()) {
                        op = None;
                    } else {
                        tries += 1;
                        if tries > 2000 {
                            return None;
                        }
                        rt.poll_with(Some(Duration::from_micros(50)));
                    }
                }
                {
                    let l = log.lock().unwrap();
                    out.push(l.len() as u64);
                    out.extend(l.iter().copied());
                }
                if !inside(t) {
                    return None;
                }
            }
            LStep::Drop(_, i) => {
                sleeps[i] = None;
                out.push(0);
            }
        }
    }
    let es = runtime_entries(&rt);
    out.push(es.len() as u64);
    for (dl, _, _) in es {
        let off = (dl - base).as_nanos();
        out.push(if off % sn == 0 { (off / sn) as u64 } else { 77777 });
    }
    drop(sleeps);
    Some(out)
}

fn run_l(c: &mut Case) -> Result<Vec<u64>, BadCase> {
    let (drv, steps) = decode_l(c)?;
    let mut s = Duration::from_millis(1);
    for attempt in 0..10 {
        if let Some(out) = attempt_l(drv, &steps, s) {
            if attempt > 0 {
                side(format!("A retries {attempt}"));
            }
            return Ok(out);
        }
        s *= 2;
    }
    side("A gave-up 1".to_string());
    Ok(vec![3])
}

// ---------------------------------------------------------------------------
// mode 5: first tick of an Interval dropped several times

fn run_f(c: &mut Case) -> Result<Vec<u64>, BadCase> {
    let (lead_s, lead_ns, per_s, per_ns, cn) = (c.take()?, c.take()?, c.take()?, c.take()?, c.take()?);
    if c.i != c.v.len()
        || lead_ns >= 1_000_000_000
        || per_ns >= 1_000_000_000
        || lead_s < 1
        || lead_s > 50_000_000_000
        || per_s > 50_000_000_000
        || cn > 5
    {
        return Err(BadCase);
    }
    let lead = Duration::new(lead_s, lead_ns as u32);
    let period = Duration::new(per_s, per_ns as u32);
    let rt = Runtime::new().unwrap();
    let out = rt.block_on(async move {
        let start = Instant::now() + lead;
        let mut iv = interval_at(start, period);
        let mut out = vec![0u64];
        for _ in 0..cn {
            let mut f = Box::pin(iv.tick());
            match poll_once(&mut f).await {
                Poll::Ready(_) => out.push(3),
                Poll::Pending => {
                    let es = Runtime::with_current(|rt| runtime_entries(rt));
                    out.push((es.len() == 1 && es[0].0 == start) as u64);
                }
            }
            drop(f);
        }
        out.push((timer_count() == 0) as u64);
        out
    });
    Ok(out)
}

// ---------------------------------------------------------------------------

fn run(case: &[u64]) -> Result<Vec<u64>, BadCase> {
    let mut c = Case::new(case);
    match c.take()? {
        1 => run_a(&mut c),
        2 => run_b(case),
        3 => run_i(&mut c),
        4 => run_l(&mut c),
        5 => run_f(&mut c),
        6 => run_t(case),
        _ => Err(BadCase),
    }
}

fn main() {
    std::panic::set_hook(Box::new(|_| {}));
    B_TABLE.get_or_init(precompute_b);
    main_loop(run)
}
