//! C14 correspondence harness: socket transports deliver exactly what was sent.
//!
//! Loopback peers inside one process on a real `compio_runtime::Runtime`
//! (io_uring or polling driver).  The harness prints a TRANSCRIPT of what the
//! sender offered / the OS accepted and what every receive operation obtained;
//! the extracted Coq reference (coq/model/RunC14.v) replays the transcript,
//! checks it is a legal run of the reference transport and recomputes every
//! buffer content from the position-dependent pattern.
//!
//! case formats (see tools/gen_c14.py, coq/model/RunC14.v):
//!  stream : 1 drv tr split sbuf rbuf plen psize seed nA (k a b)* nB (k a b)* nC (k a b)* nD (k a b)*
//!  dgram  : 2 drv tr plen psize seed nsend window mkind mcount n (skind size sender rkind cap len flags)*
//!  accept : 3 drv tr k mode j
//! output  : 0 nev (tag dir idx a b c d)*      every event is 7 integers
use std::{
    cell::{Cell, RefCell},
    future::Future,
    io,
    num::NonZero,
    pin::Pin,
    rc::Rc,
    task::{Context, Poll, Waker},
    time::Duration,
};

use compio_buf::{BufResult, IntoInner, IoBuf};
use compio_driver::{
    BufferRef, DriverType, ProactorBuilder, SharedFd,
    op::{
        BufResultExt, Recv, RecvFlags, RecvFrom, RecvFromVectored, RecvMsg, RecvMsgMultiResult,
        RecvResultExt, RecvVectored, SendTo, SendToVectored, VecBufResultExt,
    },
};
use compio_io::{
    AsyncRead, AsyncReadManaged, AsyncReadMulti, AsyncWrite, AsyncWriteExt, AsyncWriteZerocopy,
    ancillary::{
        AsyncReadAncillary, AsyncReadAncillaryManaged, AsyncReadAncillaryMulti,
        AsyncWriteAncillary,
    },
};
use compio_net::{
    ReadHalf, TcpListener, TcpStream, UdpSocket, UnixListener, UnixStream, WriteHalf,
};
use compio_runtime::{Runtime, RuntimeBuilder, time::sleep, time::timeout};
use futures_util::{Stream, StreamExt};
use verif_harness::*;

// ---------------------------------------------------------------------------
// shared definitions (the same in RunC14.v and tools/p_c14.py)

const HASH_MASK: u64 = 2147483647;
const DRAIN_CAP: usize = 4096;
// below the 30 s the check's shrinker / replay gives a single case, so that a stall is
// always reported by the harness itself (with what never completed), not by the runner
const WATCHDOG_MS: u64 = 25000;

fn watchdog_ms() -> u64 {
    std::env::var("C14_WATCHDOG_MS").ok().and_then(|s| s.parse().ok()).unwrap_or(WATCHDOG_MS)
}

fn pat(seed: u64, i: u64) -> u8 {
    let v = i + seed;
    let t = v * v;
    (((t >> 3) + (t >> 11) + (v << 3) + (v << 2) + v + (v >> 7)) & 255) as u8
}

fn hash_of(xs: &[u64]) -> u64 {
    let mut h = 7u64;
    for &x in xs {
        h = ((h << 5) + h + x + 1) & HASH_MASK;
    }
    h
}

fn split_sizes(a: usize, b: usize) -> Vec<usize> {
    let b = b.max(1);
    let (q, r) = (a / b, a % b);
    (0..b).map(|i| q + usize::from(i < r)).collect()
}

/// Vec with `len` pattern bytes starting at stream position `pos`, capacity
/// `len + extra`, canaries in the spare part.
fn pat_vec(seed: u64, pos: u64, len: usize, extra: usize) -> Vec<u8> {
    let cap = len + extra;
    let mut v: Vec<u8> = Vec::with_capacity(cap);
    for i in 0..len {
        v.push(pat(seed, pos + i as u64));
    }
    for i in len..cap {
        v.push(canary(i));
    }
    v.truncate(len);
    v
}

fn vec_state(v: &Vec<u8>) -> Vec<u64> {
    let mut o = Vec::new();
    let c = v.capacity();
    enc_vec(&mut o, c, v);
    o
}

fn errno_of(e: &io::Error) -> u64 {
    if std::env::var_os("C14_DEBUG").is_some() {
        eprintln!("error: {e:?}");
    }
    if e.kind() == io::ErrorKind::ResourceBusy {
        // the driver maps ENOBUFS (buffer pool exhausted) to ResourceBusy
        return libc::ENOBUFS as u64;
    }
    e.raw_os_error().map(|x| x as u64).unwrap_or(9000 + code_of(e.kind()))
}

type Ev = [u64; 7];

#[derive(Default)]
struct Log {
    ev: RefCell<Vec<Ev>>,
    /// operations that have been started and have not completed yet
    /// (`[13 dir idx what a b kind]`), printed when the watchdog fires
    pending: RefCell<Vec<Option<Ev>>>,
}

/// what a pending entry waits for
const P_SEND: u64 = 1;
const P_RECV: u64 = 2;
const P_SHUTDOWN: u64 = 3;
const P_ACCEPT: u64 = 4;
const P_CLIENT: u64 = 5;
const P_DG_SEND: u64 = 6;
const P_DG_RECV: u64 = 7;
const P_MULTI: u64 = 8;
const P_SETUP: u64 = 9;

impl Log {
    fn push(&self, e: Ev) -> usize {
        let mut v = self.ev.borrow_mut();
        v.push(e);
        v.len() - 1
    }
    fn set(&self, i: usize, e: Ev) {
        self.ev.borrow_mut()[i] = e;
    }
    /// an operation starts: `[dir idx what a b kind]`
    fn begin(&self, dir: u64, idx: u64, what: u64, a: u64, b: u64, kind: u64) -> usize {
        let mut p = self.pending.borrow_mut();
        p.push(Some([13, dir, idx, what, a, b, kind]));
        p.len() - 1
    }
    fn end(&self, id: usize) {
        self.pending.borrow_mut()[id] = None;
    }
    fn out(&self) -> Vec<u64> {
        let v = self.ev.borrow();
        let mut o = vec![0, v.len() as u64];
        for e in v.iter() {
            o.extend_from_slice(e);
        }
        o
    }
    /// the watchdog fired: the transcript so far, then what never completed
    fn out_stalled(&self) -> Vec<u64> {
        let mut all: Vec<Ev> = self.ev.borrow().clone();
        let pend: Vec<Ev> = self.pending.borrow().iter().flatten().copied().collect();
        if pend.is_empty() {
            all.push([13, 0, 0, 0, 0, 0, 0]);
        }
        all.extend(pend);
        let mut o = vec![0, all.len() as u64];
        for e in all.iter() {
            o.extend_from_slice(e);
        }
        if std::env::var_os("C14_DEBUG").is_some() {
            eprintln!("watchdog; transcript: {all:?}");
        }
        o
    }
}

struct Yield(bool);
impl Future for Yield {
    type Output = ();
    fn poll(mut self: Pin<&mut Self>, cx: &mut Context<'_>) -> Poll<()> {
        if self.0 {
            Poll::Ready(())
        } else {
            self.0 = true;
            cx.waker().wake_by_ref();
            Poll::Pending
        }
    }
}

async fn pause(ms: u64) {
    if ms == 0 {
        Yield(false).await
    } else {
        sleep(Duration::from_millis(ms.min(20))).await
    }
}

fn build_rt(drv: u64, plen: u64, psize: u64) -> Result<Runtime, BadCase> {
    if drv > 1 || plen == 0 || plen > 65536 || psize == 0 || psize > 64 {
        return Err(BadCase);
    }
    let mut pb = ProactorBuilder::new();
    pb.driver_type(if drv == 1 { DriverType::Poll } else { DriverType::IoUring });
    pb.buffer_pool_buffer_len(plen as usize);
    pb.buffer_pool_size(NonZero::new(psize as u16).unwrap());
    Ok(RuntimeBuilder::new().with_proactor(pb).build().expect("runtime"))
}

fn uniq_path(tag: &str) -> std::path::PathBuf {
    thread_local!(static N: Cell<u64> = const { Cell::new(0) });
    let n = N.with(|c| {
        c.set(c.get() + 1);
        c.get()
    });
    std::env::temp_dir().join(format!("c14-{}-{}-{}.sock", std::process::id(), n, tag))
}

// ---------------------------------------------------------------------------
// stream mode

#[derive(Clone, Copy)]
struct Op {
    k: u64,
    a: u64,
    b: u64,
}

fn take_ops(c: &mut Case, maxk: u64) -> Result<Vec<Op>, BadCase> {
    let n = c.take()? as usize;
    if n > 64 {
        return Err(BadCase);
    }
    let mut v = Vec::new();
    for _ in 0..n {
        let (k, a, b) = (c.take()?, c.take()?, c.take()?);
        if k == 0 || k > maxk || a > 400_000 || b > 400_000 {
            return Err(BadCase);
        }
        v.push(Op { k, a, b });
    }
    Ok(v)
}

/// per-direction bookkeeping shared by the sender and the receiver task
struct Dir {
    dir: u64,
    seed: u64,
    /// bytes the OS accepted so far (in order)
    sent: RefCell<Vec<u8>>,
    /// position of the next byte offered
    spos: Cell<u64>,
    /// upper bound of what can ever be sent (sum of offered lengths)
    max_total: u64,
    rcvd: RefCell<Vec<u8>>,
    rpos: Cell<u64>,
    gap_ok: Cell<bool>,
    gaps: Cell<u64>,
    eofs: Cell<u64>,
    log: Rc<Log>,
}

trait Wr {
    async fn w(&mut self, b: Vec<u8>) -> BufResult<usize, Vec<u8>>;
    async fn wv(&mut self, b: Vec<Vec<u8>>) -> BufResult<usize, Vec<Vec<u8>>>;
    async fn zc(&mut self, b: Vec<u8>, defer: bool) -> (io::Result<usize>, Vec<u8>);
    async fn zcv(&mut self, b: Vec<Vec<u8>>, defer: bool) -> (io::Result<usize>, Vec<Vec<u8>>);
    async fn wa(&mut self, b: Vec<u8>) -> BufResult<usize, Vec<u8>>;
    async fn wall(&mut self, b: Vec<u8>) -> BufResult<(), Vec<u8>>;
    async fn wvall(&mut self, b: Vec<Vec<u8>>) -> BufResult<(), Vec<Vec<u8>>>;
    async fn wva(&mut self, b: Vec<Vec<u8>>) -> BufResult<usize, Vec<Vec<u8>>>;
    async fn shut(&mut self) -> io::Result<()>;
}

trait Rd {
    async fn r(&mut self, b: Vec<u8>) -> BufResult<usize, Vec<u8>>;
    async fn rv(&mut self, b: Vec<Vec<u8>>) -> BufResult<usize, Vec<Vec<u8>>>;
    async fn rm(&mut self, len: usize) -> io::Result<Option<BufferRef>>;
    /// read_with_ancillary: (n, flags)
    async fn ra(&mut self, b: Vec<u8>) -> BufResult<(usize, u64), Vec<u8>>;
    /// read_managed_with_ancillary
    async fn rma(&mut self, len: usize) -> io::Result<Option<(BufferRef, u64)>>;
    async fn multi_anc(
        &mut self,
        sink: &mut dyn FnMut(io::Result<&[u8]>) -> bool,
    ) -> (u64, u64);
    /// one multishot session: items are handed to `sink` until it returns
    /// false (early drop) or the stream ends; returns (reason, items)
    async fn multi(
        &mut self,
        len: usize,
        sink: &mut dyn FnMut(io::Result<&[u8]>) -> bool,
    ) -> (u64, u64);
}

async fn drive_multi<T, St: Stream<Item = io::Result<T>>>(
    st: St,
    data: impl Fn(&T) -> &[u8],
    empty_is_end: bool,
    sink: &mut dyn FnMut(io::Result<&[u8]>) -> bool,
) -> (u64, u64) {
    let mut st = std::pin::pin!(st);
    let mut items = 0u64;
    let mut errs = 0u64;
    loop {
        match st.next().await {
            None => return (0, items),
            Some(Ok(buf)) => {
                if empty_is_end && data(&buf).is_empty() {
                    // the ancillary multishot stream reports end-of-stream as
                    // an item without payload
                    return (0, items);
                }
                items += 1;
                let go = sink(Ok(data(&buf)));
                drop(buf);
                if !go {
                    return (1, items);
                }
            }
            Some(Err(e)) => {
                errs += 1;
                let go = sink(Err(e));
                if !go || errs > 64 {
                    return (2, items);
                }
                // give the pool a chance to get its buffers back, then poll
                // again: the stream re-submits
                Yield(false).await;
            }
        }
    }
}

macro_rules! zc_body {
    ($self:ident, $call:expr, $defer:ident) => {{
        let BufResult(res, fut) = $call;
        if $defer {
            Yield(false).await;
        }
        let buf = fut.await;
        (res, buf)
    }};
}

macro_rules! anc_w {
    ($s:expr, $b:expr) => {{
        let BufResult(res, (b, _c)) = $s.write_with_ancillary($b, Vec::<u8>::new()).await;
        BufResult(res, b)
    }};
}
macro_rules! anc_wv {
    ($s:expr, $b:expr) => {{
        let BufResult(res, (b, _c)) = $s.write_vectored_with_ancillary($b, Vec::<u8>::new()).await;
        BufResult(res, b)
    }};
}
macro_rules! anc_r {
    ($s:expr, $b:expr) => {{
        let BufResult(res, (b, _c)) = $s.read_with_ancillary($b, ctrl_buf()).await;
        BufResult(res.map(|(n, _cl, fl)| (n, fl.bits() as u64)), b)
    }};
}
macro_rules! anc_rm {
    ($s:expr, $len:expr) => {{
        $s.read_managed_with_ancillary($len, ctrl_buf())
            .await
            .map(|o| o.map(|(b, _c, fl)| (b, fl.bits() as u64)))
    }};
}
macro_rules! anc_multi {
    ($s:expr, $sink:expr) => {{
        let st = $s.read_multi_with_ancillary(64);
        drive_multi(st, |b: &RecvMsgMultiResult| b.data(), true, $sink).await
    }};
}

struct Direct<'a, S>(&'a S);
struct BorrowedR<'a, S>(ReadHalf<'a, S>);
struct BorrowedW<'a, S>(WriteHalf<'a, S>);
struct Owned<S>(S);

macro_rules! impl_stream {
    ($S:ty) => {
        impl Wr for Direct<'_, $S> {
            async fn w(&mut self, b: Vec<u8>) -> BufResult<usize, Vec<u8>> {
                let mut s = self.0;
                s.write(b).await
            }
            async fn wv(&mut self, b: Vec<Vec<u8>>) -> BufResult<usize, Vec<Vec<u8>>> {
                let mut s = self.0;
                s.write_vectored(b).await
            }
            async fn zc(&mut self, b: Vec<u8>, defer: bool) -> (io::Result<usize>, Vec<u8>) {
                let mut s = self.0;
                zc_body!(self, s.write_zerocopy(b).await, defer)
            }
            async fn zcv(
                &mut self,
                b: Vec<Vec<u8>>,
                defer: bool,
            ) -> (io::Result<usize>, Vec<Vec<u8>>) {
                let mut s = self.0;
                zc_body!(self, s.write_zerocopy_vectored(b).await, defer)
            }
            async fn wa(&mut self, b: Vec<u8>) -> BufResult<usize, Vec<u8>> {
                let mut s = self.0;
                anc_w!(s, b)
            }
            async fn wall(&mut self, b: Vec<u8>) -> BufResult<(), Vec<u8>> {
                let mut s = self.0;
                s.write_all(b).await
            }
            async fn wvall(&mut self, b: Vec<Vec<u8>>) -> BufResult<(), Vec<Vec<u8>>> {
                let mut s = self.0;
                s.write_vectored_all(b).await
            }
            async fn wva(&mut self, b: Vec<Vec<u8>>) -> BufResult<usize, Vec<Vec<u8>>> {
                let mut s = self.0;
                anc_wv!(s, b)
            }
            async fn shut(&mut self) -> io::Result<()> {
                let mut s = self.0;
                s.shutdown().await
            }
        }
        impl Rd for Direct<'_, $S> {
            async fn r(&mut self, b: Vec<u8>) -> BufResult<usize, Vec<u8>> {
                let mut s = self.0;
                s.read(b).await
            }
            async fn rv(&mut self, b: Vec<Vec<u8>>) -> BufResult<usize, Vec<Vec<u8>>> {
                let mut s = self.0;
                s.read_vectored(b).await
            }
            async fn rm(&mut self, len: usize) -> io::Result<Option<BufferRef>> {
                let mut s = self.0;
                s.read_managed(len).await
            }
            async fn ra(&mut self, b: Vec<u8>) -> BufResult<(usize, u64), Vec<u8>> {
                let mut s = self.0;
                anc_r!(s, b)
            }
            async fn rma(&mut self, len: usize) -> io::Result<Option<(BufferRef, u64)>> {
                let mut s = self.0;
                anc_rm!(s, len)
            }
            async fn multi_anc(
                &mut self,
                sink: &mut dyn FnMut(io::Result<&[u8]>) -> bool,
            ) -> (u64, u64) {
                let mut s = self.0;
                anc_multi!(s, sink)
            }
            async fn multi(
                &mut self,
                len: usize,
                sink: &mut dyn FnMut(io::Result<&[u8]>) -> bool,
            ) -> (u64, u64) {
                let mut s = self.0;
                let st = s.read_multi(len);
                drive_multi(st, |b: &BufferRef| &b[..], false, sink).await
            }
        }
        impl Wr for BorrowedW<'_, $S> {
            async fn w(&mut self, b: Vec<u8>) -> BufResult<usize, Vec<u8>> {
                self.0.write(b).await
            }
            async fn wv(&mut self, b: Vec<Vec<u8>>) -> BufResult<usize, Vec<Vec<u8>>> {
                self.0.write_vectored(b).await
            }
            async fn zc(&mut self, b: Vec<u8>, defer: bool) -> (io::Result<usize>, Vec<u8>) {
                let mut s: &$S = &*self.0;
                zc_body!(self, s.write_zerocopy(b).await, defer)
            }
            async fn zcv(
                &mut self,
                b: Vec<Vec<u8>>,
                defer: bool,
            ) -> (io::Result<usize>, Vec<Vec<u8>>) {
                let mut s: &$S = &*self.0;
                zc_body!(self, s.write_zerocopy_vectored(b).await, defer)
            }
            async fn wa(&mut self, b: Vec<u8>) -> BufResult<usize, Vec<u8>> {
                let mut s: &$S = &*self.0;
                anc_w!(s, b)
            }
            async fn wall(&mut self, b: Vec<u8>) -> BufResult<(), Vec<u8>> {
                self.0.write_all(b).await
            }
            async fn wvall(&mut self, b: Vec<Vec<u8>>) -> BufResult<(), Vec<Vec<u8>>> {
                self.0.write_vectored_all(b).await
            }
            async fn wva(&mut self, b: Vec<Vec<u8>>) -> BufResult<usize, Vec<Vec<u8>>> {
                let mut s: &$S = &*self.0;
                anc_wv!(s, b)
            }
            async fn shut(&mut self) -> io::Result<()> {
                self.0.shutdown().await
            }
        }
        impl Rd for BorrowedR<'_, $S> {
            async fn r(&mut self, b: Vec<u8>) -> BufResult<usize, Vec<u8>> {
                self.0.read(b).await
            }
            async fn rv(&mut self, b: Vec<Vec<u8>>) -> BufResult<usize, Vec<Vec<u8>>> {
                self.0.read_vectored(b).await
            }
            async fn rm(&mut self, len: usize) -> io::Result<Option<BufferRef>> {
                let mut s: &$S = &*self.0;
                s.read_managed(len).await
            }
            async fn ra(&mut self, b: Vec<u8>) -> BufResult<(usize, u64), Vec<u8>> {
                let mut s: &$S = &*self.0;
                anc_r!(s, b)
            }
            async fn rma(&mut self, len: usize) -> io::Result<Option<(BufferRef, u64)>> {
                let mut s: &$S = &*self.0;
                anc_rm!(s, len)
            }
            async fn multi_anc(
                &mut self,
                sink: &mut dyn FnMut(io::Result<&[u8]>) -> bool,
            ) -> (u64, u64) {
                let mut s: &$S = &*self.0;
                anc_multi!(s, sink)
            }
            async fn multi(
                &mut self,
                len: usize,
                sink: &mut dyn FnMut(io::Result<&[u8]>) -> bool,
            ) -> (u64, u64) {
                let mut s: &$S = &*self.0;
                let st = s.read_multi(len);
                drive_multi(st, |b: &BufferRef| &b[..], false, sink).await
            }
        }
        impl Wr for Owned<$S> {
            async fn w(&mut self, b: Vec<u8>) -> BufResult<usize, Vec<u8>> {
                self.0.write(b).await
            }
            async fn wv(&mut self, b: Vec<Vec<u8>>) -> BufResult<usize, Vec<Vec<u8>>> {
                self.0.write_vectored(b).await
            }
            async fn zc(&mut self, b: Vec<u8>, defer: bool) -> (io::Result<usize>, Vec<u8>) {
                zc_body!(self, self.0.write_zerocopy(b).await, defer)
            }
            async fn zcv(
                &mut self,
                b: Vec<Vec<u8>>,
                defer: bool,
            ) -> (io::Result<usize>, Vec<Vec<u8>>) {
                zc_body!(self, self.0.write_zerocopy_vectored(b).await, defer)
            }
            async fn wa(&mut self, b: Vec<u8>) -> BufResult<usize, Vec<u8>> {
                anc_w!(self.0, b)
            }
            async fn wall(&mut self, b: Vec<u8>) -> BufResult<(), Vec<u8>> {
                self.0.write_all(b).await
            }
            async fn wvall(&mut self, b: Vec<Vec<u8>>) -> BufResult<(), Vec<Vec<u8>>> {
                self.0.write_vectored_all(b).await
            }
            async fn wva(&mut self, b: Vec<Vec<u8>>) -> BufResult<usize, Vec<Vec<u8>>> {
                anc_wv!(self.0, b)
            }
            async fn shut(&mut self) -> io::Result<()> {
                self.0.shutdown().await
            }
        }
        impl Rd for Owned<$S> {
            async fn r(&mut self, b: Vec<u8>) -> BufResult<usize, Vec<u8>> {
                self.0.read(b).await
            }
            async fn rv(&mut self, b: Vec<Vec<u8>>) -> BufResult<usize, Vec<Vec<u8>>> {
                self.0.read_vectored(b).await
            }
            async fn rm(&mut self, len: usize) -> io::Result<Option<BufferRef>> {
                self.0.read_managed(len).await
            }
            async fn ra(&mut self, b: Vec<u8>) -> BufResult<(usize, u64), Vec<u8>> {
                anc_r!(self.0, b)
            }
            async fn rma(&mut self, len: usize) -> io::Result<Option<(BufferRef, u64)>> {
                anc_rm!(self.0, len)
            }
            async fn multi_anc(
                &mut self,
                sink: &mut dyn FnMut(io::Result<&[u8]>) -> bool,
            ) -> (u64, u64) {
                anc_multi!(self.0, sink)
            }
            async fn multi(
                &mut self,
                len: usize,
                sink: &mut dyn FnMut(io::Result<&[u8]>) -> bool,
            ) -> (u64, u64) {
                let st = self.0.read_multi(len);
                drive_multi(st, |b: &BufferRef| &b[..], false, sink).await
            }
        }
    };
}
impl_stream!(TcpStream);
impl_stream!(UnixStream);

async fn run_sender<W: Wr>(mut w: W, ops: Vec<Op>, d: Rc<Dir>) {
    let log = d.log.clone();
    for (idx, op) in ops.iter().enumerate() {
        let idx = idx as u64;
        let pos = d.spos.get();
        match op.k {
            5 => {
                pause(op.a).await;
                continue;
            }
            1 | 3 | 6 => {
                let len = op.a as usize;
                let extra = (op.b % 1024) as usize;
                let defer = op.b >= 1024;
                let buf = pat_vec(d.seed, pos, len, extra);
                let before = vec_state(&buf);
                let slot = log.push([1, d.dir, idx, len as u64, 0, 0, op.k]);
                let pid = log.begin(d.dir, idx, P_SEND, len as u64, pos, op.k);
                let (res, back) = if op.k == 1 {
                    let BufResult(res, back) = w.w(buf).await;
                    (res, back)
                } else if op.k == 6 {
                    let BufResult(res, back) = w.wa(buf).await;
                    (res, back)
                } else {
                    w.zc(buf, defer).await
                };
                log.end(pid);
                let ok = u64::from(vec_state(&back) == before);
                match res {
                    Ok(n) => {
                        let n = n.min(len);
                        d.sent.borrow_mut().extend_from_slice(&back[..n]);
                        d.spos.set(pos + n as u64);
                        log.set(slot, [1, d.dir, idx, len as u64, n as u64, ok, op.k]);
                    }
                    Err(e) => log.set(slot, [7, d.dir, idx, errno_of(&e), 0, ok, op.k]),
                }
            }
            2 | 4 | 7 => {
                let total = op.a as usize;
                let members = ((op.b % 1024) as usize).clamp(1, 8);
                let defer = op.b >= 1024;
                let sizes = split_sizes(total, members);
                let mut bufs = Vec::new();
                let mut p = pos;
                for (i, &s) in sizes.iter().enumerate() {
                    bufs.push(pat_vec(d.seed, p, s, (i * 3) % 5));
                    p += s as u64;
                }
                let before: Vec<Vec<u64>> = bufs.iter().map(vec_state).collect();
                let slot = log.push([1, d.dir, idx, total as u64, 0, 0, op.k]);
                let pid = log.begin(d.dir, idx, P_SEND, total as u64, pos, op.k);
                let (res, back) = if op.k == 2 {
                    let BufResult(res, back) = w.wv(bufs).await;
                    (res, back)
                } else if op.k == 7 {
                    let BufResult(res, back) = w.wva(bufs).await;
                    (res, back)
                } else {
                    w.zcv(bufs, defer).await
                };
                log.end(pid);
                let after: Vec<Vec<u64>> = back.iter().map(vec_state).collect();
                let ok = u64::from(after == before);
                match res {
                    Ok(n) => {
                        let n = n.min(total);
                        let flat: Vec<u8> = back.iter().flat_map(|m| m.iter().copied()).collect();
                        d.sent.borrow_mut().extend_from_slice(&flat[..n]);
                        d.spos.set(pos + n as u64);
                        log.set(slot, [1, d.dir, idx, total as u64, n as u64, ok, op.k]);
                    }
                    Err(e) => log.set(slot, [7, d.dir, idx, errno_of(&e), 0, ok, op.k]),
                }
            }
            _ => {}
        }
    }
    let slot = log.push([2, d.dir, 0, 0, 0, 0, 0]);
    let pid = log.begin(d.dir, ops.len() as u64, P_SHUTDOWN, 0, d.spos.get(), 0);
    if let Err(e) = w.shut().await {
        log.set(slot, [2, d.dir, errno_of(&e), 0, 0, 0, 0]);
    }
    log.end(pid);
}

impl Dir {
    /// account for a delivered chunk: returns the stream position the chunk is
    /// believed to start at
    fn deliver(&self, chunk: &[u8]) -> u64 {
        let mut p = self.rpos.get();
        let matches = |p: u64| chunk.iter().enumerate().all(|(i, &b)| b == pat(self.seed, p + i as u64));
        if !matches(p) && self.gap_ok.get() {
            let mut g = 1u64;
            while p + g + chunk.len() as u64 <= self.max_total {
                if matches(p + g) {
                    self.gaps.set(self.gaps.get() + g);
                    p += g;
                    break;
                }
                g += 1;
            }
        }
        self.rcvd.borrow_mut().extend_from_slice(chunk);
        self.rpos.set(p + chunk.len() as u64);
        p
    }

    fn eof(&self) -> u64 {
        self.eofs.set(self.eofs.get() + 1);
        if self.gap_ok.get() {
            // whatever a cancelled multishot swallowed is gone: the sender has
            // shut down, so the position jumps to the end of what was sent
            let total = self.sent.borrow().len() as u64;
            if total > self.rpos.get() {
                self.gaps.set(self.gaps.get() + total - self.rpos.get());
                self.rpos.set(total);
            }
        }
        self.rpos.get()
    }
}

/// one receive operation of kind 1..3; returns true when it saw end-of-stream
async fn recv_once<R: Rd>(r: &mut R, d: &Dir, idx: u64, kind: u64, a: u64, b: u64) -> bool {
    let pid = d.log.begin(d.dir, idx, P_RECV, a, d.rpos.get(), kind);
    let eof = recv_once_inner(r, d, idx, kind, a, b).await;
    d.log.end(pid);
    eof
}

async fn recv_once_inner<R: Rd>(r: &mut R, d: &Dir, idx: u64, kind: u64, a: u64, b: u64) -> bool {
    let log = &d.log;
    match kind {
        1 | 6 => {
            let cap = a as usize;
            let len = (b as usize).min(cap);
            let buf = canary_vec(len, cap);
            let BufResult(res, buf) = if kind == 1 {
                r.r(buf).await
            } else {
                let BufResult(res, buf) = r.ra(buf).await;
                match res {
                    // a stream never reports flags
                    Ok((_, fl)) if fl != 0 => BufResult(Err(io::Error::from_raw_os_error(9997)), buf),
                    Ok((n, _)) => BufResult(Ok(n), buf),
                    Err(e) => BufResult(Err(e), buf),
                }
            };
            match res {
                Ok(n) => {
                    let n = n.min(buf.capacity());
                    let chunk: Vec<u8> =
                        (0..n).map(|i| unsafe { *buf.as_ptr().add(i) }).collect();
                    let eof = n == 0 && cap > 0;
                    let pos = if eof { d.eof() } else { d.deliver(&chunk) };
                    log.push([3, d.dir, idx, n as u64, pos, hash_of(&vec_state(&buf)), kind]);
                    eof
                }
                Err(e) => {
                    log.push([6, d.dir, idx, errno_of(&e), 0, 0, kind]);
                    true
                }
            }
        }
        2 => {
            let caps = split_sizes(a as usize, (b as usize).clamp(1, 8));
            let total: usize = caps.iter().sum();
            let bufs: Vec<Vec<u8>> = caps.iter().map(|&c| canary_vec(0, c)).collect();
            let BufResult(res, bufs) = r.rv(bufs).await;
            match res {
                Ok(n) => {
                    let n = n.min(total);
                    // what the user sees: the initialised parts, in order
                    let chunk: Vec<u8> = bufs.iter().flat_map(|m| m.iter().copied()).collect();
                    let eof = n == 0 && total > 0;
                    let pos = if eof { d.eof() } else { d.deliver(&chunk) };
                    let st: Vec<u64> = bufs.iter().flat_map(vec_state).collect();
                    log.push([3, d.dir, idx, n as u64, pos, hash_of(&st), 2]);
                    eof
                }
                Err(e) => {
                    log.push([6, d.dir, idx, errno_of(&e), 0, 0, 2]);
                    true
                }
            }
        }
        3 | 7 => {
            let res = if kind == 3 {
                r.rm(a as usize).await
            } else {
                match r.rma(a as usize).await {
                    Ok(Some((_, fl))) if fl != 0 => Err(io::Error::from_raw_os_error(9997)),
                    Ok(o) => Ok(o.map(|(b, _)| b)),
                    Err(e) => Err(e),
                }
            };
            match res {
                Ok(Some(buf)) => {
                    let chunk: Vec<u8> = buf[..].to_vec();
                    drop(buf);
                    let pos = d.deliver(&chunk);
                    let mut st = vec![chunk.len() as u64];
                    st.extend(chunk.iter().map(|&x| x as u64));
                    log.push([3, d.dir, idx, chunk.len() as u64, pos, hash_of(&st), kind]);
                    false
                }
                Ok(None) => {
                    let pos = d.eof();
                    log.push([3, d.dir, idx, 0, pos, hash_of(&[0]), kind]);
                    true
                }
                Err(e) => {
                    log.push([6, d.dir, idx, errno_of(&e), 0, 0, kind]);
                    // pool exhausted (e.g. a cancelled multishot still holds the
                    // buffers): nothing was consumed, the program goes on
                    e.kind() != io::ErrorKind::ResourceBusy
                }
            }
        }
        _ => false,
    }
}

async fn run_receiver<R: Rd>(mut r: R, ops: Vec<Op>, d: Rc<Dir>) {
    let log = d.log.clone();
    let mut seen_eof = false;
    for (idx, op) in ops.iter().enumerate() {
        let idx = idx as u64;
        match op.k {
            5 => pause(op.a).await,
            1 | 2 | 3 | 6 | 7 => {
                if recv_once(&mut r, &d, idx, op.k, op.a, op.b).await {
                    seen_eof = true;
                }
            }
            4 | 8 => {
                let kind = op.k;
                let take = op.b;
                let mut taken = 0u64;
                let dd = d.clone();
                let mut sink = |item: io::Result<&[u8]>| -> bool {
                    match item {
                        Ok(chunk) => {
                            let pos = dd.deliver(chunk);
                            let mut st = vec![chunk.len() as u64];
                            st.extend(chunk.iter().map(|&x| x as u64));
                            dd.log.push([3, dd.dir, idx, chunk.len() as u64, pos, hash_of(&st), kind]);
                            taken += 1;
                            !(take > 0 && taken >= take)
                        }
                        Err(e) => {
                            dd.log.push([6, dd.dir, idx, errno_of(&e), 0, 0, kind]);
                            // out of pool buffers: the stream re-submits
                            e.kind() == io::ErrorKind::ResourceBusy
                        }
                    }
                };
                let pid = log.begin(d.dir, idx, P_MULTI, op.a, d.rpos.get(), kind);
                let (reason, items) = if kind == 4 {
                    r.multi(op.a as usize, &mut sink).await
                } else {
                    r.multi_anc(&mut sink).await
                };
                log.end(pid);
                if reason == 0 {
                    let pos = d.eof();
                    log.push([4, d.dir, idx, 0, items, pos, 0]);
                    seen_eof = true;
                } else {
                    // the stream is dropped while the operation may still be
                    // armed in the kernel: from here on data may be swallowed
                    d.gap_ok.set(true);
                    log.push([4, d.dir, idx, reason, items, d.rpos.get(), 0]);
                }
            }
            _ => {}
        }
    }
    // drain until end-of-stream, then check that end-of-stream is sticky
    let mut idx = ops.len() as u64;
    let mut guard = 0;
    while !seen_eof && guard < 100_000 {
        seen_eof = recv_once(&mut r, &d, idx, 1, DRAIN_CAP as u64, 0).await;
        idx += 1;
        guard += 1;
    }
    recv_once(&mut r, &d, idx, 1, DRAIN_CAP as u64, 0).await;
}

fn summary(d: &Dir) {
    let sent = d.sent.borrow();
    let rcvd = d.rcvd.borrow();
    // 1 = identical; 2 = identical up to blocks swallowed after an early
    // multishot drop (every received chunk was located in the pattern)
    let m = if *sent == *rcvd {
        1
    } else if d.gap_ok.get() && sent.len() as u64 == rcvd.len() as u64 + d.gaps.get() {
        2
    } else {
        0
    };
    d.log.push([9, d.dir, sent.len() as u64, rcvd.len() as u64, m, d.eofs.get(), d.gaps.get()]);
}

fn set_bufs<S: std::os::fd::AsFd>(s: &S, sbuf: u64, rbuf: u64) {
    let r = socket2::SockRef::from(s);
    if sbuf > 0 {
        let _ = r.set_send_buffer_size(sbuf as usize);
    }
    if rbuf > 0 {
        let _ = r.set_recv_buffer_size(rbuf as usize);
    }
}

macro_rules! stream_pair_run {
    ($x:expr, $y:expr, $split:expr, $pa:expr, $pb:expr, $pc:expr, $pd:expr, $d1:expr, $d2:expr) => {{
        let (x, y) = ($x, $y);
        match $split {
            0 => {
                futures_util::join!(
                    run_sender(Direct(&x), $pa, $d1.clone()),
                    run_receiver(Direct(&y), $pb, $d1.clone()),
                    run_sender(Direct(&y), $pc, $d2.clone()),
                    run_receiver(Direct(&x), $pd, $d2.clone()),
                );
            }
            1 => {
                let (xr, xw) = x.split();
                let (yr, yw) = y.split();
                futures_util::join!(
                    run_sender(BorrowedW(xw), $pa, $d1.clone()),
                    run_receiver(BorrowedR(yr), $pb, $d1.clone()),
                    run_sender(BorrowedW(yw), $pc, $d2.clone()),
                    run_receiver(BorrowedR(xr), $pd, $d2.clone()),
                );
            }
            _ => {
                let (xr, xw) = x.into_split();
                let (yr, yw) = y.into_split();
                let t1 = compio_runtime::spawn(run_sender(Owned(xw), $pa, $d1.clone()));
                let t2 = compio_runtime::spawn(run_receiver(Owned(yr), $pb, $d1.clone()));
                let t3 = compio_runtime::spawn(run_sender(Owned(yw), $pc, $d2.clone()));
                let t4 = compio_runtime::spawn(run_receiver(Owned(xr), $pd, $d2.clone()));
                for t in [t1, t2, t3, t4] {
                    compio_runtime::ResumeUnwind::resume_unwind(t.await);
                }
            }
        }
    }};
}

fn stream_case(c: &mut Case) -> Result<Vec<u64>, BadCase> {
    let drv = c.take()?;
    let tr = c.take()?;
    let split = c.take()?;
    let sbuf = c.take()?;
    let rbuf = c.take()?;
    let plen = c.take()?;
    let psize = c.take()?;
    let seed = c.take()?;
    if tr > 1 || split > 2 || sbuf > (1 << 22) || rbuf > (1 << 22) || seed > 60000 {
        return Err(BadCase);
    }
    let pa = take_ops(c, 7)?;
    let pb = take_ops(c, 8)?;
    let pc = take_ops(c, 7)?;
    let pd = take_ops(c, 8)?;
    if c.i != c.v.len() || (plen < 256 && pb.iter().chain(pd.iter()).any(|o| o.k == 8)) {
        return Err(BadCase);
    }
    let rt = build_rt(drv, plen, psize)?;
    let log = Rc::new(Log::default());
    let mk = |dir: u64, ops: &Vec<Op>| {
        Rc::new(Dir {
            dir,
            seed: seed + 1000 * dir,
            sent: RefCell::new(Vec::new()),
            spos: Cell::new(0),
            max_total: ops.iter().filter(|o| o.k != 5).map(|o| o.a).sum(),
            rcvd: RefCell::new(Vec::new()),
            rpos: Cell::new(0),
            gap_ok: Cell::new(false),
            gaps: Cell::new(0),
            eofs: Cell::new(0),
            log: log.clone(),
        })
    };
    let d1 = mk(1, &pa);
    let d2 = mk(2, &pc);
    let (d1c, d2c) = (d1.clone(), d2.clone());
    let fin = rt.block_on(async move {
        timeout(Duration::from_millis(watchdog_ms()), async move {
            if tr == 0 {
                let l = TcpListener::bind("127.0.0.1:0").await.unwrap();
                set_bufs(&l, sbuf, rbuf);
                let addr = l.local_addr().unwrap();
                let (x, y) = futures_util::join!(TcpStream::connect(addr), l.accept());
                let (x, (y, _)) = (x.unwrap(), y.unwrap());
                set_bufs(&x, sbuf, rbuf);
                set_bufs(&y, sbuf, rbuf);
                stream_pair_run!(x, y, split, pa, pb, pc, pd, d1c, d2c);
            } else {
                let path = uniq_path("st");
                let _ = std::fs::remove_file(&path);
                let l = UnixListener::bind(&path).await.unwrap();
                let (x, y) = futures_util::join!(UnixStream::connect(&path), l.accept());
                let _ = std::fs::remove_file(&path);
                let (x, (y, _)) = (x.unwrap(), y.unwrap());
                set_bufs(&x, sbuf, rbuf);
                set_bufs(&y, sbuf, rbuf);
                stream_pair_run!(x, y, split, pa, pb, pc, pd, d1c, d2c);
            }
        })
        .await
        .is_ok()
    });
    if !fin {
        for d in [&d1, &d2] {
            log.push([19, d.dir, d.sent.borrow().len() as u64, d.rcvd.borrow().len() as u64, 0, 0, 0]);
        }
        return Ok(log.out_stalled());
    }
    summary(&d1);
    summary(&d2);
    drop(rt);
    Ok(log.out())
}

// ---------------------------------------------------------------------------
// datagram mode

#[derive(Clone, Copy)]
struct Dg {
    skind: u64,
    size: u64,
    sender: u64,
    rkind: u64,
    cap: u64,
    len: u64,
    flags: u64,
}

const TRUNC_BIT: u64 = libc::MSG_TRUNC as u64;

fn ctrl_buf() -> Vec<u8> {
    // 8-byte aligned control buffer of 64 bytes
    let v: Vec<u64> = Vec::with_capacity(8);
    let mut v = std::mem::ManuallyDrop::new(v);
    unsafe { Vec::from_raw_parts(v.as_mut_ptr() as *mut u8, 0, 64) }
}

enum DgSock {
    Udp(UdpSocket),
    Raw(SharedFd<socket2::Socket>),
}

fn addr_code(tr: u64, a: Option<&socket2::SockAddr>) -> u64 {
    match a {
        None => 0,
        Some(a) => {
            if tr == 1 {
                // unix datagram: ".../c14-<pid>-<n>-s<i>.sock" -> i + 1
                a.as_pathname()
                    .and_then(|p| p.file_name())
                    .and_then(|f| f.to_str())
                    .and_then(|s| s.strip_suffix(".sock"))
                    .and_then(|s| s.rsplit("-s").next())
                    .and_then(|s| s.parse::<u64>().ok())
                    .map(|i| i + 1)
                    .unwrap_or(7777)
            } else {
                a.as_socket().map(|s| s.port() as u64).unwrap_or(7777)
            }
        }
    }
}

fn rflags(f: u64) -> RecvFlags {
    if f == 1 { RecvFlags::TRUNC } else { RecvFlags::empty() }
}

fn managed_state(b: &[u8]) -> Vec<u64> {
    let mut st = vec![b.len() as u64];
    st.extend(b.iter().map(|&x| x as u64));
    st
}

/// event: [5 idx n addr flags hash rkind]
async fn dg_recv(rx: &DgSock, tr: u64, idx: u64, g: Dg, log: &Log) {
    let cap = g.cap as usize;
    let len = (g.len as usize).min(cap);
    let members = (g.len as usize).clamp(1, 4);
    let mut ev = |n: u64, addr: u64, fl: u64, st: &[u64]| {
        log.push([5, idx, n, addr, fl, hash_of(st), g.rkind]);
    };
    let err = |e: &io::Error| {
        log.push([6, 0, idx, errno_of(e), 0, 0, g.rkind]);
    };
    match (rx, g.rkind) {
        (DgSock::Udp(s), 1) => {
            let BufResult(res, buf) = s.recv_from(canary_vec(len, cap)).await;
            match res {
                Ok((n, a)) => ev(n as u64, a.port() as u64, 0, &vec_state(&buf)),
                Err(e) => err(&e),
            }
        }
        (DgSock::Udp(s), 2) => {
            let bufs: Vec<Vec<u8>> =
                split_sizes(cap, members).iter().map(|&c| canary_vec(0, c)).collect();
            let BufResult(res, bufs) = s.recv_from_vectored(bufs).await;
            let st: Vec<u64> = bufs.iter().flat_map(vec_state).collect();
            match res {
                Ok((n, a)) => ev(n as u64, a.port() as u64, 0, &st),
                Err(e) => err(&e),
            }
        }
        (DgSock::Udp(s), 3) => {
            let BufResult(res, (buf, _c)) = s.recv_msg(canary_vec(len, cap), ctrl_buf()).await;
            match res {
                Ok((n, _cl, a, fl)) => {
                    ev(n as u64, a.port() as u64, fl.bits() as u64 & TRUNC_BIT, &vec_state(&buf))
                }
                Err(e) => err(&e),
            }
        }
        (DgSock::Udp(s), 4) => {
            let bufs: Vec<Vec<u8>> =
                split_sizes(cap, members).iter().map(|&c| canary_vec(0, c)).collect();
            let BufResult(res, (bufs, _c)) = s.recv_msg_vectored(bufs, ctrl_buf()).await;
            let st: Vec<u64> = bufs.iter().flat_map(vec_state).collect();
            match res {
                Ok((n, _cl, a, fl)) => {
                    ev(n as u64, a.port() as u64, fl.bits() as u64 & TRUNC_BIT, &st)
                }
                Err(e) => err(&e),
            }
        }
        (DgSock::Udp(s), 5) => match s.recv_from_managed(cap).await {
            Ok(Some((b, a))) => ev(b.len() as u64, a.port() as u64, 0, &managed_state(&b)),
            Ok(None) => ev(0, 0, 0, &[0]),
            Err(e) => err(&e),
        },
        (DgSock::Udp(s), 6) => match s.recv_msg_managed(cap, ctrl_buf()).await {
            Ok(Some((b, _c, a, fl))) => ev(
                b.len() as u64,
                a.port() as u64,
                fl.bits() as u64 & TRUNC_BIT,
                &managed_state(&b),
            ),
            Ok(None) => ev(0, 0, 0, &[0]),
            Err(e) => err(&e),
        },
        (DgSock::Udp(s), 7) => {
            let BufResult(res, buf) = s.recv(canary_vec(len, cap)).await;
            match res {
                Ok(n) => ev(n as u64, 0, 0, &vec_state(&buf)),
                Err(e) => err(&e),
            }
        }
        (DgSock::Udp(s), 8) => {
            let bufs: Vec<Vec<u8>> =
                split_sizes(cap, members).iter().map(|&c| canary_vec(0, c)).collect();
            let BufResult(res, bufs) = s.recv_vectored(bufs).await;
            let st: Vec<u64> = bufs.iter().flat_map(vec_state).collect();
            match res {
                Ok(n) => ev(n as u64, 0, 0, &st),
                Err(e) => err(&e),
            }
        }
        (DgSock::Udp(s), 9) => match s.recv_managed(cap).await {
            Ok(Some(b)) => ev(b.len() as u64, 0, 0, &managed_state(&b)),
            Ok(None) => ev(0, 0, 0, &[0]),
            Err(e) => err(&e),
        },
        // driver-level operations + the result mapping of compio-net's Socket
        (DgSock::Raw(fd), 1) => {
            let op = RecvFrom::new(fd.clone(), canary_vec(len, cap), rflags(g.flags));
            let res = compio_runtime::submit(op).await.into_inner().map_addr();
            let BufResult(res, buf) = unsafe { res.map_advanced() };
            match res {
                Ok((n, a)) => ev(n as u64, addr_code(tr, a.as_ref()), 0, &vec_state(&buf)),
                Err(e) => err(&e),
            }
        }
        (DgSock::Raw(fd), 2) => {
            let bufs: Vec<Vec<u8>> =
                split_sizes(cap, members).iter().map(|&c| canary_vec(0, c)).collect();
            let op = RecvFromVectored::new(fd.clone(), bufs, rflags(g.flags));
            let res = compio_runtime::submit(op).await.into_inner().map_addr();
            let BufResult(res, bufs) = unsafe { res.map_vec_advanced() };
            let st: Vec<u64> = bufs.iter().flat_map(vec_state).collect();
            match res {
                Ok((n, a)) => ev(n as u64, addr_code(tr, a.as_ref()), 0, &st),
                Err(e) => err(&e),
            }
        }
        (DgSock::Raw(fd), 3) | (DgSock::Raw(fd), 4) => {
            let bufs: Vec<Vec<u8>> = if g.rkind == 3 {
                vec![canary_vec(len, cap)]
            } else {
                split_sizes(cap, members).iter().map(|&c| canary_vec(0, c)).collect()
            };
            let single = g.rkind == 3;
            let op = RecvMsg::new(fd.clone(), bufs, ctrl_buf(), rflags(g.flags));
            let res = compio_runtime::submit(op).await.into_inner().map_addr();
            // recv_msg (single buffer) maps with advance_to on the one member,
            // which is what map_vec_advanced does for a fresh one-member vector
            let BufResult(res, (bufs, _c)) = unsafe { res.map_vec_advanced() };
            let st: Vec<u64> = bufs.iter().flat_map(vec_state).collect();
            let _ = single;
            match res {
                Ok((n, _cl, a, fl)) => ev(
                    n as u64,
                    addr_code(tr, a.as_ref()),
                    fl.bits() as u64 & TRUNC_BIT,
                    &st,
                ),
                Err(e) => err(&e),
            }
        }
        (DgSock::Raw(fd), 7) => {
            let op = Recv::new(fd.clone(), canary_vec(len, cap), rflags(g.flags));
            let res = compio_runtime::submit(op).await.into_inner();
            let BufResult(res, buf) = unsafe { res.map_advanced() };
            match res {
                Ok(n) => ev(n as u64, 0, 0, &vec_state(&buf)),
                Err(e) => err(&e),
            }
        }
        (DgSock::Raw(fd), 8) => {
            let bufs: Vec<Vec<u8>> =
                split_sizes(cap, members).iter().map(|&c| canary_vec(0, c)).collect();
            let op = RecvVectored::new(fd.clone(), bufs, rflags(g.flags));
            let res = compio_runtime::submit(op).await.into_inner();
            let BufResult(res, bufs) = unsafe { res.map_vec_advanced() };
            let st: Vec<u64> = bufs.iter().flat_map(vec_state).collect();
            match res {
                Ok(n) => ev(n as u64, 0, 0, &st),
                Err(e) => err(&e),
            }
        }
        _ => {
            log.push([6, 0, idx, 9998, 0, 0, g.rkind]);
        }
    }
}

fn dg_payload(seed: u64, idx: u64, size: usize) -> Vec<u8> {
    pat_vec(seed + 131 * idx, 0, size, (idx as usize * 7) % 11)
}

enum DgTx {
    Udp(UdpSocket, std::net::SocketAddr),
    Raw(SharedFd<socket2::Socket>, socket2::SockAddr),
}

/// event: [1 idx size accepted bufok skind sender]
async fn dg_send(tx: &DgTx, seed: u64, idx: u64, g: Dg, log: &Log) {
    let size = g.size as usize;
    let members = 3usize;
    let single = || dg_payload(seed, idx, size);
    let multi = || -> Vec<Vec<u8>> {
        let whole = dg_payload(seed, idx, size);
        let mut out = Vec::new();
        let mut p = 0;
        for (i, s) in split_sizes(size, members).into_iter().enumerate() {
            let mut v = Vec::with_capacity(s + i);
            v.extend_from_slice(&whole[p..p + s]);
            p += s;
            out.push(v);
        }
        out
    };
    let mut fin = |res: io::Result<usize>, ok: bool| match res {
        Ok(n) => {
            log.push([1, idx, size as u64, n as u64, u64::from(ok), g.skind, g.sender]);
        }
        Err(e) => {
            log.push([7, idx, errno_of(&e), 0, u64::from(ok), g.skind, g.sender]);
        }
    };
    match (tx, g.skind) {
        (DgTx::Udp(s, to), 1) => {
            let b = single();
            let before = vec_state(&b);
            let BufResult(res, b) = s.send_to(b, *to).await;
            fin(res, vec_state(&b) == before);
        }
        (DgTx::Udp(s, to), 2) => {
            let b = multi();
            let before: Vec<u64> = b.iter().flat_map(vec_state).collect();
            let BufResult(res, b) = s.send_to_vectored(b, *to).await;
            fin(res, b.iter().flat_map(vec_state).collect::<Vec<u64>>() == before);
        }
        (DgTx::Udp(s, to), 3) => {
            let b = single();
            let before = vec_state(&b);
            let BufResult(res, fut) = s.send_to_zerocopy(b, *to).await;
            let b = fut.await;
            fin(res, vec_state(&b) == before);
        }
        (DgTx::Udp(s, to), 4) => {
            let b = multi();
            let before: Vec<u64> = b.iter().flat_map(vec_state).collect();
            let BufResult(res, fut) = s.send_to_zerocopy_vectored(b, *to).await;
            let b = fut.await;
            fin(res, b.iter().flat_map(vec_state).collect::<Vec<u64>>() == before);
        }
        (DgTx::Udp(s, to), 5) => {
            let b = single();
            let before = vec_state(&b);
            let BufResult(res, (b, _)) = s.send_msg(b, Vec::<u8>::new(), *to).await;
            fin(res, vec_state(&b) == before);
        }
        // connected-socket variants (the sender sockets are connected to the receiver)
        (DgTx::Udp(s, _), 6) => {
            let b = single();
            let before = vec_state(&b);
            let BufResult(res, b) = s.send(b).await;
            fin(res, vec_state(&b) == before);
        }
        (DgTx::Udp(s, _), 7) => {
            let b = multi();
            let before: Vec<u64> = b.iter().flat_map(vec_state).collect();
            let BufResult(res, b) = s.send_vectored(b).await;
            fin(res, b.iter().flat_map(vec_state).collect::<Vec<u64>>() == before);
        }
        (DgTx::Udp(s, _), 8) => {
            let b = single();
            let before = vec_state(&b);
            let BufResult(res, fut) = s.send_zerocopy(b).await;
            let b = fut.await;
            fin(res, vec_state(&b) == before);
        }
        (DgTx::Udp(s, _), 9) => {
            let b = multi();
            let before: Vec<u64> = b.iter().flat_map(vec_state).collect();
            let BufResult(res, fut) = s.send_zerocopy_vectored(b).await;
            let b = fut.await;
            fin(res, b.iter().flat_map(vec_state).collect::<Vec<u64>>() == before);
        }
        (DgTx::Raw(fd, to), 2) => {
            let b = multi();
            let before: Vec<u64> = b.iter().flat_map(vec_state).collect();
            let op = SendToVectored::new(
                fd.clone(),
                b,
                to.clone(),
                compio_driver::op::SendFlags::empty(),
            );
            let BufResult(res, b) = compio_runtime::submit(op).await.into_inner();
            fin(res, b.iter().flat_map(vec_state).collect::<Vec<u64>>() == before);
        }
        (DgTx::Raw(fd, to), _) => {
            let b = single();
            let before = vec_state(&b);
            let op = SendTo::new(fd.clone(), b, to.clone(), compio_driver::op::SendFlags::empty());
            let BufResult(res, b) = compio_runtime::submit(op).await.into_inner();
            fin(res, vec_state(&b) == before);
        }
        _ => {
            log.push([7, idx, 9998, 0, 0, g.skind, g.sender]);
        }
    }
}

fn raw_dgram(tr: u64, tag: &str) -> (SharedFd<socket2::Socket>, socket2::SockAddr, Option<std::path::PathBuf>) {
    use socket2::{Domain, SockAddr, Socket, Type};
    if tr == 1 {
        let path = uniq_path(tag);
        let _ = std::fs::remove_file(&path);
        let s = Socket::new(Domain::UNIX, Type::DGRAM.nonblocking().cloexec(), None).unwrap();
        let a = SockAddr::unix(&path).unwrap();
        s.bind(&a).unwrap();
        (SharedFd::new(s), a, Some(path))
    } else {
        let s = Socket::new(Domain::IPV4, Type::DGRAM.nonblocking().cloexec(), None).unwrap();
        let a: std::net::SocketAddr = "127.0.0.1:0".parse().unwrap();
        s.bind(&a.into()).unwrap();
        let a = s.local_addr().unwrap();
        (SharedFd::new(s), a, None)
    }
}

fn dgram_case(c: &mut Case) -> Result<Vec<u64>, BadCase> {
    let drv = c.take()?;
    let tr = c.take()?;
    let plen = c.take()?;
    let psize = c.take()?;
    let seed = c.take()?;
    let nsend = c.take()?;
    let window = c.take()?;
    let mkind = c.take()?;
    let mcount = c.take()?;
    let n = c.take()? as usize;
    if tr > 2 || seed > 60000 || nsend == 0 || nsend > 4 || window == 0 || window > 8 || n > 64
        || mkind > 3 || mcount as usize > n || (mkind == 0) != (mcount == 0) || (mkind > 0 && tr != 0)
        // a multishot recvmsg buffer also holds the 16-byte header and the 128-byte name area
        || (mkind >= 2 && plen < 256)
    {
        return Err(BadCase);
    }
    let mut ds = Vec::new();
    for _ in 0..n {
        let g = Dg {
            skind: c.take()?,
            size: c.take()?,
            sender: c.take()?,
            rkind: c.take()?,
            cap: c.take()?,
            len: c.take()?,
            flags: c.take()?,
        };
        if g.size > 60000 || g.cap > 70000 || g.sender >= nsend || g.flags > 1 || g.skind == 0
            || g.skind > 9 || (g.skind > 5 && tr != 0) || g.rkind == 0 || g.rkind > 9 || (g.flags == 1 && tr == 0)
        {
            return Err(BadCase);
        }
        ds.push(g);
    }
    if c.i != c.v.len() {
        return Err(BadCase);
    }
    let rt = build_rt(drv, plen, psize)?;
    let log = Rc::new(Log::default());
    let l2 = log.clone();
    let fin = rt.block_on(async move {
        let log = l2;
        timeout(Duration::from_millis(watchdog_ms()), async move {
            let mut paths = Vec::new();
            // receiver + senders
            let (rx, txs): (DgSock, Vec<DgTx>) = if tr == 0 {
                let r = UdpSocket::bind("127.0.0.1:0").await.unwrap();
                let to = r.local_addr().unwrap();
                let mut v = Vec::new();
                for i in 0..nsend {
                    let s = UdpSocket::bind("127.0.0.1:0").await.unwrap();
                    s.connect(to).await.unwrap();
                    log.push([10, i, s.local_addr().unwrap().port() as u64, 0, 0, 0, 0]);
                    v.push(DgTx::Udp(s, to));
                }
                (DgSock::Udp(r), v)
            } else {
                let (r, ra, p) = raw_dgram(tr, "r");
                paths.extend(p);
                let mut v = Vec::new();
                for i in 0..nsend {
                    let (s, sa, p) = raw_dgram(tr, &format!("s{i}"));
                    paths.extend(p);
                    log.push([10, i, addr_code(tr, Some(&sa)), 0, 0, 0, 0]);
                    v.push(DgTx::Raw(s, ra.clone()));
                }
                (DgSock::Raw(r), v)
            };
            let nsingle = n - mcount as usize;
            let mut sent = 0usize;
            for i in 0..nsingle {
                while sent < n.min(i + window as usize).min(if mcount > 0 { nsingle } else { n }) {
                    let pid = log.begin(0, sent as u64, P_DG_SEND, ds[sent].size, 0, ds[sent].skind);
                    dg_send(&txs[ds[sent].sender as usize], seed, sent as u64, ds[sent], &log).await;
                    log.end(pid);
                    sent += 1;
                }
                let pid = log.begin(0, i as u64, P_DG_RECV, ds[i].cap, ds[i].size, ds[i].rkind);
                dg_recv(&rx, tr, i as u64, ds[i], &log).await;
                log.end(pid);
            }
            // multishot phase: one stream for the last `mcount` datagrams
            if mcount > 0 {
                let DgSock::Udp(r) = &rx else { unreachable!() };
                let mut got = nsingle;
                macro_rules! phase {
                    ($st:expr, $item:ident => $n:expr, $addr:expr, $fl:expr, $data:expr) => {{
                        let mut st = std::pin::pin!($st);
                        let mut errs = 0;
                        while got < n && errs < 64 {
                            while sent < n.min(got + window as usize) {
                                let pid = log.begin(0, sent as u64, P_DG_SEND, ds[sent].size, 0, ds[sent].skind);
                                dg_send(&txs[ds[sent].sender as usize], seed, sent as u64, ds[sent], &log).await;
                                log.end(pid);
                                sent += 1;
                            }
                            let pid = log.begin(0, got as u64, P_DG_RECV, 0, ds[got].size, 10 + mkind);
                            let item = st.next().await;
                            log.end(pid);
                            match item {
                                Some(Ok($item)) => {
                                    log.push([5, got as u64, $n, $addr, $fl, hash_of(&managed_state($data)), 10 + mkind]);
                                    got += 1;
                                }
                                Some(Err(e)) => {
                                    log.push([6, 0, got as u64, errno_of(&e), 0, 0, 10 + mkind]);
                                    errs += 1;
                                    Yield(false).await;
                                }
                                None => {
                                    log.push([4, 0, got as u64, 0, 0, 0, 10 + mkind]);
                                    errs += 1;
                                }
                            }
                        }
                    }};
                }
                match mkind {
                    1 => phase!(r.recv_multi(0), b => b.len() as u64, 0, 0, &b[..]),
                    2 => phase!(r.recv_from_multi(), b => b.data().len() as u64,
                                addr_code(0, b.addr().as_ref()), 0, b.data()),
                    // the reserved control length varies with the case (also values that are not a
                    // multiple of the cmsg alignment): the payload must be found behind it all the same
                    _ => phase!(r.recv_msg_multi([64usize, 20, 33, 16, 7][(n + mcount as usize) % 5]),
                                b => b.data().len() as u64,
                                addr_code(0, b.addr().as_ref()),
                                b.flags().bits() as u64 & TRUNC_BIT, b.data()),
                }
            }
            for p in paths {
                let _ = std::fs::remove_file(p);
            }
        })
        .await
        .is_ok()
    });
    if !fin {
        return Ok(log.out_stalled());
    }
    drop(rt);
    Ok(log.out())
}

// ---------------------------------------------------------------------------
// accept mode

/// runs its closure when the owning task finishes normally; a task that is
/// torn down with the runtime (watchdog) is reported as pending instead
struct Finish(Option<Box<dyn FnOnce()>>);
impl Finish {
    fn done(mut self) {
        if let Some(f) = self.0.take() {
            f()
        }
    }
}

struct Gate {
    done: Cell<u64>,
    need: u64,
    waker: RefCell<Option<Waker>>,
}

struct GateWait(Rc<Gate>);
impl Future for GateWait {
    type Output = ();
    fn poll(self: Pin<&mut Self>, cx: &mut Context<'_>) -> Poll<()> {
        if self.0.done.get() >= self.0.need {
            Poll::Ready(())
        } else {
            *self.0.waker.borrow_mut() = Some(cx.waker().clone());
            Poll::Pending
        }
    }
}

impl Gate {
    fn arrive(&self) {
        self.done.set(self.done.get() + 1);
        if let Some(w) = self.waker.borrow_mut().take() {
            w.wake();
        }
    }
}

macro_rules! accept_body {
    ($L:ty, $S:ty, $listener:expr, $connect:expr, $k:expr, $mode:expr, $j:expr, $log:expr, $port_of:expr, $lport_of:expr) => {{
        let l: $L = $listener;
        let k: u64 = $k;
        let log: Rc<Log> = $log;
        let gate = Rc::new(Gate { done: Cell::new(0), need: k, waker: RefCell::new(None) });
        // clients: connect, send the id, wait for the acknowledgement or EOF
        let mut clients = Vec::new();
        for i in 0..k {
            let log = log.clone();
            let gate = gate.clone();
            let fut = $connect;
            clients.push(compio_runtime::spawn(async move {
                let pid = log.begin(0, i, P_CLIENT, 0, 0, 0);
                let log2 = log.clone();
                let fin = Finish(Some(Box::new(move || log2.end(pid))));
                let mut s: $S = match fut.await {
                    Ok(s) => s,
                    Err(e) => {
                        log.push([11, i, 0, 3, errno_of(&e), 0, 0]);
                        fin.done();
                        gate.arrive();
                        return;
                    }
                };
                let lport: u64 = $lport_of(&s);
                let _ = s.write(vec![i as u8 + 1]).await;
                let BufResult(res, buf) = s.read(Vec::with_capacity(4)).await;
                // 1 = served (acknowledged), 2 = dropped (EOF / reset, no ack)
                let st = match res {
                    Ok(n) if n >= 1 && buf[0] == i as u8 + 1 => 1,
                    _ => 2,
                };
                log.push([11, i, lport, st, 0, 0, 0]);
                fin.done();
                gate.arrive();
            }));
        }
        let serve = |mut s: $S, via: u64, port: u64, log: Rc<Log>| async move {
            let BufResult(res, buf) = s.read(Vec::with_capacity(4)).await;
            let id = match res {
                Ok(n) if n >= 1 => buf[0] as u64,
                _ => 0,
            };
            let _ = s.write(vec![id as u8]).await;
            log.push([12, id, port, via, 0, 0, 0]);
        };
        let mut served = 0u64;
        if $mode == 2 || $mode == 3 {
            let want = if $mode == 2 { k } else { $j.min(k) };
            {
                let mut inc = l.incoming();
                while served < want {
                    let pid = log.begin(0, served, P_ACCEPT, k, served, 2);
                    let item = inc.next().await;
                    log.end(pid);
                    match item {
                        Some(Ok(s)) => {
                            let port: u64 = $port_of(&s);
                            serve(s, 2, port, log.clone()).await;
                            served += 1;
                        }
                        Some(Err(e)) => {
                            log.push([6, 0, served, errno_of(&e), 0, 0, 2]);
                            break;
                        }
                        None => break,
                    }
                }
                // the incoming stream is dropped here
            }
            if $mode == 3 {
                log.push([4, 0, 0, 1, served, 0, 0]);
            }
        }
        if $mode == 1 || $mode == 3 {
            loop {
                if $mode == 1 && served >= k {
                    break;
                }
                let acc = std::pin::pin!(l.accept());
                let wait = std::pin::pin!(GateWait(gate.clone()));
                let pid = log.begin(0, served, P_ACCEPT, k, served, 1);
                let sel = futures_util::future::select(acc, wait).await;
                log.end(pid);
                match sel {
                    futures_util::future::Either::Left((Ok((s, _a)), _)) => {
                        let port: u64 = $port_of(&s);
                        serve(s, 1, port, log.clone()).await;
                        served += 1;
                    }
                    futures_util::future::Either::Left((Err(e), _)) => {
                        log.push([6, 0, served, errno_of(&e), 0, 0, 1]);
                        break;
                    }
                    futures_util::future::Either::Right(_) => break,
                }
            }
        }
        for t in clients {
            let _ = t.await;
        }
    }};
}

fn accept_case(c: &mut Case) -> Result<Vec<u64>, BadCase> {
    let drv = c.take()?;
    let tr = c.take()?;
    let k = c.take()?;
    let mode = c.take()?;
    let j = c.take()?;
    if tr > 1 || k == 0 || k > 24 || mode == 0 || mode > 3 || j > k || c.i != c.v.len() {
        return Err(BadCase);
    }
    let rt = build_rt(drv, 4096, 4)?;
    let log = Rc::new(Log::default());
    let l2 = log.clone();
    let fin = rt.block_on(async move {
        timeout(Duration::from_millis(watchdog_ms()), async move {
            if tr == 0 {
                let l = TcpListener::bind("127.0.0.1:0").await.unwrap();
                let addr = l.local_addr().unwrap();
                accept_body!(
                    TcpListener, TcpStream, l, TcpStream::connect(addr), k, mode, j, l2,
                    |s: &TcpStream| s.peer_addr().map(|a| a.port() as u64).unwrap_or(0),
                    |s: &TcpStream| s.local_addr().map(|a| a.port() as u64).unwrap_or(0)
                );
            } else {
                let path = uniq_path("acc");
                let _ = std::fs::remove_file(&path);
                let l = UnixListener::bind(&path).await.unwrap();
                let p2 = path.clone();
                accept_body!(
                    UnixListener, UnixStream, l, {
                        let p = p2.clone();
                        async move { UnixStream::connect(&p).await }
                    }, k, mode, j, l2,
                    |_s: &UnixStream| 0u64,
                    |_s: &UnixStream| 0u64
                );
                let _ = std::fs::remove_file(&path);
            }
        })
        .await
        .is_ok()
    });
    if !fin {
        return Ok(log.out_stalled());
    }
    drop(rt);
    Ok(log.out())
}

// ---------------------------------------------------------------------------
// bulk mode: back-pressure.  One direction only: X writes several MiB (far
// above the socket buffers) with every send flavour, Y ONLY reads and never
// sends a byte, so a blocked send can be resumed by nothing but the socket
// becoming writable (and a blocked receive by nothing but it becoming readable).
//   case: 4 drv tr split sbuf rbuf seed who delay pace rcap nops (kind total chunk)*
//   who = 0: the reader starts `delay` ms late (the writer hits the full buffer)
//   who = 1: the writer starts `delay` ms late (the reader blocks on an empty socket)
//   kinds: 1 write loop, 2 write_vectored loop, 3 write_all, 4 write_vectored_all,
//          5 write_zerocopy loop, 6 write_zerocopy_vectored loop

struct Bulk {
    seed: u64,
    spos: Cell<u64>,
    rpos: Cell<u64>,
    reads_done: Cell<u64>,
    /// send calls during which the reader completed at least one read
    spanned: Cell<u64>,
    eofs: Cell<u64>,
    mismatch: Cell<bool>,
    log: Rc<Log>,
}

fn bulk_buf(seed: u64, pos: u64, len: usize) -> Vec<u8> {
    (0..len as u64).map(|i| pat(seed, pos + i)).collect()
}

fn bulk_bufs(seed: u64, pos: u64, len: usize) -> Vec<Vec<u8>> {
    let mut out = Vec::new();
    let mut p = pos;
    for sz in split_sizes(len, 3) {
        out.push(bulk_buf(seed, p, sz));
        p += sz as u64;
    }
    out
}

fn csum(v: &[u8]) -> u64 {
    v.iter().fold(v.len() as u64, |a, &b| a.wrapping_mul(31).wrapping_add(b as u64))
}

async fn bulk_sender<W: Wr>(mut w: W, ops: Vec<Op>, b: Rc<Bulk>, delay: u64) {
    let log = b.log.clone();
    if delay > 0 {
        sleep(Duration::from_millis(delay)).await;
    }
    'ops: for (idx, op) in ops.iter().enumerate() {
        let idx = idx as u64;
        let total = op.a;
        let mut done = 0u64;
        while done < total {
            let pos = b.spos.get();
            let whole = matches!(op.k, 3 | 4);
            let offered = if whole { total } else { op.b.min(total - done) } as usize;
            let slot = log.push([1, 1, idx, offered as u64, 0, 0, op.k]);
            let pid = log.begin(1, idx, P_SEND, offered as u64, pos, op.k);
            let reads0 = b.reads_done.get();
            // (result, buffer returned unchanged)
            let (res, ok): (io::Result<usize>, bool) = match op.k {
                1 => {
                    let buf = bulk_buf(b.seed, pos, offered);
                    let c = csum(&buf);
                    let BufResult(r, back) = w.w(buf).await;
                    (r, csum(&back) == c)
                }
                3 => {
                    let buf = bulk_buf(b.seed, pos, offered);
                    let c = csum(&buf);
                    let BufResult(r, back) = w.wall(buf).await;
                    (r.map(|_| offered), csum(&back) == c)
                }
                5 => {
                    let buf = bulk_buf(b.seed, pos, offered);
                    let c = csum(&buf);
                    let (r, back) = w.zc(buf, false).await;
                    (r, csum(&back) == c)
                }
                2 | 4 | 6 => {
                    let bufs = bulk_bufs(b.seed, pos, offered);
                    let c: Vec<u64> = bufs.iter().map(|m| csum(m)).collect();
                    let (r, back) = match op.k {
                        2 => {
                            let BufResult(r, back) = w.wv(bufs).await;
                            (r, back)
                        }
                        4 => {
                            let BufResult(r, back) = w.wvall(bufs).await;
                            (r.map(|_| offered), back)
                        }
                        _ => w.zcv(bufs, false).await,
                    };
                    (r, back.iter().map(|m| csum(m)).collect::<Vec<u64>>() == c)
                }
                _ => (Err(io::Error::from_raw_os_error(9998)), false),
            };
            log.end(pid);
            if b.reads_done.get() > reads0 {
                b.spanned.set(b.spanned.get() + 1);
            }
            match res {
                Ok(n) => {
                    let n = n.min(offered) as u64;
                    b.spos.set(pos + n);
                    done += n;
                    log.set(slot, [1, 1, idx, offered as u64, n, u64::from(ok), op.k]);
                    if n == 0 && offered > 0 {
                        continue 'ops;
                    }
                }
                Err(e) => {
                    log.set(slot, [7, 1, idx, errno_of(&e), 0, u64::from(ok), op.k]);
                    continue 'ops;
                }
            }
        }
    }
    let slot = log.push([2, 1, 0, 0, 0, 0, 0]);
    let pid = log.begin(1, ops.len() as u64, P_SHUTDOWN, 0, b.spos.get(), 0);
    if let Err(e) = w.shut().await {
        log.set(slot, [2, 1, errno_of(&e), 0, 0, 0, 0]);
    }
    log.end(pid);
}

async fn bulk_receiver<R: Rd>(mut r: R, b: Rc<Bulk>, delay: u64, pace: u64, rcap: usize) {
    let log = b.log.clone();
    if delay > 0 {
        sleep(Duration::from_millis(delay)).await;
    }
    let mut idx = 0u64;
    let mut eofs = 0;
    while eofs < 2 && idx < 1_000_000 {
        let pos = b.rpos.get();
        let pid = log.begin(1, idx, P_RECV, rcap as u64, pos, 1);
        let BufResult(res, buf) = r.r(Vec::with_capacity(rcap)).await;
        log.end(pid);
        b.reads_done.set(b.reads_done.get() + 1);
        match res {
            Ok(n) => {
                let ok = buf.len() == n
                    && buf.iter().enumerate().all(|(i, &x)| x == pat(b.seed, pos + i as u64));
                if !ok {
                    b.mismatch.set(true);
                }
                b.rpos.set(pos + n as u64);
                log.push([3, 1, idx, n as u64, pos, u64::from(ok), 1]);
                if n == 0 {
                    eofs += 1;
                    b.eofs.set(b.eofs.get() + 1);
                }
            }
            Err(e) => {
                log.push([6, 1, idx, errno_of(&e), 0, 0, 1]);
                break;
            }
        }
        idx += 1;
        if pace > 0 && idx % pace == 0 {
            sleep(Duration::from_millis(1)).await;
        }
    }
}

macro_rules! bulk_pair_run {
    ($x:expr, $y:expr, $split:expr, $ops:expr, $b:expr, $sd:expr, $rd:expr, $pace:expr, $rcap:expr) => {{
        let (x, y) = ($x, $y);
        match $split {
            0 => {
                futures_util::join!(
                    bulk_sender(Direct(&x), $ops, $b.clone(), $sd),
                    bulk_receiver(Direct(&y), $b.clone(), $rd, $pace, $rcap),
                );
            }
            1 => {
                let (_xr, xw) = x.split();
                let (yr, _yw) = y.split();
                futures_util::join!(
                    bulk_sender(BorrowedW(xw), $ops, $b.clone(), $sd),
                    bulk_receiver(BorrowedR(yr), $b.clone(), $rd, $pace, $rcap),
                );
            }
            _ => {
                let (_xr, xw) = x.into_split();
                let (yr, _yw) = y.into_split();
                let t1 = compio_runtime::spawn(bulk_sender(Owned(xw), $ops, $b.clone(), $sd));
                let t2 = compio_runtime::spawn(bulk_receiver(Owned(yr), $b.clone(), $rd, $pace, $rcap));
                for t in [t1, t2] {
                    compio_runtime::ResumeUnwind::resume_unwind(t.await);
                }
            }
        }
    }};
}

fn bulk_watchdog_ms() -> u64 {
    std::env::var("C14_BULK_WATCHDOG_MS").ok().and_then(|s| s.parse().ok()).unwrap_or(WATCHDOG_MS)
}

fn bulk_case(c: &mut Case) -> Result<Vec<u64>, BadCase> {
    let drv = c.take()?;
    let tr = c.take()?;
    let split = c.take()?;
    let sbuf = c.take()?;
    let rbuf = c.take()?;
    let seed = c.take()?;
    let who = c.take()?;
    let delay = c.take()?;
    let pace = c.take()?;
    let rcap = c.take()?;
    let n = c.take()? as usize;
    if tr > 1 || split > 2 || sbuf > (1 << 22) || rbuf > (1 << 22) || seed > 60000 || who > 1
        || delay > 500 || pace > 1000 || rcap == 0 || rcap > (1 << 20) || n == 0 || n > 8
    {
        return Err(BadCase);
    }
    let mut ops = Vec::new();
    let mut sum = 0u64;
    for _ in 0..n {
        let (k, a, b) = (c.take()?, c.take()?, c.take()?);
        if k == 0 || k > 6 || a == 0 || a > (8 << 20) || b == 0 || b > (8 << 20) {
            return Err(BadCase);
        }
        sum += a;
        ops.push(Op { k, a, b });
    }
    if c.i != c.v.len() || sum > (16 << 20) {
        return Err(BadCase);
    }
    let rt = build_rt(drv, 4096, 4)?;
    let log = Rc::new(Log::default());
    let b = Rc::new(Bulk {
        seed,
        spos: Cell::new(0),
        rpos: Cell::new(0),
        reads_done: Cell::new(0),
        spanned: Cell::new(0),
        eofs: Cell::new(0),
        mismatch: Cell::new(false),
        log: log.clone(),
    });
    let (sd, rd) = if who == 0 { (0, delay) } else { (delay, 0) };
    let b2 = b.clone();
    let fin = rt.block_on(async move {
        let b = b2;
        timeout(Duration::from_millis(bulk_watchdog_ms()), async move {
            let pid = b.log.begin(0, 0, P_SETUP, 0, 0, 0);
            if tr == 0 {
                let l = TcpListener::bind("127.0.0.1:0").await.unwrap();
                let addr = l.local_addr().unwrap();
                let (x, y) = futures_util::join!(TcpStream::connect(addr), l.accept());
                let (x, (y, _)) = (x.unwrap(), y.unwrap());
                set_bufs(&x, sbuf, rbuf);
                set_bufs(&y, sbuf, rbuf);
                b.log.end(pid);
                bulk_pair_run!(x, y, split, ops, b, sd, rd, pace, rcap as usize);
            } else {
                let path = uniq_path("bulk");
                let _ = std::fs::remove_file(&path);
                let l = UnixListener::bind(&path).await.unwrap();
                let (x, y) = futures_util::join!(UnixStream::connect(&path), l.accept());
                let _ = std::fs::remove_file(&path);
                let (x, (y, _)) = (x.unwrap(), y.unwrap());
                set_bufs(&x, sbuf, rbuf);
                set_bufs(&y, sbuf, rbuf);
                b.log.end(pid);
                bulk_pair_run!(x, y, split, ops, b, sd, rd, pace, rcap as usize);
            }
        })
        .await
        .is_ok()
    });
    if !fin {
        log.push([19, 1, b.spos.get(), b.rpos.get(), 0, 0, 0]);
        return Ok(log.out_stalled());
    }
    let m = u64::from(!b.mismatch.get() && b.spos.get() == b.rpos.get());
    log.push([9, 1, b.spos.get(), b.rpos.get(), m, b.eofs.get(), b.spanned.get()]);
    drop(rt);
    Ok(log.out())
}

fn run(case: &[u64]) -> Result<Vec<u64>, BadCase> {
    let mut c = Case::new(case);
    match c.take()? {
        1 => stream_case(&mut c),
        2 => dgram_case(&mut c),
        3 => accept_case(&mut c),
        4 => bulk_case(&mut c),
        _ => Err(BadCase),
    }
}

fn main() {
    main_loop(run);
}
