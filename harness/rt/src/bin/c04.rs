//! C04 harness: task and join-handle lifecycle on the REAL compio_executor::Executor.
//!
//! kind 0 (compared exactly with coq/model/RunC04.v): a single-threaded program
//!   case = [0; max_interval; nops; (op a b c)*]      (ops: see RunC04.v)
//!   out  = 100 n id.. hot | 101 i code | 102 i code | 103 n (polls fut_drops out_taken
//!          out_dropped handle_wakes)* bad err
//! kind >= 1 (judged by the oracle only): cross-thread scenarios
//!   case = [kind; a; b; c]
//!   out  = 200 kind futures_dropped_once outputs_once home_thread_only no_stale_shared no_hang
use std::{
    future::Future,
    pin::Pin,
    sync::{
        Arc, Condvar, Mutex,
        atomic::{AtomicBool, AtomicU64, Ordering::SeqCst},
    },
    task::{Context, Poll, Wake, Waker},
    thread::{self, ThreadId},
    time::{Duration, Instant},
};

use compio_executor::{Executor, ExecutorConfig, JoinError, JoinHandle, verif};
use verif_harness::*;

// ---------------------------------------------------------------------------
// instrumentation

struct Stats {
    home: ThreadId,
    polls: AtomicU64,
    fut_drops: AtomicU64,
    out_made: AtomicU64,
    out_taken: AtomicU64,
    out_dropped: AtomicU64,
    wrong_thread: AtomicBool,
    order: Arc<Mutex<Vec<u64>>>,
    id: u64,
}

impl Stats {
    fn new(id: u64, order: Arc<Mutex<Vec<u64>>>) -> Arc<Self> {
        Arc::new(Stats {
            home: thread::current().id(),
            polls: AtomicU64::new(0),
            fut_drops: AtomicU64::new(0),
            out_made: AtomicU64::new(0),
            out_taken: AtomicU64::new(0),
            out_dropped: AtomicU64::new(0),
            wrong_thread: AtomicBool::new(false),
            order,
            id,
        })
    }

    fn at_home(&self) {
        if thread::current().id() != self.home {
            self.wrong_thread.store(true, SeqCst);
        }
    }
}

/// The output of a task (also the payload of its panic).
struct Out {
    stats: Arc<Stats>,
    taken: bool,
}

impl Out {
    fn new(stats: &Arc<Stats>) -> Self {
        stats.out_made.fetch_add(1, SeqCst);
        Out {
            stats: stats.clone(),
            taken: false,
        }
    }

    /// the handle's owner received it
    fn receive(mut self) {
        self.taken = true;
        self.stats.out_taken.fetch_add(1, SeqCst);
    }
}

impl Drop for Out {
    fn drop(&mut self) {
        if !self.taken {
            self.stats.out_dropped.fetch_add(1, SeqCst);
        }
    }
}

struct Scripted {
    stats: Arc<Stats>,
    mode: u64,
    n: u64,
    end: u64,
    saved: Arc<Mutex<Option<Waker>>>,
}

impl Future for Scripted {
    type Output = Out;

    fn poll(self: Pin<&mut Self>, cx: &mut Context<'_>) -> Poll<Out> {
        self.stats.at_home();
        let k = self.stats.polls.fetch_add(1, SeqCst);
        self.stats.order.lock().unwrap().push(self.stats.id);
        if k < self.n || self.end == 2 {
            if self.mode == 0 {
                let w = cx.waker().clone();
                let old = self.saved.lock().unwrap().replace(w);
                drop(old);
            } else {
                cx.waker().wake_by_ref();
            }
            return Poll::Pending;
        }
        if self.mode == 2 {
            // scheduled during the very poll in which it completes
            cx.waker().wake_by_ref();
        }
        if self.end == 1 {
            std::panic::panic_any(Out::new(&self.stats));
        }
        Poll::Ready(Out::new(&self.stats))
    }
}

impl Drop for Scripted {
    fn drop(&mut self) {
        self.stats.at_home();
        self.stats.fut_drops.fetch_add(1, SeqCst);
    }
}

/// The waker the owner of a JoinHandle polls it with.
struct Flag {
    wakes: AtomicU64,
    set: Mutex<bool>,
    cv: Condvar,
}

impl Flag {
    fn new() -> Arc<Self> {
        Arc::new(Flag {
            wakes: AtomicU64::new(0),
            set: Mutex::new(false),
            cv: Condvar::new(),
        })
    }

    /// waits until woken; false = timed out
    fn wait(&self, d: Duration) -> bool {
        let mut g = self.set.lock().unwrap();
        let end = Instant::now() + d;
        while !*g {
            let now = Instant::now();
            if now >= end {
                return false;
            }
            g = self.cv.wait_timeout(g, end - now).unwrap().0;
        }
        *g = false;
        true
    }
}

impl Wake for Flag {
    fn wake(self: Arc<Self>) {
        self.wake_by_ref()
    }

    fn wake_by_ref(self: &Arc<Self>) {
        self.wakes.fetch_add(1, SeqCst);
        *self.set.lock().unwrap() = true;
        self.cv.notify_all();
    }
}

fn receive(res: Result<Out, JoinError>) -> u64 {
    match res {
        Ok(out) => {
            out.receive();
            1
        }
        Err(JoinError::Panicked(p)) => {
            if let Ok(out) = p.downcast::<Out>() {
                out.receive();
            }
            2
        }
        Err(JoinError::Cancelled) => 3,
    }
}

// ---------------------------------------------------------------------------
// kind 0: single-threaded programs

struct TaskSlot {
    stats: Arc<Stats>,
    saved: Arc<Mutex<Option<Waker>>>,
    handle: Option<JoinHandle<Out>>,
    flags: Vec<Arc<Flag>>,
}

fn spawn_scripted(
    exe: &Executor,
    id: u64,
    mode: u64,
    n: u64,
    end: u64,
    order: &Arc<Mutex<Vec<u64>>>,
) -> TaskSlot {
    let stats = Stats::new(id, order.clone());
    let saved = Arc::new(Mutex::new(None));
    let handle = exe.spawn(Scripted {
        stats: stats.clone(),
        mode,
        n,
        end,
        saved: saved.clone(),
    });
    TaskSlot {
        stats,
        saved,
        handle: Some(handle),
        flags: vec![Flag::new()],
    }
}

fn run_single(c: &mut Case) -> Result<Vec<u64>, BadCase> {
    let mi = c.take()?;
    let nops = c.take()? as usize;
    let ops = c.take_n(4 * nops)?;
    if c.i != c.v.len() {
        return Err(BadCase);
    }
    let order: Arc<Mutex<Vec<u64>>> = Arc::new(Mutex::new(Vec::new()));
    let mut exe = Some(Executor::with_config(ExecutorConfig {
        max_interval: mi as u32,
        ..Default::default()
    }));
    let mut tasks: Vec<TaskSlot> = Vec::new();
    let mut out: Vec<u64> = Vec::new();
    for o in ops.chunks(4) {
        let (op, a, b, cc) = (o[0], o[1], o[2], o[3]);
        let i = a as usize;
        match op {
            1 => {
                if let Some(exe) = exe.as_ref() {
                    let id = tasks.len() as u64;
                    tasks.push(spawn_scripted(exe, id, a, b, cc, &order));
                }
            }
            2 => {
                if let Some(t) = tasks.get(i) {
                    let g = t.saved.lock().unwrap();
                    if let Some(w) = g.as_ref() {
                        w.wake_by_ref();
                    }
                }
            }
            3 => {
                if let Some(t) = tasks.get(i) {
                    let w = t.saved.lock().unwrap().take();
                    drop(w);
                }
            }
            4 => {
                if let Some(exe) = exe.as_ref() {
                    order.lock().unwrap().clear();
                    let hot = exe.tick();
                    let ord = order.lock().unwrap().clone();
                    out.push(100);
                    out.push(ord.len() as u64);
                    out.extend(ord);
                    out.push(hot as u64);
                }
            }
            5 => {
                out.push(101);
                out.push(a);
                match tasks.get_mut(i) {
                    Some(t) if t.handle.is_some() => {
                        if b == 1 {
                            t.flags.push(Flag::new());
                        }
                        let waker = Waker::from(t.flags.last().unwrap().clone());
                        let mut cx = Context::from_waker(&waker);
                        let h = t.handle.as_mut().unwrap();
                        match Pin::new(h).poll(&mut cx) {
                            Poll::Pending => out.push(0),
                            Poll::Ready(r) => {
                                t.handle = None;
                                out.push(receive(r));
                            }
                        }
                    }
                    _ => out.push(9),
                }
            }
            6 => {
                out.push(102);
                out.push(a);
                match tasks.get_mut(i) {
                    Some(t) if t.handle.is_some() => {
                        let h = t.handle.take().unwrap();
                        let waker = Waker::from(t.flags.last().unwrap().clone());
                        let mut cx = Context::from_waker(&waker);
                        let mut fut = Box::pin(h.cancel());
                        match fut.as_mut().poll(&mut cx) {
                            Poll::Ready(Some(o)) => {
                                o.receive();
                                out.push(1)
                            }
                            Poll::Ready(None) => out.push(0),
                            Poll::Pending => out.push(7),
                        }
                    }
                    _ => out.push(9),
                }
            }
            7 => {
                if let Some(t) = tasks.get_mut(i) {
                    drop(t.handle.take());
                }
            }
            8 => {
                if let Some(t) = tasks.get_mut(i) {
                    if let Some(h) = t.handle.take() {
                        h.detach();
                    }
                }
            }
            9 => {
                drop(exe.take());
            }
            _ => {}
        }
    }
    for t in tasks.iter_mut() {
        drop(t.handle.take());
    }
    for t in tasks.iter_mut() {
        let w = t.saved.lock().unwrap().take();
        drop(w);
    }
    drop(exe.take());
    out.push(103);
    out.push(tasks.len() as u64);
    let mut bad = false;
    for t in &tasks {
        let s = &t.stats;
        out.push(s.polls.load(SeqCst));
        out.push(s.fut_drops.load(SeqCst));
        out.push(s.out_taken.load(SeqCst));
        out.push(s.out_dropped.load(SeqCst));
        out.push(t.flags.iter().map(|f| f.wakes.load(SeqCst)).sum());
        bad |= s.wrong_thread.load(SeqCst);
        bad |= s.out_made.load(SeqCst) != s.out_taken.load(SeqCst) + s.out_dropped.load(SeqCst);
        // every waker a handle poll installed has been dropped again: once the handles, the
        // stored wakers and the executor are gone nobody but this table refers to a Flag
        bad |= t.flags.iter().any(|f| Arc::strong_count(f) != 1);
    }
    out.push(bad as u64);
    out.push(0);
    Ok(out)
}

// ---------------------------------------------------------------------------
// kind >= 1: cross-thread scenarios (oracle only)

const WATCHDOG: Duration = Duration::from_millis(3000);

struct Verdict {
    stats: Vec<Arc<Stats>>,
    stale0: u64,
    hang: bool,
}

impl Verdict {
    fn new() -> Self {
        verif::set_trap(true);
        Verdict {
            stats: Vec::new(),
            stale0: verif::stale_uses(),
            hang: false,
        }
    }

    fn finish(self, kind: u64) -> Vec<u64> {
        let fut_once = self.stats.iter().all(|s| s.fut_drops.load(SeqCst) == 1);
        let out_once = self.stats.iter().all(|s| {
            s.out_made.load(SeqCst) == s.out_taken.load(SeqCst) + s.out_dropped.load(SeqCst)
                && s.out_made.load(SeqCst) <= 1
        });
        let home = self.stats.iter().all(|s| !s.wrong_thread.load(SeqCst));
        let no_stale = verif::stale_uses() == self.stale0;
        for p in [
            verif::REMOTE_HOLDS_SHARED,
            verif::REMOTE_EARLY_RETURN,
            verif::REMOTE_SETTING_WAKER,
            verif::RUN_POLLED,
            verif::REMOTE_BEFORE_SETTING_WAKER,
            verif::TASK_DROP,
            verif::REMOTE_ABORT_SETTING_WAKER,
        ] {
            verif::block(p, false);
        }
        vec![
            200,
            kind,
            fut_once as u64,
            out_once as u64,
            home as u64,
            no_stale as u64,
            !self.hang as u64,
        ]
    }
}

fn spin(n: u64) {
    for _ in 0..n {
        std::hint::spin_loop();
    }
}

/// joins a thread under the watchdog; None = it did not finish
fn join_wd<T: Send + 'static>(h: thread::JoinHandle<T>) -> Option<thread::Result<T>> {
    let end = Instant::now() + WATCHDOG;
    while !h.is_finished() {
        if Instant::now() >= end {
            return None;
        }
        thread::yield_now();
    }
    Some(h.join())
}

/// a thread that owns a JoinHandle and awaits it: polls, sleeps until woken, polls again
fn await_remote(mut h: JoinHandle<Out>, delay: u64) -> thread::JoinHandle<Option<u64>> {
    thread::spawn(move || {
        spin(delay);
        let flag = Flag::new();
        let waker = Waker::from(flag.clone());
        let mut cx = Context::from_waker(&waker);
        loop {
            match Pin::new(&mut h).poll(&mut cx) {
                Poll::Ready(r) => return Some(receive(r)),
                Poll::Pending => {
                    if !flag.wait(WATCHDOG) {
                        // never woken: the completion was lost
                        std::mem::forget(h);
                        return None;
                    }
                }
            }
        }
    })
}

fn tick_until(exe: &Executor, mut done: impl FnMut() -> bool) -> bool {
    let end = Instant::now() + WATCHDOG;
    while !done() {
        exe.tick();
        if Instant::now() >= end {
            return false;
        }
        thread::yield_now();
    }
    true
}

/// 1: handle awaited on another thread while the task runs to completion (a pendings, b delay, c panic?)
fn k_remote_poll(a: u64, b: u64, c: u64) -> Vec<u64> {
    let mut v = Verdict::new();
    let order = Arc::new(Mutex::new(Vec::new()));
    let exe = Executor::new();
    let t = spawn_scripted(&exe, 0, 1, a % 4, c % 2, &order);
    v.stats.push(t.stats.clone());
    let th = await_remote(t.handle.unwrap(), b % 3000);
    let ok = tick_until(&exe, || th.is_finished());
    match join_wd(th) {
        Some(Ok(Some(_))) if ok => {}
        _ => v.hang = true,
    }
    drop(exe);
    v.finish(1)
}

/// 2: handle dropped (c = 0) / cancelled (c = 1) / detached (c = 2) on another thread while the task runs
fn k_remote_drop(a: u64, b: u64, c: u64) -> Vec<u64> {
    let mut v = Verdict::new();
    let order = Arc::new(Mutex::new(Vec::new()));
    let exe = Executor::new();
    let t = spawn_scripted(&exe, 0, 1, a % 5, 0, &order);
    v.stats.push(t.stats.clone());
    let h = t.handle.unwrap();
    let th = thread::spawn(move || {
        spin(b % 3000);
        match c % 3 {
            0 => drop(h),
            1 => {
                // JoinHandle::cancel awaited with a thread-parking waker
                let flag = Flag::new();
                let waker = Waker::from(flag.clone());
                let mut cx = Context::from_waker(&waker);
                let mut fut = Box::pin(h.cancel());
                loop {
                    match fut.as_mut().poll(&mut cx) {
                        Poll::Ready(Some(o)) => {
                            o.receive();
                            break;
                        }
                        Poll::Ready(None) => break,
                        Poll::Pending => {
                            if !flag.wait(WATCHDOG) {
                                std::mem::forget(fut);
                                return false;
                            }
                        }
                    }
                }
            }
            _ => h.detach(),
        }
        true
    });
    let stats = t.stats.clone();
    let mut rounds = 0;
    let ok = tick_until(&exe, || {
        rounds += 1;
        th.is_finished() && (stats.fut_drops.load(SeqCst) == 1 || rounds > 50)
    });
    match join_wd(th) {
        Some(Ok(true)) if ok => {}
        _ => v.hang = true,
    }
    drop(exe);
    v.finish(2)
}

/// 3: wakers woken / cloned / dropped on other threads while the executor ticks and is dropped
fn k_remote_wakers(a: u64, b: u64, c: u64) -> Vec<u64> {
    let mut v = Verdict::new();
    let order = Arc::new(Mutex::new(Vec::new()));
    let exe = Executor::with_config(ExecutorConfig {
        sync_queue_size: 1 + (c % 3) as usize,
        ..Default::default()
    });
    let ntasks = 1 + a % 3;
    let mut slots = Vec::new();
    for i in 0..ntasks {
        let t = spawn_scripted(&exe, i, 0, 2 + (a + i) % 3, 0, &order);
        v.stats.push(t.stats.clone());
        slots.push(t);
    }
    exe.tick();
    let mut threads = Vec::new();
    for (i, t) in slots.iter().enumerate() {
        for j in 0..2u64 {
            let w = t.saved.lock().unwrap().clone();
            let delay = (b + 37 * (i as u64) + 101 * j) % 2000;
            threads.push(thread::spawn(move || {
                let Some(w) = w else { return true };
                spin(delay);
                let r = std::panic::catch_unwind(std::panic::AssertUnwindSafe(|| {
                    w.wake_by_ref();
                    let w2 = w.clone();
                    w2.wake();
                    w.wake_by_ref();
                }));
                match r {
                    Ok(()) => {
                        drop(w);
                        true
                    }
                    Err(_) => {
                        // trapped on freed shared state: do not touch the task again
                        std::mem::forget(w);
                        false
                    }
                }
            }));
        }
    }
    for _ in 0..(b % 4) {
        exe.tick();
    }
    for t in slots.iter_mut() {
        if c % 2 == 0 {
            drop(t.handle.take());
        } else if let Some(h) = t.handle.take() {
            h.detach();
        }
        let w = t.saved.lock().unwrap().take();
        drop(w);
    }
    for _ in 0..(a % 3) {
        exe.tick();
    }
    // Executor::drop may (rightly) wait for a waker; the watchdog sits on the threads
    drop(exe);
    for th in threads {
        if join_wd(th).is_none() {
            v.hang = true;
        }
    }
    for t in slots.iter_mut() {
        let w = t.saved.lock().unwrap().take();
        drop(w);
    }
    v.finish(3)
}

/// releases a blocked scheduling point when the executor thread did not report within 300 ms
fn release_later(point: usize) -> (std::sync::mpsc::Sender<()>, thread::JoinHandle<bool>) {
    let (tx, rx) = std::sync::mpsc::channel::<()>();
    let th = thread::spawn(move || {
        let waited = rx.recv_timeout(Duration::from_millis(300)).is_err();
        verif::block(point, false);
        waited
    });
    (tx, th)
}

fn wake_on_thread(w: Waker) -> thread::JoinHandle<bool> {
    thread::spawn(move || {
        let r = std::panic::catch_unwind(std::panic::AssertUnwindSafe(|| w.wake_by_ref()));
        match r {
            Ok(()) => {
                drop(w);
                true
            }
            Err(_) => {
                std::mem::forget(w);
                false
            }
        }
    })
}

fn wait_arrived(point: usize, before: u64) -> bool {
    let end = Instant::now() + WATCHDOG;
    while verif::arrived(point) == before {
        if Instant::now() >= end {
            return false;
        }
        thread::yield_now();
    }
    true
}

/// 4: forced schedule: a waker on another thread holds the pointer to Shared while
///    (a = 0) the task completes in tick and the executor is dropped,
///    (a = 1) a second waker takes the early return and the executor is dropped
fn k_forced_teardown(a: u64) -> Vec<u64> {
    let mut v = Verdict::new();
    let order = Arc::new(Mutex::new(Vec::new()));
    let exe = Executor::new();
    let mut t = spawn_scripted(&exe, 0, 0, 1, 0, &order);
    v.stats.push(t.stats.clone());
    if let Some(h) = t.handle.take() {
        h.detach();
    }
    exe.tick();
    let wa = t.saved.lock().unwrap().clone().unwrap();
    let wb = wa.clone();
    let before = verif::arrived(verif::REMOTE_HOLDS_SHARED);
    verif::block(verif::REMOTE_HOLDS_SHARED, true);
    let ta = wake_on_thread(wa);
    if !wait_arrived(verif::REMOTE_HOLDS_SHARED, before) {
        v.hang = true;
    }
    let (tx, rel) = release_later(verif::REMOTE_HOLDS_SHARED);
    if a % 2 == 0 {
        wb.wake_by_ref(); // local wake: the task becomes hot
        drop(wb);
        exe.tick(); // completes, Task::drop, leaves the queue
    } else {
        let tb = wake_on_thread(wb);
        if join_wd(tb).is_none() {
            v.hang = true;
        }
    }
    let w = t.saved.lock().unwrap().take();
    drop(w);
    drop(exe);
    let _ = tx.send(());
    let _ = rel.join();
    if join_wd(ta).is_none() {
        v.hang = true;
    }
    v.finish(4)
}

/// 5: forced schedule: the handle is polled on another thread and sits inside the
///    SETTING_WAKER critical section while the task completes; the handle must
///    still learn about the completion
fn k_forced_poll(a: u64) -> Vec<u64> {
    let mut v = Verdict::new();
    let order = Arc::new(Mutex::new(Vec::new()));
    let exe = Executor::new();
    let t = spawn_scripted(&exe, 0, 1, 0, a % 2, &order);
    v.stats.push(t.stats.clone());
    let before = verif::arrived(verif::REMOTE_SETTING_WAKER);
    verif::block(verif::REMOTE_SETTING_WAKER, true);
    let th = await_remote(t.handle.unwrap(), 0);
    if !wait_arrived(verif::REMOTE_SETTING_WAKER, before) {
        v.hang = true;
    }
    exe.tick(); // the task completes; the executor sees the section open and skips the wake
    verif::block(verif::REMOTE_SETTING_WAKER, false);
    match join_wd(th) {
        Some(Ok(Some(_))) => {}
        _ => v.hang = true,
    }
    drop(exe);
    v.finish(5)
}

/// 6: forced schedule: the handle (polled Pending before) is polled again on another
///    thread, loads the state before the task completes, enters the critical section
///    after finish_running and stays there while the executor runs Task::drop.
///    The waker the first poll installed must still be released (reported in the
///    "outputs once" column: a leaked waker is a leaked reference to whatever it wakes).
fn k_forced_waker_release(a: u64) -> Vec<u64> {
    let mut v = Verdict::new();
    let order = Arc::new(Mutex::new(Vec::new()));
    let exe = Executor::new();
    let t = spawn_scripted(&exe, 0, 1, 1, a % 2, &order);
    v.stats.push(t.stats.clone());
    let mut h = t.handle.unwrap();
    let flag = Flag::new();
    exe.tick(); // first poll of the task: Pending, wakes itself
    let p_before = verif::REMOTE_BEFORE_SETTING_WAKER;
    let p_abort = verif::REMOTE_ABORT_SETTING_WAKER;
    let p_drop = verif::TASK_DROP;
    let (b0, a0, d0) = (
        verif::arrived(p_before),
        verif::arrived(p_abort),
        verif::arrived(p_drop),
    );
    let f2 = flag.clone();
    let (go_tx, go_rx) = std::sync::mpsc::channel::<()>();
    let th = thread::spawn(move || {
        let waker = Waker::from(f2.clone());
        let mut cx = Context::from_waker(&waker);
        // first poll: Pending, installs the waker
        let first = matches!(Pin::new(&mut h).poll(&mut cx), Poll::Pending);
        let _ = go_rx.recv();
        // second poll: walks through the forced schedule
        loop {
            match Pin::new(&mut h).poll(&mut cx) {
                Poll::Ready(r) => return first && receive(r) != 3,
                Poll::Pending => {
                    if !f2.wait(WATCHDOG) {
                        std::mem::forget(h);
                        return false;
                    }
                }
            }
        }
    });
    // let the first poll happen (it passes the two points unblocked)
    if !wait_arrived(p_before, b0) {
        v.hang = true;
    }
    let end = Instant::now() + WATCHDOG;
    while flag.wakes.load(SeqCst) == 0 && Arc::strong_count(&flag) < 3 && Instant::now() < end {
        thread::yield_now();
    }
    thread::sleep(Duration::from_millis(5));
    let b1 = verif::arrived(p_before);
    verif::block(p_before, true);
    verif::block(p_drop, true);
    verif::block(p_abort, true);
    let _ = go_tx.send(());
    // B: state loaded (not completed), parked before start_setting_waker
    if !wait_arrived(p_before, b1) {
        v.hang = true;
    }
    // the controller drives B and the executor thread (this one runs tick below)
    let ctl = thread::spawn(move || {
        let mut ok = true;
        ok &= wait_arrived(p_drop, d0); // E: finish_running done, parked at Task::drop
        verif::block(p_before, false); // B: start_setting_waker, sees HAS_RESULT, parks
        ok &= wait_arrived(p_abort, a0);
        verif::block(p_drop, false); // E: set_dropped while B is inside the section
        thread::sleep(Duration::from_millis(20));
        verif::block(p_abort, false); // B: leaves the section, takes the result
        ok
    });
    exe.tick(); // second poll of the task: Ready
    if !matches!(join_wd(ctl), Some(Ok(true))) {
        v.hang = true;
    }
    match join_wd(th) {
        Some(Ok(true)) => {}
        _ => v.hang = true,
    }
    drop(exe);
    let leaked = Arc::strong_count(&flag) != 1;
    let mut out = v.finish(6);
    if leaked {
        out[3] = 0;
    }
    out
}

fn run(case: &[u64]) -> Result<Vec<u64>, BadCase> {
    let mut c = Case::new(case);
    let kind = c.take()?;
    if kind == 0 {
        return run_single(&mut c);
    }
    let (a, b, cc) = (c.take()?, c.take()?, c.take()?);
    match kind {
        1 => Ok(k_remote_poll(a, b, cc)),
        2 => Ok(k_remote_drop(a, b, cc)),
        3 => Ok(k_remote_wakers(a, b, cc)),
        4 => Ok(k_forced_teardown(a)),
        5 => Ok(k_forced_poll(a)),
        6 => Ok(k_forced_waker_release(a)),
        _ => Err(BadCase),
    }
}

fn main() {
    main_loop(run);
}
