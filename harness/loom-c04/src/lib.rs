// loom models live in tests/loom_c04.rs
