#![cfg(loom)]
//! Loom models for C04 (search only). Every model runs the real Executor.
//! `quick_*` tests are small enough for the quick tier.
use std::{
    future::Future,
    pin::Pin,
    sync::{
        Arc,
        atomic::{AtomicUsize, Ordering::SeqCst},
    },
    task::{Context, Poll, Wake, Waker},
};

use compio_executor::{Executor, JoinHandle};
use loom::thread;

/// the waker of the handle's owner: counts wakes (plain std atomics: not part of the model)
struct Flag(AtomicUsize);
impl Wake for Flag {
    fn wake(self: Arc<Self>) {
        self.0.fetch_add(1, SeqCst);
    }
    fn wake_by_ref(self: &Arc<Self>) {
        self.0.fetch_add(1, SeqCst);
    }
}

struct CountDrop(Arc<AtomicUsize>);
impl Drop for CountDrop {
    fn drop(&mut self) {
        self.0.fetch_add(1, SeqCst);
    }
}

fn poll_once<T>(h: &mut JoinHandle<T>, flag: &Arc<Flag>) -> Poll<Result<T, compio_executor::JoinError>> {
    let waker = Waker::from(flag.clone());
    let mut cx = Context::from_waker(&waker);
    Pin::new(h).poll(&mut cx)
}

fn model(f: impl Fn() + Sync + Send + 'static) {
    let mut b = loom::model::Builder::new();
    if b.preemption_bound.is_none() {
        b.preemption_bound = Some(3);
    }
    b.check(f);
}

/// The minimal example that failed before ae1ad32: `async {42}`, another thread polls the
/// handle once with a flag waker while this thread ticks; Pending => the flag was set.
#[test]
fn quick_poll_vs_completion() {
    model(|| {
        let exe = Executor::new();
        let mut h = exe.spawn(async { 42usize });
        let flag = Arc::new(Flag(AtomicUsize::new(0)));
        let f2 = flag.clone();
        let t = thread::spawn(move || {
            let r = poll_once(&mut h, &f2);
            (r.is_pending(), h)
        });
        exe.tick();
        let (pending, mut h) = t.join().unwrap();
        if pending {
            assert!(
                flag.0.load(SeqCst) >= 1,
                "the task completed, the handle's last poll returned Pending, nobody woke it"
            );
            // and the next poll delivers the output
            match poll_once(&mut h, &flag) {
                Poll::Ready(Ok(42)) => {}
                _ => panic!("output did not reach the handle"),
            }
        }
        drop(h);
        drop(exe);
        assert_eq!(Arc::strong_count(&flag), 1, "the handle's waker was leaked");
    });
}

/// poll on another thread vs the executor's Task::drop (teardown with the task unfinished):
/// the future is dropped exactly once, the handle's waker is released.
#[test]
fn quick_poll_vs_teardown() {
    model(|| {
        let drops = Arc::new(AtomicUsize::new(0));
        let exe = Executor::new();
        let guard = CountDrop(drops.clone());
        let mut h = exe.spawn(async move {
            let _g = guard;
            std::future::pending::<()>().await
        });
        let flag = Arc::new(Flag(AtomicUsize::new(0)));
        let f2 = flag.clone();
        let t = thread::spawn(move || {
            let r = poll_once(&mut h, &f2);
            if let Poll::Ready(r) = r {
                assert!(r.is_err(), "an unfinished task cannot deliver an output");
            }
            drop(h);
        });
        exe.tick();
        drop(exe);
        t.join().unwrap();
        assert_eq!(drops.load(SeqCst), 1, "the future must be dropped exactly once");
        assert_eq!(Arc::strong_count(&flag), 1, "the handle's waker was leaked");
    });
}

/// handle dropped on another thread while the task runs: future dropped once, output
/// (if the task got to produce it) dropped once.
#[test]
fn quick_handle_drop_vs_run() {
    model(|| {
        let fut_drops = Arc::new(AtomicUsize::new(0));
        let out_drops = Arc::new(AtomicUsize::new(0));
        let exe = Executor::new();
        let g = CountDrop(fut_drops.clone());
        let o = out_drops.clone();
        let h = exe.spawn(async move {
            let _g = g;
            CountDrop(o)
        });
        let t = thread::spawn(move || drop(h));
        exe.tick();
        t.join().unwrap();
        exe.tick();
        drop(exe);
        assert_eq!(fut_drops.load(SeqCst), 1, "future dropped exactly once");
        assert!(out_drops.load(SeqCst) <= 1, "output dropped at most once");
    });
}

struct StoreWaker(Arc<std::sync::Mutex<Option<Waker>>>, usize);
impl Future for StoreWaker {
    type Output = ();
    fn poll(mut self: Pin<&mut Self>, cx: &mut Context<'_>) -> Poll<()> {
        if self.1 == 0 {
            return Poll::Ready(());
        }
        self.1 -= 1;
        *self.0.lock().unwrap() = Some(cx.waker().clone());
        Poll::Pending
    }
}

/// a waker woken on another thread while the executor is dropped: no use of the freed
/// shared state (compio_executor::verif registry), no hang.
#[test]
fn quick_wake_vs_teardown() {
    model(|| {
        let before = compio_executor::verif::stale_uses();
        let slot = Arc::new(std::sync::Mutex::new(None));
        let exe = Executor::new();
        exe.spawn(StoreWaker(slot.clone(), 1)).detach();
        exe.tick();
        let w = slot.lock().unwrap().take().unwrap();
        let t = thread::spawn(move || w.wake());
        drop(exe);
        t.join().unwrap();
        assert_eq!(compio_executor::verif::stale_uses(), before, "freed Shared was used");
    });
}

/// two wakers on two threads, the task may complete in between, then the executor is dropped
#[test]
fn two_wakers_vs_teardown() {
    model(|| {
        let before = compio_executor::verif::stale_uses();
        let slot = Arc::new(std::sync::Mutex::new(None));
        let exe = Executor::new();
        exe.spawn(StoreWaker(slot.clone(), 1)).detach();
        exe.tick();
        let w1: Waker = slot.lock().unwrap().take().unwrap();
        let w2 = w1.clone();
        let t1 = thread::spawn(move || w1.wake());
        let t2 = thread::spawn(move || w2.wake());
        exe.tick();
        drop(exe);
        t1.join().unwrap();
        t2.join().unwrap();
        assert_eq!(compio_executor::verif::stale_uses(), before, "freed Shared was used");
    });
}
