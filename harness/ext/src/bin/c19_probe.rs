// scratch probe (removed when the harness is done)
use std::{num::NonZeroUsize, time::Duration};

use compio_actor::{Actor, Call, Cluster, Handler, Mailbox};
use compio_dispatcher::Dispatcher;
use compio_driver::ProactorBuilder;

struct A;
#[derive(Debug)]
struct Gate(futures_channel::oneshot::Receiver<()>);
#[derive(Debug)]
struct Ask;

impl Actor for A {
    type Arguments = ();
    type Error = &'static str;
    type State = ();

    async fn pre_start(&self, _m: &Mailbox<Self>, (): ()) -> Result<(), Self::Error> {
        Ok(())
    }
}
impl Handler<Gate> for A {
    async fn handle(&self, _m: &Mailbox<Self>, g: Gate, _s: &mut ()) -> Result<(), Self::Error> {
        g.0.await.ok();
        Ok(())
    }
}
impl Handler<Call<Ask, u32>> for A {
    async fn handle(&self, _m: &Mailbox<Self>, c: Call<Ask, u32>, _s: &mut ()) -> Result<(), Self::Error> {
        c.reply(7).ok();
        Ok(())
    }
}

fn cluster(n: usize) -> Cluster {
    Cluster::from_dispatcher(
        Dispatcher::builder()
            .worker_threads(NonZeroUsize::new(n).unwrap())
            .build()
            .unwrap(),
    )
}

fn main() {
    let which = std::env::args().nth(1).unwrap_or_default();
    let rt = compio_runtime::Runtime::new().unwrap();
    match which.as_str() {
        "d11" => rt.block_on(async {
            let cl = cluster(1);
            let (mb, h) = cl.spawn(|| A, ()).await.unwrap();
            let (tx, rx) = futures_channel::oneshot::channel();
            mb.send(Gate(rx)).unwrap();
            compio_runtime::time::sleep(Duration::from_millis(20)).await;
            let mb2 = mb.clone();
            let call = compio_runtime::spawn(async move { mb2.call(Ask).await.map_err(|_| ()) });
            compio_runtime::time::sleep(Duration::from_millis(20)).await;
            println!("stop -> {}", mb.stop());
            tx.send(()).unwrap();
            println!("exit -> {:?}", h.await.is_ok());
            let r = compio_runtime::time::timeout(Duration::from_millis(500), call).await;
            println!("call -> {:?}", r.map(|x| x.ok()).map_err(|_| "HANG"));
            cl.join().await.unwrap();
        }),
        "join" => rt.block_on(async {
            let cl = cluster(1);
            let (mb, _h) = cl.spawn(|| A, ()).await.unwrap();
            let (_tx, rx) = futures_channel::oneshot::channel();
            mb.send(Gate(rx)).unwrap();
            compio_runtime::time::sleep(Duration::from_millis(20)).await;
            let mb2 = mb.clone();
            let call = compio_runtime::spawn(async move { mb2.call(Ask).await.map_err(|_| ()) });
            compio_runtime::time::sleep(Duration::from_millis(20)).await;
            cl.join().await.unwrap();
            println!("joined; closed={}", mb.is_closed());
            let r = compio_runtime::time::timeout(Duration::from_millis(500), call).await;
            println!("call -> {:?}", r.map(|x| x.ok()).map_err(|_| "HANG"));
        }),
        "boot" => {
            let mut pb = ProactorBuilder::new();
            pb.capacity(1 << 30);
            let d = Dispatcher::builder()
                .worker_threads(NonZeroUsize::new(2).unwrap())
                .proactor_builder(pb)
                .build();
            println!("build ok = {}", d.is_ok());
            let d = d.unwrap();
            std::thread::sleep(Duration::from_millis(100));
            let r = d.dispatch(|| async { 1 });
            println!("dispatch ok = {}", r.is_ok());
            let res = std::panic::catch_unwind(std::panic::AssertUnwindSafe(|| rt.block_on(d.join())));
            println!("join -> {:?}", res.map(|r| r.is_ok()).map_err(|_| "PANIC re-raised"));
            if let Ok(rx) = r {
                println!("rx -> {:?}", rt.block_on(rx));
            }
        }
        _ => {}
    }
}
