//! C19 harness: programs over the real compio-actor crate.
//!
//! kind 1 (deterministic, compared exactly with coq/model/RunC19.v run_kind1)
//!   case: [1; workers; end_mode; n_ops; (code a b c d)*]
//!     1 spawn   a=name(0 none) b=capacity c=flags d=supervisor index+1 (0 none)
//!               flags: bit0 pre_start fails, 1 post_start, 2 pre_stop, 3 post_stop,
//!                      4 (as supervisor) stop the child on ActorStarted, 5 drop the spawn future
//!     2 send    a=actor b=id c=behaviour   -> 1 ok 2 full 3 closed 0 no mailbox
//!     3 call    a=actor b=id c=behaviour   -> status after the first poll
//!     4 stop    a=actor                    -> 1/0
//!     5 lookup  a=name                     -> found capacity closed
//!     6 release a=actor (opens its gate)   -> 1/0
//!     7 gjoin   a=group b=actor            -> member id
//!     8 gsend   a=group b=id c=behaviour   -> 1/2/3
//!     9 gleave  a=group b=member id
//!    10 glen    a=group                    -> len
//!    11 gcall   a=group(1) b=id c=behaviour-> status
//!    12 spawn whose pre_start is held open by the harness (fields as 1) -> 1 reserved+pending, 2 NameTaken
//!    13 finish a=actor: pre_start goes on, the spawn future is awaited      -> 1 / 3
//!    14 a=call number b=actor: wait for that call's answer (1/4/9), only then let post_stop of b go on
//!               (spawn flag bit6: post_stop waits for that signal)
//!   behaviours: 0 ok 1 fail 2 gate 3 stop-self 4 no-reply 5 yield 6 sleep
//!   end_mode 0: release every gate, stop every actor in index order; 1: Cluster::join at once.
//!   out: op results; n_actors; per actor (n_trace; trace*; fin); n_calls; call results
//!
//! kind 2 (concurrent; the log is accepted or not by run_kind2)
//!   case: [2; workers; capacity; flags; T; (n_ops; (code id beh)*)*]   code 1 send 2 call 3 stop
//!   out:  [n_events; (kind a b)*]
//!
//! kind 3 (concurrent process group; oracle only)
//!   case: [3; workers; n_actors; (cap prestopped)*; T; (n_ops; (code x)*)*]  code 1 join x, 2 leave, 3 send x
//!   out:  [n_msgs; (id result times_handled)*; group_len; held_open; held_total]
//!
//! kind 5 (concurrent; oracle only): post_stop waits for the callers of the calls that were queued
//!   case: [5; workers; capacity; T]  T threads call while the actor is stuck in a gated handler;
//!         stop(); the gate opens; every caller reports after its call returned; post_stop waits
//!         for all T reports.  A deadlock (no exit within the watchdog) is the failure.
//!   out:  [exit (1 stopped, 2 failed, 9 never); (call result)*T]
//!
//! kind 4 (forced schedule of the window between the receiver's drain and its disconnection,
//!         through the cfg(compio_verif) scheduling points of compio_actor::verif)
//!   case: [4; which]   1: a call that passed its closed-check before stop() pushes after the drain
//!                      2: Cluster::join drops the actor task; a call arrives after the drain
//!   out:  [push status; call result (1 reply, 4 no reply, 9 never answered); actor gone]
use std::{
    collections::HashMap,
    num::NonZeroUsize,
    sync::{
        Arc, Barrier, Mutex,
        atomic::{AtomicBool, AtomicU64, Ordering},
    },
    time::{Duration, Instant},
};

use compio_actor::{
    Actor, ActorExit, ActorHandle, Broker, Call, Cluster, Handler, Mailbox,
    cluster::SpawnError,
    mailbox::{CallError, DeliverError},
    process_group::{Membership, ProcessGroup},
    supervisor::SupervisionEvent,
};
use compio_dispatcher::Dispatcher;
use futures_channel::oneshot;
use verif_harness::*;

const MAXA: usize = 6;
const WATCHDOG: Duration = Duration::from_millis(3000);

// ---------------------------------------------------------------------------
// the instrumented actor

struct Shared {
    tr: Mutex<Vec<u64>>,       // kind 1: lifecycle trace
    gated: AtomicBool,         // a gate handler is waiting
    done: AtomicBool,          // post_stop finished or pre_start failed
    pre_gate: Mutex<Option<oneshot::Receiver<()>>>,
    handled: Mutex<Vec<u64>>,  // kind 3
    ps_gate: Mutex<Option<oneshot::Receiver<()>>>, // flag 64: post_stop waits for this
    ps_waiting: AtomicBool,
    ps_opened: AtomicBool,     // set by the harness before it signals
    ps_need: AtomicU64,        // kind 5: post_stop waits until that many callers are done
}

struct World {
    activity: AtomicU64,
    events: Mutex<Vec<[u64; 3]>>, // kind 2 log
    kind: u64,
    callers_done: AtomicU64, // kind 5
}

impl World {
    fn ev(&self, k: u64, a: u64, b: u64) {
        self.events.lock().unwrap().push([k, a, b]);
    }
}

struct TActor<const I: usize> {
    sh: Arc<Shared>,
    world: Arc<World>,
    flags: u64,
}

impl<const I: usize> TActor<I> {
    fn log(&self, code: u64) {
        self.world.activity.fetch_add(1, Ordering::SeqCst);
        self.sh.tr.lock().unwrap().push(code);
    }
    fn hook(&self, which: u64, bit: u64) -> Result<(), u64> {
        let ok = self.flags & (1 << bit) == 0;
        if self.world.kind == 2 {
            self.world.ev(6, which, ok as u64);
        } else {
            self.log(which * 10 + ok as u64);
        }
        if ok { Ok(()) } else { Err(which) }
    }
    fn hstart(&self, id: u64) {
        match self.world.kind {
            2 => self.world.ev(7, id, 0),
            3 => {
                self.sh.handled.lock().unwrap().push(id);
            }
            _ => self.log(100 + id),
        }
    }
    fn hend(&self, id: u64) {
        if self.world.kind == 2 {
            self.world.ev(8, id, 0);
        }
    }
    /// the scripted part of a handler; returns Err for a failing one
    async fn behave(&self, me: &Mailbox<Self>, beh: u64, gate: Option<oneshot::Receiver<()>>) -> Result<(), u64> {
        match beh {
            1 => return Err(9),
            2 => {
                if let Some(rx) = gate {
                    self.sh.gated.store(true, Ordering::SeqCst);
                    rx.await.ok();
                }
            }
            3 => {
                me.stop();
            }
            5 => yield_now().await,
            6 => compio_runtime::time::sleep(Duration::from_millis(1)).await,
            _ => {}
        }
        Ok(())
    }
}

async fn yield_now() {
    let mut yielded = false;
    std::future::poll_fn(|cx| {
        if yielded {
            std::task::Poll::Ready(())
        } else {
            yielded = true;
            cx.waker().wake_by_ref();
            std::task::Poll::Pending
        }
    })
    .await
}

#[derive(Debug)]
struct Plain {
    id: u64,
    beh: u64,
    gate: Option<oneshot::Receiver<()>>,
}
#[derive(Debug)]
struct Ask {
    id: u64,
    beh: u64,
    gate: Option<oneshot::Receiver<()>>,
}
#[derive(Debug)]
struct Ping;

impl<const I: usize> Actor for TActor<I> {
    type Arguments = ();
    type Error = u64;
    type State = ();

    async fn pre_start(&self, _me: &Mailbox<Self>, (): ()) -> Result<(), u64> {
        let g = self.sh.pre_gate.lock().unwrap().take();
        if let Some(rx) = g {
            rx.await.ok();
        }
        let r = self.hook(1, 0);
        if r.is_err() {
            self.sh.done.store(true, Ordering::SeqCst);
        }
        r
    }
    async fn post_start(&self, _me: &Mailbox<Self>, _s: &mut ()) -> Result<(), u64> {
        self.hook(2, 1)
    }
    async fn pre_stop(&self, _me: &Mailbox<Self>, _s: &mut ()) -> Result<(), u64> {
        self.hook(3, 2)
    }
    async fn post_stop(&self, _me: &Mailbox<Self>, _s: &mut ()) -> Result<(), u64> {
        // the mailbox is closed by now: the callers of calls that were still queued have their
        // error, so post_stop may wait for them
        let g = self.sh.ps_gate.lock().unwrap().take();
        if let Some(rx) = g {
            self.world.activity.fetch_add(1, Ordering::SeqCst);
            self.sh.ps_waiting.store(true, Ordering::SeqCst);
            rx.await.ok();
            self.sh.ps_waiting.store(false, Ordering::SeqCst);
        }
        let need = self.sh.ps_need.load(Ordering::SeqCst);
        if need > 0 {
            let t0 = Instant::now();
            while self.world.callers_done.load(Ordering::SeqCst) < need && t0.elapsed() < Duration::from_secs(20) {
                compio_runtime::time::sleep(Duration::from_micros(200)).await;
            }
        }
        let r = self.hook(4, 3);
        self.sh.done.store(true, Ordering::SeqCst);
        r
    }
}

impl<const I: usize> Handler<Plain> for TActor<I> {
    async fn handle(&self, me: &Mailbox<Self>, m: Plain, _s: &mut ()) -> Result<(), u64> {
        self.hstart(m.id);
        let r = self.behave(me, m.beh, m.gate).await;
        self.hend(m.id);
        r
    }
}

impl<const I: usize> Handler<Call<Ask, u64>> for TActor<I> {
    async fn handle(&self, me: &Mailbox<Self>, c: Call<Ask, u64>, _s: &mut ()) -> Result<(), u64> {
        let (m, reply) = c.into_parts();
        self.hstart(m.id);
        let r = self.behave(me, m.beh, m.gate).await;
        self.hend(m.id);
        if r.is_ok() && m.beh != 4 {
            reply.reply(m.id).ok();
        }
        r
    }
}

impl<const I: usize> Handler<Call<Ping, ()>> for TActor<I> {
    async fn handle(&self, _me: &Mailbox<Self>, c: Call<Ping, ()>, _s: &mut ()) -> Result<(), u64> {
        c.reply(()).ok();
        Ok(())
    }
}

impl<const I: usize, const J: usize> Handler<SupervisionEvent<TActor<J>>> for TActor<I> {
    async fn handle(&self, _me: &Mailbox<Self>, e: SupervisionEvent<TActor<J>>, _s: &mut ()) -> Result<(), u64> {
        let kind = match &e {
            SupervisionEvent::ActorStarted(_) => 1,
            SupervisionEvent::ActorTerminated(_) => 2,
            SupervisionEvent::ActorFailed(_) => 3,
        };
        self.hstart(500 + 10 * J as u64 + kind);
        if let SupervisionEvent::ActorStarted(child) = &e {
            if self.flags & 16 != 0 {
                child.stop();
            }
        }
        Ok(())
    }
}

// ---------------------------------------------------------------------------
// type-erased view of a spawned actor

enum AnyMb {
    M0(Mailbox<TActor<0>>),
    M1(Mailbox<TActor<1>>),
    M2(Mailbox<TActor<2>>),
    M3(Mailbox<TActor<3>>),
    M4(Mailbox<TActor<4>>),
    M5(Mailbox<TActor<5>>),
}

macro_rules! each_mb {
    ($mb:expr, $m:ident => $e:expr) => {
        match $mb {
            AnyMb::M0($m) => $e,
            AnyMb::M1($m) => $e,
            AnyMb::M2($m) => $e,
            AnyMb::M3($m) => $e,
            AnyMb::M4($m) => $e,
            AnyMb::M5($m) => $e,
        }
    };
}

struct ARef {
    sh: Arc<Shared>,
    mb: Option<AnyMb>,
    plain: Option<Broker<Plain>>,
    ask: Option<Broker<Call<Ask, u64>>>,
    ping: Option<Broker<Call<Ping, ()>>>,
    handle: Option<ActorHandle<u64>>,
    fin: Option<u64>, // exit observed
    res: u64,         // spawn result
    name: u64,
    dropped: bool,
    gate_tx: Option<oneshot::Sender<()>>, // an accepted gate message not yet released
    pre_tx: Option<oneshot::Sender<()>>,  // opens the gated pre_start
    ps_tx: Option<oneshot::Sender<()>>,   // lets post_stop go on
    pending: Option<std::pin::Pin<Box<dyn std::future::Future<Output = Filled>>>>,
}

/// what a finished spawn future yields, type-erased
struct Filled {
    mb: Option<AnyMb>,
    plain: Option<Broker<Plain>>,
    ask: Option<Broker<Call<Ask, u64>>>,
    ping: Option<Broker<Call<Ping, ()>>>,
    handle: Option<ActorHandle<u64>>,
    res: u64,
}

impl ARef {
    fn fill(&mut self, f: Filled) {
        self.mb = f.mb;
        self.plain = f.plain;
        self.ask = f.ask;
        self.ping = f.ping;
        self.handle = f.handle;
        self.res = f.res;
    }
}

impl ARef {
    fn stop(&self) -> Option<bool> {
        self.mb.as_ref().map(|mb| each_mb!(mb, m => m.stop()))
    }
}

fn name_of(n: u64) -> String {
    format!("n{n}")
}

/// The name as `with_name` gets it: consecutive spawns alternate between the two spellings the
/// API accepts (an owned `String` and a `&'static str`), so that one name meets itself in both.
fn name_arg(n: u64) -> std::borrow::Cow<'static, str> {
    static SPELLING: std::sync::atomic::AtomicU64 = std::sync::atomic::AtomicU64::new(0);
    if SPELLING.fetch_add(1, std::sync::atomic::Ordering::Relaxed) % 2 == 0 {
        std::borrow::Cow::Owned(name_of(n))
    } else {
        std::borrow::Cow::Borrowed(Box::leak(name_of(n).into_boxed_str()))
    }
}

trait Wrap<const I: usize> {
    fn wrap(mb: Mailbox<TActor<I>>) -> AnyMb;
}
struct W;
impl Wrap<0> for W {
    fn wrap(mb: Mailbox<TActor<0>>) -> AnyMb {
        AnyMb::M0(mb)
    }
}
impl Wrap<1> for W {
    fn wrap(mb: Mailbox<TActor<1>>) -> AnyMb {
        AnyMb::M1(mb)
    }
}
impl Wrap<2> for W {
    fn wrap(mb: Mailbox<TActor<2>>) -> AnyMb {
        AnyMb::M2(mb)
    }
}
impl Wrap<3> for W {
    fn wrap(mb: Mailbox<TActor<3>>) -> AnyMb {
        AnyMb::M3(mb)
    }
}
impl Wrap<4> for W {
    fn wrap(mb: Mailbox<TActor<4>>) -> AnyMb {
        AnyMb::M4(mb)
    }
}
impl Wrap<5> for W {
    fn wrap(mb: Mailbox<TActor<5>>) -> AnyMb {
        AnyMb::M5(mb)
    }
}

fn new_shared() -> Arc<Shared> {
    Arc::new(Shared {
        tr: Mutex::new(Vec::new()),
        gated: AtomicBool::new(false),
        done: AtomicBool::new(false),
        pre_gate: Mutex::new(None),
        handled: Mutex::new(Vec::new()),
        ps_gate: Mutex::new(None),
        ps_waiting: AtomicBool::new(false),
        ps_opened: AtomicBool::new(false),
        ps_need: AtomicU64::new(0),
    })
}

async fn spawn_typed<const I: usize>(
    cluster: &Cluster,
    world: &Arc<World>,
    name: u64,
    cap: u64,
    flags: u64,
    sup: Option<&AnyMb>,
    gated: bool,
) -> ARef
where
    W: Wrap<I>,
{
    let sh = new_shared();
    let dropped = flags & 32 != 0;
    let mut go_tx = None;
    if dropped || gated {
        let (tx, rx) = oneshot::channel();
        *sh.pre_gate.lock().unwrap() = Some(rx);
        go_tx = Some(tx);
    }
    let mut ps_tx = None;
    if flags & 64 != 0 {
        let (tx, rx) = oneshot::channel();
        *sh.ps_gate.lock().unwrap() = Some(rx);
        ps_tx = Some(tx);
    }
    let (sh2, w2) = (sh.clone(), world.clone());
    let mut b = cluster
        .spawn(move || TActor::<I> { sh: sh2, world: w2, flags }, ())
        .with_capacity(NonZeroUsize::new(cap as usize).unwrap());
    if name != 0 {
        b = b.with_name(name_arg(name));
    }
    if let Some(s) = sup {
        b = each_mb!(s, m => b.with_supervisor(m));
    }
    let mut r = ARef {
        sh,
        mb: None,
        plain: None,
        ask: None,
        ping: None,
        handle: None,
        fin: None,
        res: 0,
        name,
        dropped,
        gate_tx: None,
        pre_tx: None,
        ps_tx,
        pending: None,
    };
    let fut = std::future::IntoFuture::into_future(b);
    if dropped {
        // a name that is taken is reported at once
        let mut fut = fut;
        if let std::task::Poll::Ready(res) = futures_util::poll!(&mut fut) {
            r.res = match res {
                Err(SpawnError::NameTaken(_)) => 2,
                Err(SpawnError::Unavailable) => 4,
                _ => 6,
            };
            return r;
        }
        drop(fut);
        go_tx.unwrap().send(()).ok();
        r.res = 5;
        return r;
    }
    let mut boxed: std::pin::Pin<Box<dyn std::future::Future<Output = Filled>>> = Box::pin(async move {
        let none = |res| Filled { mb: None, plain: None, ask: None, ping: None, handle: None, res };
        match fut.await {
            Ok((mb, h)) => Filled {
                plain: Some(mb.broker()),
                ask: Some(mb.broker()),
                ping: Some(mb.broker()),
                mb: Some(<W as Wrap<I>>::wrap(mb)),
                handle: Some(h),
                res: 1,
            },
            Err(SpawnError::NameTaken(_)) => none(2),
            Err(SpawnError::Start(_)) => none(3),
            Err(_) => none(4),
        }
    });
    if gated {
        // the name is reserved (or refused) by the first poll; pre_start waits for the harness
        match futures_util::poll!(&mut boxed) {
            std::task::Poll::Ready(f) => r.fill(f),
            std::task::Poll::Pending => {
                r.pending = Some(boxed);
                r.pre_tx = go_tx;
            }
        }
        return r;
    }
    let f = boxed.await;
    r.fill(f);
    r
}

fn lookup_any(cluster: &Cluster, name: u64) -> Option<(u64, bool)> {
    let n = name_of(name);
    macro_rules! try_i {
        ($($i:literal),*) => {$(
            if let Some(m) = cluster.lookup::<TActor<$i>, _>(n.clone()) {
                return Some((m.capacity().get() as u64, m.is_closed()));
            }
        )*};
    }
    try_i!(0, 1, 2, 3, 4, 5);
    None
}

fn mk_cluster(workers: u64) -> Cluster {
    let d = Dispatcher::builder()
        .worker_threads(NonZeroUsize::new(workers.clamp(1, 4) as usize).unwrap())
        .build()
        .expect("dispatcher");
    Cluster::from_dispatcher(d)
}

struct Hang;

fn exit_code(r: Result<ActorExit<u64>, compio_actor::actor::ActorHandleError>) -> u64 {
    match r {
        Ok(ActorExit::Stopped) => 1,
        Ok(ActorExit::Failed(_)) => 2,
        Err(_) => 4,
    }
}

fn ps_blocked(a: &ARef) -> bool {
    a.sh.ps_waiting.load(Ordering::SeqCst) && !a.sh.ps_opened.load(Ordering::SeqCst)
}

fn ps_open(a: &mut ARef) {
    a.sh.ps_opened.store(true, Ordering::SeqCst);
    a.ps_tx.take().map(|t| t.send(()).ok());
}

/// waits until actor i cannot move without outside help
async fn settle(world: &World, cluster: &Cluster, a: &mut ARef, deadline: Instant) -> Result<(), Hang> {
    loop {
        if Instant::now() > deadline {
            return Err(Hang);
        }
        if a.fin.is_some() || a.res == 2 || a.res == 4 || a.res == 6 || a.pending.is_some() {
            return Ok(());
        }
        if a.res == 3 || a.dropped {
            // no handle: wait for the hooks to end and the name to be free again
            if ps_blocked(a) {
                return Ok(());
            }
            if !a.sh.done.load(Ordering::SeqCst) {
                compio_runtime::time::sleep(Duration::from_micros(100)).await;
                continue;
            }
            if a.dropped && a.name != 0 {
                // the Registration is dropped right after post_stop returns
                if lookup_any(cluster, a.name).is_some() {
                    compio_runtime::time::sleep(Duration::from_micros(100)).await;
                    continue;
                }
            }
            a.fin = Some(if a.dropped { 5 } else { 3 });
            world.activity.fetch_add(1, Ordering::SeqCst);
            return Ok(());
        }
        if let Some(h) = a.handle.as_mut() {
            if let std::task::Poll::Ready(r) = futures_util::poll!(h) {
                a.fin = Some(exit_code(r));
                a.handle = None;
                a.gate_tx = None;
                world.activity.fetch_add(1, Ordering::SeqCst);
                return Ok(());
            }
        }
        if a.sh.gated.load(Ordering::SeqCst) || ps_blocked(a) {
            return Ok(());
        }
        if a.gate_tx.is_some() {
            // an accepted gate message is on its way: the actor reaches it or exits first
            compio_runtime::time::sleep(Duration::from_micros(50)).await;
            continue;
        }
        let ping = a.ping.as_ref().unwrap();
        match compio_runtime::time::timeout(WATCHDOG, ping.call(Ping)).await {
            Err(_) => return Err(Hang),
            Ok(Ok(())) => return Ok(()),
            Ok(Err(CallError::Full(_))) => {
                yield_now().await;
                compio_runtime::time::sleep(Duration::from_micros(50)).await;
            }
            Ok(Err(_)) => {
                // closed or dropped unanswered: the actor is on its way out (or waits in post_stop)
                compio_runtime::time::sleep(Duration::from_micros(100)).await;
            }
        }
    }
}

async fn settle_all(world: &World, cluster: &Cluster, acts: &mut [ARef]) -> Result<(), Hang> {
    let deadline = Instant::now() + Duration::from_secs(8);
    loop {
        let a0 = world.activity.load(Ordering::SeqCst);
        for a in acts.iter_mut() {
            settle(world, cluster, a, deadline).await?;
        }
        if world.activity.load(Ordering::SeqCst) == a0 {
            return Ok(());
        }
    }
}

type CallFut = std::pin::Pin<Box<dyn std::future::Future<Output = Result<u64, u64>>>>;

fn call_status(e: &CallError<Ask>) -> u64 {
    match e {
        CallError::Full(_) => 2,
        CallError::Closed(_) => 3,
        CallError::NoReply => 4,
    }
}

struct PendingCall {
    fut: Option<CallFut>,
    result: u64, // 0 unknown
}

fn run_kind1(c: &mut Case) -> Result<Vec<u64>, BadCase> {
    let workers = c.take()?;
    let end_mode = c.take()?;
    let n = c.take()? as usize;
    let mut ops = Vec::new();
    for _ in 0..n {
        let o = c.take_n(5)?;
        ops.push([o[0], o[1], o[2], o[3], o[4]]);
    }
    if c.i != c.v.len() {
        return Err(BadCase);
    }
    // static validation (the model does the same bookkeeping)
    let nspawn = ops.iter().filter(|o| o[0] == 1).count();
    if nspawn > MAXA {
        return Err(BadCase);
    }
    let rt = compio_runtime::Runtime::new().expect("runtime");
    let res: Result<Result<Vec<u64>, Hang>, BadCase> = rt.block_on(async move {
        let world = Arc::new(World {
            activity: AtomicU64::new(0),
            events: Mutex::new(Vec::new()),
            kind: 1,
            callers_done: AtomicU64::new(0),
        });
        let cluster = mk_cluster(workers);
        let mut acts: Vec<ARef> = Vec::new();
        let mut out: Vec<u64> = Vec::new();
        let mut calls: Vec<PendingCall> = Vec::new();
        let g0: ProcessGroup<Plain> = ProcessGroup::new();
        let g1: ProcessGroup<Call<Ask, u64>> = ProcessGroup::new();
        let mut mem0: HashMap<u64, Membership<Plain>> = HashMap::new();
        let mut mem1: HashMap<u64, Membership<Call<Ask, u64>>> = HashMap::new();
        let mut next0 = 0u64;
        let mut next1 = 0u64;
        macro_rules! hang {
            ($e:expr) => {
                match $e {
                    Ok(()) => {}
                    Err(Hang) => return Ok(Err(Hang)),
                }
            };
        }
        for o in ops {
            let [code, a, b, cc, d] = o;
            match code {
                1 | 12 => {
                    if b == 0 || b > 64 {
                        return Err(BadCase);
                    }
                    let idx = acts.len();
                    let sup = if d == 0 {
                        None
                    } else {
                        match acts.get(d as usize - 1).and_then(|s| s.mb.as_ref()) {
                            Some(m) => Some(m),
                            None => return Err(BadCase),
                        }
                    };
                    macro_rules! sp {
                        ($($i:literal),*) => {
                            match idx { $($i => spawn_typed::<$i>(&cluster, &world, a, b, cc & 127, sup, code == 12).await,)* _ => return Err(BadCase) }
                        };
                    }
                    let r = sp!(0, 1, 2, 3, 4, 5);
                    out.push(if r.pending.is_some() { 1 } else { r.res });
                    acts.push(r);
                }
                2 | 3 => {
                    let Some(ar) = acts.get_mut(a as usize) else { return Err(BadCase) };
                    if ar.res != 1 {
                        out.push(0);
                    } else {
                        let mut gate = None;
                        let mut tx_keep = None;
                        if cc == 2 {
                            if ar.gate_tx.is_some() || ar.sh.gated.load(Ordering::SeqCst) {
                                return Err(BadCase); // one gate at a time
                            }
                            let (tx, rx) = oneshot::channel();
                            gate = Some(rx);
                            tx_keep = Some(tx);
                        }
                        if code == 2 {
                            let r = ar.plain.as_ref().unwrap().send(Plain { id: b, beh: cc, gate });
                            out.push(match r {
                                Ok(()) => {
                                    if tx_keep.is_some() {
                                        ar.gate_tx = tx_keep;
                                    }
                                    1
                                }
                                Err(DeliverError::Full(_)) => 2,
                                Err(DeliverError::Closed(_)) => 3,
                            });
                        } else {
                            let br = ar.ask.as_ref().unwrap().clone();
                            let mut fut: CallFut = Box::pin(async move {
                                br.call(Ask { id: b, beh: cc, gate }).await.map_err(|e| call_status(&e))
                            });
                            match futures_util::poll!(&mut fut) {
                                std::task::Poll::Ready(Ok(_)) => {
                                    if tx_keep.is_some() {
                                        ar.gate_tx = tx_keep;
                                    }
                                    out.push(1);
                                    calls.push(PendingCall { fut: None, result: 1 });
                                }
                                std::task::Poll::Ready(Err(4)) => {
                                    out.push(1);
                                    calls.push(PendingCall { fut: None, result: 4 });
                                }
                                std::task::Poll::Ready(Err(s)) => {
                                    out.push(s);
                                    calls.push(PendingCall { fut: None, result: s });
                                }
                                std::task::Poll::Pending => {
                                    if tx_keep.is_some() {
                                        ar.gate_tx = tx_keep;
                                    }
                                    out.push(1);
                                    calls.push(PendingCall { fut: Some(fut), result: 0 });
                                }
                            }
                        }
                    }
                }
                4 => {
                    let Some(ar) = acts.get(a as usize) else { return Err(BadCase) };
                    out.push(if ar.res == 1 { ar.stop().unwrap() as u64 } else { 0 });
                }
                5 => match lookup_any(&cluster, a) {
                    Some((cap, closed)) => out.extend([1, cap, closed as u64]),
                    None => out.extend([0, 0, 0]),
                },
                6 => {
                    let Some(ar) = acts.get_mut(a as usize) else { return Err(BadCase) };
                    if ar.sh.gated.load(Ordering::SeqCst) {
                        ar.sh.gated.store(false, Ordering::SeqCst);
                        ar.gate_tx.take().map(|t| t.send(()).ok());
                        out.push(1);
                    } else {
                        out.push(0);
                    }
                }
                7 => {
                    let Some(ar) = acts.get(b as usize) else { return Err(BadCase) };
                    if ar.res != 1 || a > 1 {
                        out.push(99999);
                    } else if a == 0 {
                        mem0.insert(next0, g0.join(ar.plain.as_ref().unwrap().clone()));
                        out.push(next0);
                        next0 += 1;
                    } else {
                        mem1.insert(next1, g1.join(ar.ask.as_ref().unwrap().clone()));
                        out.push(next1);
                        next1 += 1;
                    }
                }
                8 => {
                    if a != 0 || cc == 2 {
                        return Err(BadCase);
                    }
                    out.push(match g0.send(Plain { id: b, beh: cc, gate: None }) {
                        Ok(()) => 1,
                        Err(DeliverError::Full(_)) => 2,
                        Err(DeliverError::Closed(_)) => 3,
                    });
                }
                9 => {
                    if a == 0 {
                        mem0.remove(&b).map(|m| m.leave());
                    } else {
                        mem1.remove(&b).map(|m| m.leave());
                    }
                }
                10 => out.push(if a == 0 { g0.len() } else { g1.len() } as u64),
                11 => {
                    if a != 1 || cc == 2 {
                        return Err(BadCase);
                    }
                    let g = g1.clone();
                    let mut fut: CallFut = Box::pin(async move {
                        g.call(Ask { id: b, beh: cc, gate: None }).await.map_err(|e| call_status(&e))
                    });
                    match futures_util::poll!(&mut fut) {
                        std::task::Poll::Ready(Ok(_)) => {
                            out.push(1);
                            calls.push(PendingCall { fut: None, result: 1 });
                        }
                        std::task::Poll::Ready(Err(4)) => {
                            out.push(1);
                            calls.push(PendingCall { fut: None, result: 4 });
                        }
                        std::task::Poll::Ready(Err(s)) => {
                            out.push(s);
                            calls.push(PendingCall { fut: None, result: s });
                        }
                        std::task::Poll::Pending => {
                            out.push(1);
                            calls.push(PendingCall { fut: Some(fut), result: 0 });
                        }
                    }
                }
                13 => {
                    let Some(ar) = acts.get_mut(a as usize) else { return Err(BadCase) };
                    match ar.pending.take() {
                        Some(fut) => {
                            ar.pre_tx.take().map(|t| t.send(()).ok());
                            match compio_runtime::time::timeout(WATCHDOG, fut).await {
                                Err(_) => return Ok(Err(Hang)),
                                Ok(f) => ar.fill(f),
                            }
                            out.push(ar.res);
                        }
                        None => out.push(0),
                    }
                }
                14 => {
                    // the caller of call number a waits for its answer; only then it lets
                    // post_stop of actor b go on
                    let r = match calls.get_mut(a as usize) {
                        Some(pc) => {
                            if let Some(f) = pc.fut.take() {
                                pc.result = match compio_runtime::time::timeout(Duration::from_millis(1500), f).await {
                                    Err(_) => 9,
                                    Ok(Ok(_)) => 1,
                                    Ok(Err(s)) => s,
                                };
                            }
                            pc.result
                        }
                        None => 0,
                    };
                    out.push(r);
                    if let Some(ar) = acts.get_mut(b as usize) {
                        ps_open(ar);
                    }
                }
                _ => return Err(BadCase),
            }
            hang!(settle_all(&world, &cluster, &mut acts).await);
        }
        // the end of the program
        if end_mode == 0 {
            for i in 0..acts.len() {
                if let Some(fut) = acts[i].pending.take() {
                    acts[i].pre_tx.take().map(|t| t.send(()).ok());
                    match compio_runtime::time::timeout(WATCHDOG, fut).await {
                        Err(_) => return Ok(Err(Hang)),
                        Ok(f) => acts[i].fill(f),
                    }
                    hang!(settle_all(&world, &cluster, &mut acts).await);
                }
            }
            for ar in acts.iter_mut() {
                ps_open(ar);
                if ar.sh.gated.load(Ordering::SeqCst) {
                    ar.sh.gated.store(false, Ordering::SeqCst);
                }
                ar.gate_tx.take().map(|t| t.send(()).ok());
            }
            hang!(settle_all(&world, &cluster, &mut acts).await);
            for i in 0..acts.len() {
                if acts[i].res == 1 && acts[i].fin.is_none() {
                    acts[i].stop();
                    hang!(settle_all(&world, &cluster, &mut acts).await);
                }
            }
            if compio_runtime::time::timeout(WATCHDOG, cluster.clone().join()).await.is_err() {
                return Ok(Err(Hang));
            }
        } else {
            if compio_runtime::time::timeout(WATCHDOG, cluster.clone().join()).await.is_err() {
                return Ok(Err(Hang));
            }
            for ar in acts.iter_mut() {
                if let Some(fut) = ar.pending.take() {
                    // the task was dropped inside pre_start: the spawner is told the worker stopped
                    match compio_runtime::time::timeout(WATCHDOG, fut).await {
                        Err(_) => return Ok(Err(Hang)),
                        Ok(f) => {
                            ar.res = if f.res == 4 { 0 } else { f.res };
                            ar.fin = Some(if f.res == 4 { 4 } else { 7 });
                        }
                    }
                    continue;
                }
                if let Some(h) = ar.handle.take() {
                    match compio_runtime::time::timeout(WATCHDOG, h).await {
                        Err(_) => return Ok(Err(Hang)),
                        Ok(r) => ar.fin = Some(exit_code(r)),
                    }
                } else if ar.fin.is_none() && ar.res == 3 {
                    ar.fin = Some(3);
                } else if ar.fin.is_none() && ar.dropped && ar.res == 5 {
                    ar.fin = Some(5);
                }
            }
        }
        out.push(acts.len() as u64);
        for ar in acts.iter() {
            let tr = ar.sh.tr.lock().unwrap().clone();
            out.push(tr.len() as u64);
            out.extend(tr);
            out.push(match ar.res {
                2 | 4 | 6 => 0,
                _ => ar.fin.unwrap_or(7),
            });
        }
        out.push(calls.len() as u64);
        for pc in calls.iter_mut() {
            if let Some(f) = pc.fut.take() {
                pc.result = match compio_runtime::time::timeout(Duration::from_millis(400), f).await {
                    Err(_) => 9,
                    Ok(Ok(_)) => 1,
                    Ok(Err(s)) => s,
                };
            }
            out.push(pc.result);
        }
        Ok(Ok(out))
    });
    match res? {
        Ok(v) => Ok(v),
        Err(Hang) => Ok(vec![2, 8]),
    }
}

fn run_kind2(c: &mut Case) -> Result<Vec<u64>, BadCase> {
    let workers = c.take()?;
    let cap = c.take()?;
    let flags = c.take()?;
    let t = c.take()? as usize;
    if cap == 0 || cap > 64 || t == 0 || t > 4 {
        return Err(BadCase);
    }
    let mut progs: Vec<Vec<[u64; 3]>> = Vec::new();
    for _ in 0..t {
        let n = c.take()? as usize;
        let mut p = Vec::new();
        for _ in 0..n {
            let o = c.take_n(3)?;
            if !(1..=3).contains(&o[0]) || o[2] == 2 || o[2] == 3 || o[2] > 6 {
                return Err(BadCase);
            }
            p.push([o[0], o[1], o[2]]);
        }
        progs.push(p);
    }
    if c.i != c.v.len() {
        return Err(BadCase);
    }
    let rt = compio_runtime::Runtime::new().expect("runtime");
    let out = rt.block_on(async move {
        let world = Arc::new(World {
            activity: AtomicU64::new(0),
            events: Mutex::new(Vec::new()),
            kind: 2,
            callers_done: AtomicU64::new(0),
        });
        let cluster = mk_cluster(workers);
        let a = spawn_typed::<0>(&cluster, &world, 0, cap, flags & 15, None, false).await;
        if a.res != 1 {
            // start-up failed: only the hook events exist
            cluster.join().await.ok();
            return world.events.lock().unwrap().clone();
        }
        let Some(AnyMb::M0(mb)) = a.mb else { unreachable!() };
        let barrier = Arc::new(Barrier::new(t));
        let mut ths = Vec::new();
        for (tid, prog) in progs.into_iter().enumerate() {
            let (mb, world, barrier) = (mb.clone(), world.clone(), barrier.clone());
            ths.push(std::thread::spawn(move || {
                let rt = compio_runtime::Runtime::new().expect("runtime");
                barrier.wait();
                rt.block_on(async move {
                    for [code, id, beh] in prog {
                        match code {
                            1 => {
                                world.ev(1, id, beh);
                                let r = mb.send(Plain { id, beh, gate: None });
                                world.ev(2, id, match r {
                                    Ok(()) => 1,
                                    Err(DeliverError::Full(_)) => 2,
                                    Err(DeliverError::Closed(_)) => 3,
                                });
                            }
                            2 => {
                                world.ev(1, id, 10 + beh);
                                let r = compio_runtime::time::timeout(
                                    WATCHDOG,
                                    mb.call(Ask { id, beh, gate: None }),
                                )
                                .await;
                                match r {
                                    Err(_) => world.ev(5, id, 9),
                                    Ok(Ok(_)) => {
                                        world.ev(2, id, 1);
                                        world.ev(5, id, 1);
                                    }
                                    Ok(Err(CallError::NoReply)) => {
                                        world.ev(2, id, 1);
                                        world.ev(5, id, 4);
                                    }
                                    Ok(Err(CallError::Full(_))) => world.ev(2, id, 2),
                                    Ok(Err(CallError::Closed(_))) => world.ev(2, id, 3),
                                }
                            }
                            _ => {
                                world.ev(3, tid as u64, 0);
                                let r = mb.stop();
                                world.ev(4, tid as u64, r as u64);
                            }
                        }
                    }
                });
            }));
        }
        // wait for the threads without blocking this runtime's thread for long
        for th in ths {
            while !th.is_finished() {
                compio_runtime::time::sleep(Duration::from_micros(200)).await;
            }
            th.join().ok();
        }
        world.ev(3, t as u64, 0);
        let r = mb.stop();
        world.ev(4, t as u64, r as u64);
        match compio_runtime::time::timeout(WATCHDOG, a.handle.unwrap()).await {
            Err(_) => world.ev(9, 9, 0),
            Ok(r) => world.ev(9, exit_code(r), 0),
        }
        compio_runtime::time::timeout(WATCHDOG, cluster.join()).await.ok();
        world.events.lock().unwrap().clone()
    });
    let mut v = vec![out.len() as u64];
    for e in out {
        v.extend(e);
    }
    Ok(v)
}

fn run_kind3(c: &mut Case) -> Result<Vec<u64>, BadCase> {
    let workers = c.take()?;
    let na = c.take()? as usize;
    if na == 0 || na > 4 {
        return Err(BadCase);
    }
    let mut specs = Vec::new();
    for _ in 0..na {
        let s = c.take_n(2)?;
        if s[0] == 0 || s[0] > 64 {
            return Err(BadCase);
        }
        specs.push((s[0], s[1] != 0));
    }
    let t = c.take()? as usize;
    if t == 0 || t > 4 {
        return Err(BadCase);
    }
    let mut progs: Vec<Vec<[u64; 2]>> = Vec::new();
    for _ in 0..t {
        let n = c.take()? as usize;
        let mut p = Vec::new();
        for _ in 0..n {
            let o = c.take_n(2)?;
            if !(1..=3).contains(&o[0]) || (o[0] == 1 && o[1] as usize >= na) {
                return Err(BadCase);
            }
            p.push([o[0], o[1]]);
        }
        progs.push(p);
    }
    if c.i != c.v.len() {
        return Err(BadCase);
    }
    let rt = compio_runtime::Runtime::new().expect("runtime");
    let out = rt.block_on(async move {
        let world = Arc::new(World {
            activity: AtomicU64::new(0),
            events: Mutex::new(Vec::new()),
            kind: 3,
            callers_done: AtomicU64::new(0),
        });
        let cluster = mk_cluster(workers);
        let mut acts = Vec::new();
        for (i, (cap, _)) in specs.iter().enumerate() {
            macro_rules! sp {
                ($($i:literal),*) => {
                    match i { $($i => spawn_typed::<$i>(&cluster, &world, 0, *cap, 0, None, false).await,)* _ => unreachable!() }
                };
            }
            acts.push(sp!(0, 1, 2, 3));
        }
        let group: ProcessGroup<Plain> = ProcessGroup::new();
        // pre-stopped actors are members too: they must be evicted, never chosen
        let mut pre = Vec::new();
        for (i, (_, stopped)) in specs.iter().enumerate() {
            if *stopped {
                acts[i].stop();
                let h = acts[i].handle.take().unwrap();
                compio_runtime::time::timeout(WATCHDOG, h).await.ok();
                acts[i].fin = Some(1);
                pre.push(group.join(acts[i].plain.as_ref().unwrap().clone()));
            }
        }
        let brokers: Vec<Broker<Plain>> = acts.iter().map(|a| a.plain.as_ref().unwrap().clone()).collect();
        let open: Vec<bool> = specs.iter().map(|s| !s.1).collect();
        let results: Arc<Mutex<Vec<(u64, u64)>>> = Arc::new(Mutex::new(Vec::new()));
        let held: Arc<Mutex<Vec<(usize, Membership<Plain>)>>> = Arc::new(Mutex::new(Vec::new()));
        let barrier = Arc::new(Barrier::new(t));
        let mut ths = Vec::new();
        for prog in progs {
            let (group, brokers, results, held, barrier) =
                (group.clone(), brokers.clone(), results.clone(), held.clone(), barrier.clone());
            ths.push(std::thread::spawn(move || {
                let mut mine: Vec<(usize, Membership<Plain>)> = Vec::new();
                barrier.wait();
                for [code, x] in prog {
                    match code {
                        1 => mine.push((x as usize, group.join(brokers[x as usize].clone()))),
                        2 => {
                            mine.pop().map(|(_, m)| m.leave());
                        }
                        _ => {
                            let r = group.send(Plain { id: x, beh: 5, gate: None });
                            results.lock().unwrap().push((x, match r {
                                Ok(()) => 1,
                                Err(DeliverError::Full(_)) => 2,
                                Err(DeliverError::Closed(_)) => 3,
                            }));
                        }
                    }
                }
                held.lock().unwrap().extend(mine);
            }));
        }
        for th in ths {
            while !th.is_finished() {
                compio_runtime::time::sleep(Duration::from_micros(200)).await;
            }
            th.join().ok();
        }
        // let every live actor drain its mailbox
        let deadline = Instant::now() + Duration::from_secs(8);
        let mut hung = false;
        for a in acts.iter_mut() {
            if settle(&world, &cluster, a, deadline).await.is_err() {
                hung = true;
            }
        }
        let glen = group.len() as u64;
        let held = held.lock().unwrap();
        let held_total = held.len() as u64 + pre.len() as u64;
        let held_open = held.iter().filter(|(i, _)| open[*i]).count() as u64;
        let mut counts: HashMap<u64, u64> = HashMap::new();
        for a in acts.iter() {
            for id in a.sh.handled.lock().unwrap().iter() {
                *counts.entry(*id).or_default() += 1;
            }
        }
        let res = results.lock().unwrap().clone();
        let mut v = vec![res.len() as u64];
        for (id, r) in res {
            v.extend([id, r, counts.get(&id).copied().unwrap_or(0)]);
        }
        v.extend([glen, held_open, held_total, hung as u64]);
        drop(held);
        for a in acts.iter() {
            a.stop();
        }
        compio_runtime::time::timeout(WATCHDOG, cluster.join()).await.ok();
        v
    });
    Ok(out)
}

fn run_kind4(c: &mut Case) -> Result<Vec<u64>, BadCase> {
    use compio_actor::verif::{RECEIVER_DRAINED, SEND_CHECKED, arrived, block};
    let which = c.take()?;
    if !(1..=2).contains(&which) || c.i != c.v.len() {
        return Err(BadCase);
    }
    let rt = compio_runtime::Runtime::new().expect("runtime");
    let out = rt.block_on(async move {
        let world = Arc::new(World {
            activity: AtomicU64::new(0),
            events: Mutex::new(Vec::new()),
            kind: 1,
            callers_done: AtomicU64::new(0),
        });
        let cluster = mk_cluster(1);
        let a = spawn_typed::<0>(&cluster, &world, 0, 2, 0, None, false).await;
        let Some(AnyMb::M0(mb)) = a.mb else { unreachable!() };
        let wait_for = |f: &dyn Fn() -> bool| {
            let t0 = Instant::now();
            while !f() && t0.elapsed() < WATCHDOG {
                std::thread::sleep(Duration::from_micros(200));
            }
            f()
        };
        let result: Arc<Mutex<Option<u64>>> = Arc::new(Mutex::new(None));
        let caller = |mb: Mailbox<TActor<0>>, result: Arc<Mutex<Option<u64>>>| {
            std::thread::spawn(move || {
                let rt = compio_runtime::Runtime::new().expect("runtime");
                rt.block_on(async move {
                    let r = compio_runtime::time::timeout(
                        Duration::from_millis(1200),
                        mb.call(Ask { id: 1, beh: 0, gate: None }),
                    )
                    .await;
                    *result.lock().unwrap() = Some(match r {
                        Err(_) => 9,
                        Ok(Ok(_)) => 1,
                        Ok(Err(e)) => call_status(&e),
                    });
                });
            })
        };
        let a0 = arrived(SEND_CHECKED);
        let d0 = arrived(RECEIVER_DRAINED);
        let mut ok = true;
        let th;
        if which == 1 {
            block(SEND_CHECKED, true);
            th = caller(mb.clone(), result.clone());
            ok &= wait_for(&|| arrived(SEND_CHECKED) > a0);
            block(RECEIVER_DRAINED, true);
            mb.stop();
            ok &= wait_for(&|| arrived(RECEIVER_DRAINED) > d0);
            block(SEND_CHECKED, false);
        } else {
            block(RECEIVER_DRAINED, true);
            let cl = cluster.clone();
            compio_runtime::spawn(async move {
                cl.join().await.ok();
            })
            .detach();
            // the worker drops its runtime: the actor task and its Receiver are dropped
            let t0 = Instant::now();
            while arrived(RECEIVER_DRAINED) <= d0 && t0.elapsed() < WATCHDOG {
                compio_runtime::time::sleep(Duration::from_micros(200)).await;
            }
            ok &= arrived(RECEIVER_DRAINED) > d0;
            th = caller(mb.clone(), result.clone());
        }
        // the message is in the channel once the mailbox reports it queued
        let pushed = wait_for(&|| format!("{mb:?}").contains("queued: 1") || result.lock().unwrap().is_some());
        let queued = format!("{mb:?}").contains("queued: 1");
        block(RECEIVER_DRAINED, false);
        let t0 = Instant::now();
        while !th.is_finished() && t0.elapsed() < WATCHDOG {
            compio_runtime::time::sleep(Duration::from_micros(500)).await;
        }
        th.join().ok();
        let gone = mb.is_closed();
        if which == 1 {
            if let Some(h) = a.handle {
                compio_runtime::time::timeout(WATCHDOG, h).await.ok();
            }
            compio_runtime::time::timeout(WATCHDOG, cluster.join()).await.ok();
        }
        let r = result.lock().unwrap().unwrap_or(7);
        if !ok || !pushed {
            return vec![0, r, gone as u64];
        }
        vec![if queued || r == 9 || r == 1 || r == 4 { 1 } else { r }, r, gone as u64]
    });
    Ok(out)
}

fn run_kind5(c: &mut Case) -> Result<Vec<u64>, BadCase> {
    let workers = c.take()?;
    let cap = c.take()?;
    let t = c.take()? as usize;
    if cap == 0 || cap > 64 || t == 0 || t > 4 || c.i != c.v.len() {
        return Err(BadCase);
    }
    let rt = compio_runtime::Runtime::new().expect("runtime");
    let out = rt.block_on(async move {
        let world = Arc::new(World {
            activity: AtomicU64::new(0),
            events: Mutex::new(Vec::new()),
            kind: 1,
            callers_done: AtomicU64::new(0),
        });
        let cluster = mk_cluster(workers);
        let mut a = spawn_typed::<0>(&cluster, &world, 0, cap, 0, None, false).await;
        a.sh.ps_need.store(t as u64, Ordering::SeqCst);
        let Some(AnyMb::M0(mb)) = a.mb.take() else { unreachable!() };
        let (gtx, grx) = oneshot::channel();
        mb.send(Plain { id: 1, beh: 2, gate: Some(grx) }).ok();
        let t0 = Instant::now();
        while !a.sh.gated.load(Ordering::SeqCst) && t0.elapsed() < WATCHDOG {
            compio_runtime::time::sleep(Duration::from_micros(100)).await;
        }
        let results: Arc<Mutex<Vec<(usize, u64)>>> = Arc::new(Mutex::new(Vec::new()));
        let mut ths = Vec::new();
        for i in 0..t {
            let (mb, world, results) = (mb.clone(), world.clone(), results.clone());
            ths.push(std::thread::spawn(move || {
                let rt = compio_runtime::Runtime::new().expect("runtime");
                rt.block_on(async move {
                    let r = compio_runtime::time::timeout(
                        Duration::from_secs(8),
                        mb.call(Ask { id: 2 + i as u64, beh: 0, gate: None }),
                    )
                    .await;
                    let code = match r {
                        Err(_) => 9,
                        Ok(Ok(_)) => 1,
                        Ok(Err(e)) => call_status(&e),
                    };
                    results.lock().unwrap().push((i, code));
                    // only now, with its answer in hand, does the caller report
                    world.callers_done.fetch_add(1, Ordering::SeqCst);
                });
            }));
        }
        // every caller has pushed its call or was refused
        let queued = |mb: &Mailbox<TActor<0>>| {
            let d = format!("{mb:?}");
            d.split("queued: ").nth(1).and_then(|r| r.split(|ch: char| !ch.is_ascii_digit()).next().and_then(|n| n.parse::<u64>().ok())).unwrap_or(0)
        };
        let t0 = Instant::now();
        while queued(&mb) + world.callers_done.load(Ordering::SeqCst) < t as u64 && t0.elapsed() < WATCHDOG {
            compio_runtime::time::sleep(Duration::from_micros(100)).await;
        }
        mb.stop();
        gtx.send(()).ok();
        let exit = match compio_runtime::time::timeout(Duration::from_secs(10), a.handle.take().unwrap()).await {
            Err(_) => 9,
            Ok(r) => exit_code(r),
        };
        for th in ths {
            while !th.is_finished() {
                compio_runtime::time::sleep(Duration::from_micros(200)).await;
            }
            th.join().ok();
        }
        compio_runtime::time::timeout(WATCHDOG, cluster.join()).await.ok();
        let mut res = results.lock().unwrap().clone();
        res.sort();
        let mut v = vec![exit];
        v.extend(res.into_iter().map(|x| x.1));
        v
    });
    Ok(out)
}

fn run(case: &[u64]) -> Result<Vec<u64>, BadCase> {
    let mut c = Case::new(case);
    match c.take()? {
        1 => run_kind1(&mut c),
        2 => run_kind2(&mut c),
        3 => run_kind3(&mut c),
        4 => run_kind4(&mut c),
        5 => run_kind5(&mut c),
        _ => Err(BadCase),
    }
}

fn main() {
    main_loop(run);
}
