//! C16 harness: compio-quic on loopback, client and server endpoints in one
//! compio runtime.
//!
//! kind 1 (data): `1 srw rw sw max_uni max_bi nuni nbi wchunk rchunk pace ndgram dlen seed len*`
//!   concurrent uni / bidi streams with the given payload sizes (each prefixed
//!   with a 4-byte stream tag), written in `wchunk` pieces, read with `rchunk`
//!   buffers by a reader that yields `pace` times between reads; windows and
//!   stream-count limits through TransportConfig; `ndgram` datagrams of `dlen`
//!   bytes; finish -> end of stream; then close.
//! kind 2 (close points): `2 close_kind`
//!   many futures left pending on both sides (reads, a write blocked on flow
//!   control, open_uni_wait without credit, accept_uni / accept_bi, recv_datagram,
//!   stopped, received_reset, wait_incoming), then the connection / endpoint is
//!   closed (0 client connection, 1 client endpoint, 2 server connection,
//!   3 server endpoint): every future must complete under the watchdog.
//! kind 3: `3 n`: n tasks wait in `accepted_0rtt()` on clones of a 0.5-RTT
//!   server connection while the handshake completes.
//!
//! kind 4: `4 len stop_after`: the reader stops a uni stream after `stop_after` bytes.
//! kind 5: `5 n dlen sendbuf`: datagrams through a small datagram send buffer.
//! kind 6: `6 len hdr mode wchunk pre_cap delay`: the first `hdr` bytes of a stream are
//!   consumed with read (mode 0) / read_chunk (mode 1), the rest with read_to_end.
//! kind 7: `7 bidi max rounds written observe len2`: `rounds` streams are written to
//!   (not finished), stopped by the peer and then DROPPED without reset()/finish();
//!   with `max` concurrent streams allowed the following open_*_wait must succeed
//!   and a last stream must carry `len2` bytes.
//!
//! kind 8: `8 readers dlen`: several tasks parked in recv_datagram() on clones of one connection,
//!   then as many datagrams queued back to back by the peer: each reader must get one.
//!
//! kind 9: `9 len1 len2 which`: the halves of one bidirectional stream used independently: the send
//!   half is finished and dropped while a reader is parked on the receive half.
//!
//! Every result ends with the compio_quic::verif log (waker-table snapshots).
use std::{
    cell::{Cell, RefCell},
    future::Future,
    pin::Pin,
    rc::Rc,
    sync::{Arc, OnceLock},
    task::{Context, Poll},
    time::Duration,
};

use compio_buf::{BufResult, bytes::Bytes};
use compio_io::{AsyncRead, AsyncWriteExt};
use compio_quic::{
    ClientBuilder, ClientConfig, Connection, Endpoint, RecvStream, SendStream, ServerBuilder, ServerConfig,
    TransportConfig, VarInt, verif,
};
use compio_runtime::time::{sleep, timeout};
use verif_harness::{BadCase, Case, main_loop};

struct Certs {
    cert: Vec<u8>,
    key: Vec<u8>,
}

fn certs() -> &'static Certs {
    static C: OnceLock<Certs> = OnceLock::new();
    C.get_or_init(|| {
        let rcgen::CertifiedKey { cert, signing_key } =
            rcgen::generate_simple_self_signed(vec!["localhost".into()]).unwrap();
        Certs { cert: cert.der().to_vec(), key: signing_key.serialize_der() }
    })
}

fn config_pair(transport: TransportConfig) -> (ServerConfig, ClientConfig) {
    use compio_quic::crypto::rustls as _;
    let c = certs();
    let cert = rustls_pki(c.cert.clone());
    let key = c.key.clone().try_into().unwrap();
    let mut server_config = ServerBuilder::new_with_single_cert(vec![cert.clone()], key).unwrap().build();
    let mut client_config = ClientBuilder::new_with_empty_roots()
        .with_custom_certificate(cert)
        .unwrap()
        .with_no_crls()
        .build();
    let transport = Arc::new(transport);
    server_config.transport_config(transport.clone());
    client_config.transport_config(transport);
    (server_config, client_config)
}

fn rustls_pki(der: Vec<u8>) -> compio_tls::rustls::pki_types::CertificateDer<'static> {
    compio_tls::rustls::pki_types::CertificateDer::from(der)
}

thread_local! {
    static PROGRESS: Cell<u64> = const { Cell::new(0) };
}

/// Something moved (bytes, a datagram, a scenario step): feeds the watchdog.
fn bump() {
    PROGRESS.with(|p| p.set(p.get() + 1));
}

/// Runs `fut` until it completes, or until nothing has moved for `idle` (a hang:
/// `None`).  Not a deadline: a slow machine only makes the run longer.
async fn watchdog<T>(idle: Duration, fut: impl Future<Output = T>) -> Option<T> {
    use futures_util::future::{Either, select};
    let guard = async {
        let t0 = std::time::Instant::now();
        let mut last = (PROGRESS.with(|p| p.get()), std::time::Instant::now());
        loop {
            sleep(Duration::from_millis(50)).await;
            let p = PROGRESS.with(|p| p.get());
            if p != last.0 {
                last = (p, std::time::Instant::now());
            } else if last.1.elapsed() > idle {
                return;
            }
            if t0.elapsed() > Duration::from_secs(300) {
                return;
            }
        }
    };
    match select(Box::pin(fut), Box::pin(guard)).await {
        Either::Left((v, _)) => Some(v),
        Either::Right(_) => None,
    }
}

const IDLE: Duration = Duration::from_secs(8);

struct Yield(usize);

impl Future for Yield {
    type Output = ();

    fn poll(mut self: Pin<&mut Self>, cx: &mut Context<'_>) -> Poll<()> {
        if self.0 == 0 {
            return Poll::Ready(());
        }
        self.0 -= 1;
        cx.waker().wake_by_ref();
        Poll::Pending
    }
}

fn body(seed: u64, idx: usize, len: usize) -> Vec<u8> {
    let mut v = Vec::with_capacity(len + 4);
    v.extend_from_slice(&(idx as u32).to_le_bytes());
    v.extend((0..len).map(|i| ((seed as usize).wrapping_mul(131) + idx * 17 + i * 7 + i / 253) as u8));
    v
}

struct Pair {
    server: Endpoint,
    client: Endpoint,
    sconn: Connection,
    cconn: Connection,
}

async fn establish(transport: TransportConfig) -> Option<Pair> {
    let (sc, cc) = config_pair(transport);
    let server = Endpoint::server("127.0.0.1:0", sc).await.ok()?;
    let mut client = Endpoint::client("127.0.0.1:0").await.ok()?;
    client.default_client_config = Some(cc);
    let addr = server.local_addr().ok()?;
    let mut connecting = client.connect(addr, "localhost", None).ok()?;
    let (c, s) = futures_util::join!(
        async {
            // wait for the handshake data first (on_handshake_data), then for the connection
            let _ = connecting.handshake_data().await;
            connecting.await
        },
        async { server.wait_incoming().await?.await.ok() }
    );
    bump();
    Some(Pair { server, client, sconn: s?, cconn: c.ok()? })
}

async fn read_chunk(r: &mut RecvStream, cap: usize) -> Result<Vec<u8>, ()> {
    let BufResult(res, buf) = r.read(Vec::with_capacity(cap.max(1))).await;
    bump();
    match res {
        Ok(n) => {
            debug_assert_eq!(n, buf.len());
            Ok(buf)
        }
        Err(_) => Err(()),
    }
}

async fn write_chunks(s: &mut SendStream, data: &[u8], wchunk: usize) -> Result<(), ()> {
    for piece in data.chunks(wchunk.max(1)) {
        let BufResult(res, _) = s.write_all(piece.to_vec()).await;
        bump();
        res.map_err(|_| ())?;
    }
    Ok(())
}

#[derive(Clone, Default)]
struct StreamOut {
    got: u64,      // bytes the receiver saw (tag included)
    data_ok: bool, // ... equal to what was sent, with end-of-stream right after the last byte
    echo: u64,     // bidi: bytes echoed back to the client
    echo_ok: bool,
    write_ok: bool,
}

fn push_log(res: &mut Vec<u64>, log: &[verif::Event]) {
    const CAP: usize = 6000;
    res.push(log.len() as u64);
    let n = log.len().min(CAP);
    res.push(n as u64);
    for e in &log[..n] {
        res.extend([e.conn, e.kind as u64, e.a, e.b]);
        res.extend(e.sizes.iter().map(|&x| x as u64));
    }
}

// ---------------------------------------------------------------------------
// kind 1

fn run_data(c: &mut Case) -> Result<Vec<u64>, BadCase> {
    let srw = c.take()?;
    let rw = c.take()?;
    let sw = c.take()?;
    let max_uni = c.take()?;
    let max_bi = c.take()?;
    let nuni = c.take()? as usize;
    let nbi = c.take()? as usize;
    let wchunk = c.take()? as usize;
    let rchunk = c.take()? as usize;
    let pace = c.take()? as usize;
    let ndgram = c.take()? as usize;
    let dlen = c.take()? as usize;
    let seed = c.take()?;
    let n = nuni + nbi;
    let lens: Vec<usize> = c.take_n(n)?.iter().map(|&x| x as usize).collect();
    if n > 32 || lens.iter().any(|&l| l > 1 << 18) || srw == 0 || rw == 0 || sw == 0 || max_uni == 0 || max_bi == 0
        || ndgram > 64 || dlen > 1000 || srw > u32::MAX as u64 || rw > u32::MAX as u64
    {
        return Err(BadCase);
    }
    let mut t = TransportConfig::default();
    t.stream_receive_window(VarInt::from_u32(srw as u32))
        .receive_window(VarInt::from_u32(rw as u32))
        .send_window(sw)
        .max_concurrent_uni_streams(VarInt::from_u32(max_uni as u32))
        .max_concurrent_bidi_streams(VarInt::from_u32(max_bi as u32));

    let outs: Rc<RefCell<Vec<StreamOut>>> = Rc::new(RefCell::new(vec![StreamOut::default(); n]));
    let dgrams: Rc<RefCell<Vec<Vec<u8>>>> = Rc::new(RefCell::new(Vec::new()));
    let flags = Rc::new(Cell::new(0u64)); // bit 0 handshake, 1 client done, 2 server saw close, 3 shutdown ok

    let rt = compio_runtime::Runtime::new().unwrap();
    verif::start();
    let verdict = rt.block_on(async {
        let lens = lens.clone();
        let (outs, dgrams, flags) = (outs.clone(), dgrams.clone(), flags.clone());
        let r = watchdog(IDLE, async move {
            let Some(p) = establish(t).await else { return 1u64 };
            flags.set(flags.get() | 1);
            let Pair { server, client, sconn, cconn } = p;

            // server side: accept and read / echo
            let mut server_tasks = Vec::new();
            for _ in 0..nuni {
                let (sconn, outs, lens) = (sconn.clone(), outs.clone(), lens.clone());
                server_tasks.push(compio_runtime::spawn(async move {
                    let Ok(mut r) = sconn.accept_uni().await else { return };
                    let mut got = Vec::new();
                    let mut eof = false;
                    loop {
                        Yield(pace).await;
                        match read_chunk(&mut r, rchunk).await {
                            Ok(b) if b.is_empty() => {
                                eof = true;
                                break;
                            }
                            Ok(b) => got.extend_from_slice(&b),
                            Err(()) => break,
                        }
                    }
                    if got.len() >= 4 {
                        let idx = u32::from_le_bytes(got[..4].try_into().unwrap()) as usize;
                        if idx < nuni {
                            let mut o = outs.borrow_mut();
                            o[idx].got = got.len() as u64;
                            o[idx].data_ok = eof && got == body(seed, idx, lens[idx]);
                        }
                    }
                }));
            }
            for _ in 0..nbi {
                let (sconn, outs, lens) = (sconn.clone(), outs.clone(), lens.clone());
                server_tasks.push(compio_runtime::spawn(async move {
                    let Ok((mut s, mut r)) = sconn.accept_bi().await else { return };
                    let mut got = Vec::new();
                    let mut eof = false;
                    loop {
                        Yield(pace).await;
                        match read_chunk(&mut r, rchunk).await {
                            Ok(b) if b.is_empty() => {
                                eof = true;
                                break;
                            }
                            Ok(b) => {
                                got.extend_from_slice(&b);
                                if write_chunks(&mut s, &b, wchunk).await.is_err() {
                                    break;
                                }
                            }
                            Err(()) => break,
                        }
                    }
                    let _ = s.finish();
                    let _ = s.stopped().await;
                    if got.len() >= 4 {
                        let idx = u32::from_le_bytes(got[..4].try_into().unwrap()) as usize;
                        if (nuni..nuni + nbi).contains(&idx) {
                            let mut o = outs.borrow_mut();
                            o[idx].got = got.len() as u64;
                            o[idx].data_ok = eof && got == body(seed, idx, lens[idx]);
                        }
                    }
                }));
            }
            {
                let (sconn, dgrams) = (sconn.clone(), dgrams.clone());
                compio_runtime::spawn(async move {
                    while let Ok(d) = sconn.recv_datagram().await {
                        bump();
                        dgrams.borrow_mut().push(d.to_vec());
                    }
                })
                .detach();
            }

            // client side
            let mut client_tasks = Vec::new();
            for idx in 0..n {
                let (cconn, outs, lens) = (cconn.clone(), outs.clone(), lens.clone());
                client_tasks.push(compio_runtime::spawn(async move {
                    let data = body(seed, idx, lens[idx]);
                    if idx < nuni {
                        let Ok(mut s) = cconn.open_uni_wait().await else { return };
                        let ok = write_chunks(&mut s, &data, wchunk).await.is_ok() && s.finish().is_ok();
                        let _ = s.stopped().await;
                        outs.borrow_mut()[idx].write_ok = ok;
                    } else {
                        let Ok((mut s, mut r)) = cconn.open_bi_wait().await else { return };
                        let w = async {
                            let ok = write_chunks(&mut s, &data, wchunk).await.is_ok() && s.finish().is_ok();
                            let _ = s.stopped().await;
                            ok
                        };
                        let rd = async {
                            let mut echo = Vec::new();
                            let mut eof = false;
                            loop {
                                match read_chunk(&mut r, rchunk).await {
                                    Ok(b) if b.is_empty() => {
                                        eof = true;
                                        break;
                                    }
                                    Ok(b) => echo.extend_from_slice(&b),
                                    Err(()) => break,
                                }
                            }
                            (echo, eof)
                        };
                        let (ok, (echo, eof)) = futures_util::join!(w, rd);
                        let mut o = outs.borrow_mut();
                        o[idx].write_ok = ok;
                        o[idx].echo = echo.len() as u64;
                        o[idx].echo_ok = eof && echo == data;
                    }
                }));
            }
            for j in 0..ndgram {
                let mut d = vec![j as u8, seed as u8];
                d.extend((0..dlen).map(|i| (i * 3 + j) as u8));
                if cconn.send_datagram_wait(Bytes::from(d)).await.is_err() {
                    break;
                }
            }
            for t in client_tasks {
                let _ = t.await;
            }
            for t in server_tasks {
                let _ = t.await;
            }
            // let datagrams still in flight arrive
            for _ in 0..20 {
                if dgrams.borrow().len() >= ndgram {
                    break;
                }
                sleep(Duration::from_millis(5)).await;
            }
            flags.set(flags.get() | 2);
            cconn.close(VarInt::from_u32(0), b"done");
            let _ = sconn.closed().await;
            flags.set(flags.get() | 4);
            drop(sconn);
            drop(cconn);
            let (a, b) = futures_util::join!(client.shutdown(), server.shutdown());
            if a.is_ok() && b.is_ok() {
                flags.set(flags.get() | 8);
            }
            0
        })
        .await;
        r.unwrap_or(3)
    });
    drop(rt);
    let log = verif::take();
    let mut res = vec![0, verdict, flags.get(), n as u64];
    for o in outs.borrow().iter() {
        res.extend([o.got, o.data_ok as u64, o.echo, o.echo_ok as u64, o.write_ok as u64]);
    }
    let d = dgrams.borrow();
    let mut ok = 0;
    let mut seen = std::collections::HashSet::new();
    let mut dup = 0;
    for g in d.iter() {
        let j = *g.first().unwrap_or(&255) as usize;
        let mut e = vec![j as u8, seed as u8];
        e.extend((0..dlen).map(|i| (i * 3 + j) as u8));
        if j < ndgram && *g == e {
            ok += 1;
        }
        if !seen.insert(j) {
            dup += 1;
        }
    }
    res.extend([d.len() as u64, ok, dup]);
    push_log(&mut res, &log);
    Ok(res)
}

// ---------------------------------------------------------------------------
// kind 2

/// result of one pending future: 0 = still pending at the deadline,
/// 1 = completed with a connection error, 2 = completed otherwise
type Slot = Rc<Cell<u64>>;

fn watch<T>(slots: &Rc<RefCell<Vec<(u64, Slot)>>>, id: u64, fut: impl Future<Output = Result<T, bool>> + 'static) {
    let slot = Rc::new(Cell::new(0));
    slots.borrow_mut().push((id, slot.clone()));
    compio_runtime::spawn(async move {
        let r = fut.await;
        bump();
        slot.set(match r {
            Err(true) => 1,
            _ => 2,
        });
    })
    .detach();
}

fn run_close(c: &mut Case) -> Result<Vec<u64>, BadCase> {
    let kind = c.take()?;
    if kind > 3 {
        return Err(BadCase);
    }
    let mut t = TransportConfig::default();
    t.stream_receive_window(VarInt::from_u32(1000))
        .max_concurrent_uni_streams(VarInt::from_u32(1))
        .max_concurrent_bidi_streams(VarInt::from_u32(4))
        .datagram_send_buffer_size(1200);
    let slots: Rc<RefCell<Vec<(u64, Slot)>>> = Rc::new(RefCell::new(Vec::new()));
    // the hook log is read while the scenario runs: what was taken so far
    let acc: Rc<RefCell<Vec<verif::Event>>> = Rc::new(RefCell::new(Vec::new()));
    let parked_at_close = Rc::new(Cell::new(0u64));
    let rt = compio_runtime::Runtime::new().unwrap();
    verif::start();
    let sl = slots.clone();
    let (acc2, pk2) = (acc.clone(), parked_at_close.clone());
    let verdict = rt.block_on(async move {
        let r = watchdog(IDLE, async move {
            let (acc, parked_at_close) = (acc2, pk2);
            let Some(p) = establish(t).await else { return 1u64 };
            let Pair { server, client, sconn, cconn } = p;
            use compio_quic::{ReadError, StoppedError, WriteError};
            let is_conn_r = |e: &ReadError| matches!(e, ReadError::ConnectionLost(_));

            // ---- client side
            // bidi A: one byte so that the server can accept it; then read (nothing comes)
            let (mut a_s, mut a_r) = cconn.open_bi().unwrap();
            let _ = a_s.write_all(vec![1u8]).await;
            watch(&sl, 1, async move {
                let r = a_r.read_chunk(100, true).await;
                r.map_err(|e| is_conn_r(&e))
            });
            // ... and stopped() on its send half
            watch(&sl, 7, async move {
                a_s.stopped().await.map_err(|e| matches!(e, StoppedError::ConnectionLost(_)))
            });
            // uni B: the only credit; 50 KB against a 1000-byte window nobody reads
            let mut b_s = cconn.open_uni().unwrap();
            watch(&sl, 2, async move {
                let BufResult(r, _) = b_s.write_all(vec![7u8; 50_000]).await;
                r.map_err(|e| {
                    e.get_ref().and_then(|i| i.downcast_ref::<WriteError>())
                        .is_some_and(|w| matches!(w, WriteError::ConnectionLost(_)))
                })
            });
            // no credit left
            {
                let cc = cconn.clone();
                watch(&sl, 3, async move { cc.open_uni_wait().await.map(|_| ()).map_err(|_| true) });
            }
            {
                let cc = cconn.clone();
                watch(&sl, 4, async move { cc.accept_uni().await.map(|_| ()).map_err(|_| true) });
            }
            {
                let cc = cconn.clone();
                watch(&sl, 5, async move { cc.accept_bi().await.map(|_| ()).map_err(|_| true) });
            }
            {
                let cc = cconn.clone();
                watch(&sl, 6, async move { cc.recv_datagram().await.map(|_| ()).map_err(|_| true) });
            }
            // bidi C: received_reset on the receive half
            let (mut c_s, mut c_r) = cconn.open_bi().unwrap();
            let _ = c_s.write_all(vec![2u8]).await;
            watch(&sl, 8, async move {
                let r = c_r.received_reset().await;
                drop(c_s);
                r.map_err(|e| matches!(e, compio_quic::ResetError::ConnectionLost(_)))
            });
            if kind == 1 {
                let ep = client.clone();
                watch(&sl, 9, async move {
                    match ep.wait_incoming().await {
                        None => Err(true),
                        Some(_) => Ok(()),
                    }
                });
            }

            // ---- server side
            {
                let sc = sconn.clone();
                watch(&sl, 11, async move {
                    let (_s, mut r) = sc.accept_bi().await.map_err(|_| true)?;
                    let _ = r.read_chunk(100, true).await; // the first byte
                    let x = r.read_chunk(100, true).await;
                    x.map(|_| ()).map_err(|e| matches!(e, ReadError::ConnectionLost(_)))
                });
            }
            {
                let sc = sconn.clone();
                watch(&sl, 12, async move {
                    // stream B arrives and is not read; a second accept stays pending
                    let _b = sc.accept_uni().await.map_err(|_| true)?;
                    sc.accept_uni().await.map(|_| ()).map_err(|_| true)
                });
            }
            {
                let sc = sconn.clone();
                watch(&sl, 13, async move {
                    // takes whatever datagrams arrive; ends with the connection
                    loop {
                        sc.recv_datagram().await.map_err(|_| true)?;
                    }
                    #[allow(unreachable_code)]
                    Ok(())
                });
            }
            if kind == 3 {
                let ep = server.clone();
                watch(&sl, 14, async move {
                    match ep.wait_incoming().await {
                        None => Err(true),
                        Some(_) => Ok(()),
                    }
                });
            }

            // let everything block
            sleep(Duration::from_millis(60)).await;
            // three spawned tasks push 1000-byte datagrams through a 1200-byte send buffer:
            // whoever does not get the free slot parks in send_datagram_wait
            for id in 21..24u64 {
                let cc = cconn.clone();
                watch(&sl, id, async move {
                    loop {
                        cc.send_datagram_wait(Bytes::from(vec![id as u8; 1000]))
                            .await
                            .map_err(|e| matches!(e, compio_quic::SendDatagramError::ConnectionLost(_)))?;
                        Yield(1).await;
                    }
                    #[allow(unreachable_code)]
                    Ok(())
                });
            }
            // close at a moment when the hook's latest snapshot shows senders parked in
            // datagrams_unblocked (no await between the look and the close)
            let mut last: std::collections::HashMap<u64, [u32; verif::NSIZES]> = Default::default();
            let mut parked = 0;
            for round in 0..4000 {
                {
                    let new = verif::take();
                    verif::start();
                    for e in &new {
                        last.insert(e.conn, e.sizes);
                    }
                    acc.borrow_mut().extend(new);
                }
                parked = last.values().map(|s| s[3]).max().unwrap_or(0);
                if parked >= 2 || (round >= 1500 && parked >= 1) {
                    break;
                }
                if round % 8 == 7 {
                    sleep(Duration::from_millis(1)).await;
                } else {
                    Yield(1).await;
                }
            }
            parked_at_close.set(parked as u64);
            let before: Vec<u64> = sl.borrow().iter().map(|(_, s)| s.get()).collect();
            match kind {
                0 => cconn.close(VarInt::from_u32(1), b"bye"),
                1 => client.close(VarInt::from_u32(1), b"bye"),
                2 => sconn.close(VarInt::from_u32(1), b"bye"),
                _ => server.close(VarInt::from_u32(1), b"bye"),
            }
            // every pending future must complete now
            for _ in 0..1200 {
                if sl.borrow().iter().all(|(_, s)| s.get() != 0) {
                    break;
                }
                sleep(Duration::from_millis(5)).await;
            }
            let early = before.iter().filter(|&&x| x != 0).count() as u64;
            drop(cconn);
            drop(sconn);
            let _ = timeout(Duration::from_secs(5), async {
                futures_util::join!(client.shutdown(), server.shutdown())
            })
            .await;
            100 + early
        })
        .await;
        r.unwrap_or(3)
    });
    drop(rt);
    let mut log = acc.borrow().clone();
    log.extend(verif::take());
    let mut res = vec![0, verdict, kind, slots.borrow().len() as u64];
    for (id, s) in slots.borrow().iter() {
        res.extend([*id, s.get()]);
    }
    res.push(parked_at_close.get());
    push_log(&mut res, &log);
    Ok(res)
}

// ---------------------------------------------------------------------------
// kind 3

fn run_0rtt_waiters(c: &mut Case) -> Result<Vec<u64>, BadCase> {
    let n = c.take()? as usize;
    if n == 0 || n > 8 {
        return Err(BadCase);
    }
    let done = Rc::new(Cell::new(0u64));
    let rt = compio_runtime::Runtime::new().unwrap();
    verif::start();
    let d = done.clone();
    let verdict = rt.block_on(async move {
        let r = watchdog(IDLE, async move {
            let (sc, cc) = config_pair(TransportConfig::default());
            let server = Endpoint::server("127.0.0.1:0", sc).await.unwrap();
            let mut client = Endpoint::client("127.0.0.1:0").await.unwrap();
            client.default_client_config = Some(cc);
            let addr = server.local_addr().unwrap();
            let connecting = client.connect(addr, "localhost", None).unwrap();
            let srv = async {
                let inc = server.wait_incoming().await.unwrap();
                // 0.5-RTT: a Connection before the handshake has completed
                let conn = inc.accept().unwrap().into_0rtt().ok().unwrap();
                for _ in 0..n {
                    let (c2, d) = (conn.clone(), d.clone());
                    compio_runtime::spawn(async move {
                        if c2.accepted_0rtt().await.is_ok() {
                            bump();
                            d.set(d.get() + 1);
                        }
                    })
                    .detach();
                }
                conn
            };
            let (c, s) = futures_util::join!(connecting, srv);
            let c = c.ok();
            for _ in 0..200 {
                if d.get() as usize >= n {
                    break;
                }
                sleep(Duration::from_millis(5)).await;
            }
            drop(c);
            drop(s);
            0u64
        })
        .await;
        r.unwrap_or(3)
    });
    drop(rt);
    let log = verif::take();
    let mut res = vec![0, verdict, n as u64, done.get()];
    push_log(&mut res, &log);
    Ok(res)
}

// ---------------------------------------------------------------------------
// kind 4: `4 len stop_after`: the reader stops a uni stream after `stop_after` bytes
// result: `0 verdict write(0 ok, 1 Stopped(7), 2 other) stopped(0 Some(7), 1 None, 2 error) log`

fn run_stop(c: &mut Case) -> Result<Vec<u64>, BadCase> {
    let len = c.take()? as usize;
    let stop_after = c.take()? as usize;
    if len > 1 << 18 || len == 0 || stop_after >= len {
        // the reader must be able to get `stop_after` bytes, and an empty stream is never announced
        return Err(BadCase);
    }
    let mut t = TransportConfig::default();
    t.stream_receive_window(VarInt::from_u32(1000));
    let out = Rc::new(Cell::new((9u64, 9u64)));
    let rt = compio_runtime::Runtime::new().unwrap();
    verif::start();
    let o = out.clone();
    let verdict = rt.block_on(async move {
        watchdog(IDLE, async move {
            let Some(Pair { server, client, sconn, cconn }) = establish(t).await else { return 1u64 };
            let srv = async {
                let Ok(mut r) = sconn.accept_uni().await else { return };
                let mut got = 0;
                while got < stop_after {
                    match read_chunk(&mut r, 500).await {
                        Ok(b) if !b.is_empty() => got += b.len(),
                        _ => break,
                    }
                }
                let _ = r.stop(VarInt::from_u32(7));
            };
            let cli = async {
                let mut s = cconn.open_uni().unwrap();
                let BufResult(r, _) = s.write_all(vec![5u8; len]).await;
                let w = match r {
                    Ok(()) => 0,
                    Err(e) => match e.get_ref().and_then(|i| i.downcast_ref::<compio_quic::WriteError>()) {
                        Some(compio_quic::WriteError::Stopped(code)) if code.into_inner() == 7 => 1,
                        _ => 2,
                    },
                };
                let st = match s.stopped().await {
                    Ok(Some(code)) if code.into_inner() == 7 => 0,
                    Ok(_) => 1,
                    Err(_) => 2,
                };
                o.set((w, st));
            };
            futures_util::join!(srv, cli);
            cconn.close(VarInt::from_u32(0), b"");
            drop(sconn);
            drop(cconn);
            let _ = futures_util::join!(client.shutdown(), server.shutdown());
            0
        })
        .await
        .unwrap_or(3)
    });
    drop(rt);
    let log = verif::take();
    let mut res = vec![0, verdict, out.get().0, out.get().1];
    push_log(&mut res, &log);
    Ok(res)
}

// ---------------------------------------------------------------------------
// kind 5: `5 n dlen sendbuf`: n datagrams through send_datagram_wait with a small send buffer
// result: `0 verdict sent received received_ok log`

fn run_dgram(c: &mut Case) -> Result<Vec<u64>, BadCase> {
    let n = c.take()? as usize;
    let dlen = c.take()? as usize;
    let sendbuf = c.take()? as usize;
    if n > 200 || dlen > 1100 || sendbuf == 0 {
        return Err(BadCase);
    }
    let mut t = TransportConfig::default();
    t.datagram_send_buffer_size(sendbuf);
    let out = Rc::new(Cell::new((0u64, 0u64, 0u64)));
    let rt = compio_runtime::Runtime::new().unwrap();
    verif::start();
    let o = out.clone();
    let verdict = rt.block_on(async move {
        watchdog(IDLE, async move {
            let Some(Pair { server, client, sconn, cconn }) = establish(t).await else { return 1u64 };
            let got = Rc::new(RefCell::new(Vec::<Vec<u8>>::new()));
            {
                let (sconn, got) = (sconn.clone(), got.clone());
                compio_runtime::spawn(async move {
                    while let Ok(d) = sconn.recv_datagram().await {
                        bump();
                        got.borrow_mut().push(d.to_vec());
                    }
                })
                .detach();
            }
            let mk = |j: usize| {
                let mut d = vec![j as u8];
                d.extend((0..dlen).map(|i| (i * 5 + j) as u8));
                d
            };
            let mut sent = 0;
            for j in 0..n {
                if cconn.send_datagram_wait(Bytes::from(mk(j))).await.is_err() {
                    break;
                }
                sent += 1;
            }
            for _ in 0..40 {
                if got.borrow().len() >= sent {
                    break;
                }
                sleep(Duration::from_millis(5)).await;
            }
            let g = got.borrow();
            let ok = g.iter().filter(|d| !d.is_empty() && (d[0] as usize) < n && **d == mk(d[0] as usize)).count();
            o.set((sent as u64, g.len() as u64, ok as u64));
            cconn.close(VarInt::from_u32(0), b"");
            drop(sconn);
            drop(cconn);
            let _ = futures_util::join!(client.shutdown(), server.shutdown());
            0
        })
        .await
        .unwrap_or(3)
    });
    drop(rt);
    let log = verif::take();
    let (a, b, cc) = out.get();
    let mut res = vec![0, verdict, a, b, cc];
    push_log(&mut res, &log);
    Ok(res)
}

// ---------------------------------------------------------------------------
// kind 8: `8 readers dlen`: `readers` tasks (distinct wakers) are parked in recv_datagram() on
// clones of one connection; the peer then queues as many datagrams back to back, so that they
// arrive before the first one is consumed: every parked reader must get one.
// result: `0 verdict readers completed intact log`

fn run_dgram_readers(c: &mut Case) -> Result<Vec<u64>, BadCase> {
    let readers = c.take()? as usize;
    let dlen = c.take()? as usize;
    if readers == 0 || readers > 8 || dlen > 1100 {
        return Err(BadCase);
    }
    let out = Rc::new(Cell::new((0u64, 0u64)));
    let rt = compio_runtime::Runtime::new().unwrap();
    verif::start();
    let o = out.clone();
    let verdict = rt.block_on(async move {
        watchdog(IDLE, async move {
            let Some(Pair { server, client, sconn, cconn }) = establish(TransportConfig::default()).await else {
                return 1u64;
            };
            let mk = move |j: usize| {
                let mut d = vec![j as u8];
                d.extend((0..dlen).map(|i| (i * 7 + j) as u8));
                d
            };
            let done = Rc::new(Cell::new(0u64));
            let intact = Rc::new(Cell::new(0u64));
            for _ in 0..readers {
                let (sconn, done, intact) = (sconn.clone(), done.clone(), intact.clone());
                compio_runtime::spawn(async move {
                    if let Ok(d) = sconn.recv_datagram().await {
                        bump();
                        let d = d.to_vec();
                        if !d.is_empty() && (d[0] as usize) < readers && d == mk(d[0] as usize) {
                            intact.set(intact.get() + 1);
                        }
                        done.set(done.get() + 1);
                    }
                })
                .detach();
            }
            // let every reader park
            for _ in 0..4 {
                sleep(Duration::from_millis(2)).await;
            }
            for j in 0..readers {
                let _ = cconn.send_datagram(Bytes::from(mk(j)));
            }
            for _ in 0..600 {
                if done.get() as usize >= readers {
                    break;
                }
                sleep(Duration::from_millis(5)).await;
            }
            o.set((done.get(), intact.get()));
            cconn.close(VarInt::from_u32(0), b"");
            drop(sconn);
            drop(cconn);
            let _ = futures_util::join!(client.shutdown(), server.shutdown());
            0
        })
        .await
        .unwrap_or(3)
    });
    drop(rt);
    let log = verif::take();
    let (a, b) = out.get();
    let mut res = vec![0, verdict, readers as u64, a, b];
    push_log(&mut res, &log);
    Ok(res)
}

// ---------------------------------------------------------------------------
// kind 9: `9 len1 len2 which`: the two halves of ONE bidirectional stream used independently.
// The client writes `len1` bytes, the accepting side parks a reader on the receive half
// (which 0: read_to_end, 1: read loop), answers on the send half, finishes and DROPS the send
// half while the reader is still parked; only then does the client send `len2` more bytes and
// finish. The reader must get len1 + len2 bytes and end-of-stream.
// result: `0 verdict got expected log`

fn run_bidi_halves(c: &mut Case) -> Result<Vec<u64>, BadCase> {
    let len1 = c.take()? as usize;
    let len2 = c.take()? as usize;
    let which = c.take()?;
    if len1 == 0 || len1 > 1 << 16 || len2 > 1 << 16 || which > 1 {
        return Err(BadCase);
    }
    let out = Rc::new(Cell::new(0u64));
    let rt = compio_runtime::Runtime::new().unwrap();
    verif::start();
    let o = out.clone();
    let verdict = rt.block_on(async move {
        watchdog(IDLE, async move {
            let Some(Pair { server, client, sconn, cconn }) = establish(TransportConfig::default()).await else {
                return 1u64;
            };
            let (mut cs, mut cr) = cconn.open_bi().unwrap();
            let BufResult(r, _) = cs.write_all(vec![3u8; len1]).await;
            if r.is_err() {
                return 2;
            }
            let Ok((mut ss, mut sr)) = sconn.accept_bi().await else { return 2 };
            let got = Rc::new(Cell::new(None::<u64>));
            let g = got.clone();
            let reader = compio_runtime::spawn(async move {
                let mut total = 0u64;
                if which == 0 {
                    let BufResult(r, _) = sr.read_to_end(Vec::with_capacity(16)).await;
                    if let Ok(n) = r {
                        total = n as u64;
                    }
                } else {
                    loop {
                        match read_chunk(&mut sr, 700).await {
                            Ok(b) if !b.is_empty() => total += b.len() as u64,
                            _ => break,
                        }
                        bump();
                    }
                }
                g.set(Some(total));
            });
            // let the reader consume what is there and park
            for _ in 0..5 {
                sleep(Duration::from_millis(3)).await;
            }
            let BufResult(r, _) = ss.write_all(b"ack".to_vec()).await;
            if r.is_err() {
                return 2;
            }
            let _ = ss.finish();
            drop(ss);
            for _ in 0..3 {
                sleep(Duration::from_millis(3)).await;
            }
            // the peer reads the answer, then sends the rest and finishes
            let mut ans = Vec::new();
            loop {
                match read_chunk(&mut cr, 100).await {
                    Ok(b) if !b.is_empty() => ans.extend_from_slice(&b),
                    _ => break,
                }
            }
            if len2 > 0 {
                let BufResult(r, _) = cs.write_all(vec![4u8; len2]).await;
                if r.is_err() {
                    return 2;
                }
            }
            let _ = cs.finish();
            for _ in 0..600 {
                if got.get().is_some() {
                    break;
                }
                sleep(Duration::from_millis(5)).await;
            }
            o.set(got.get().unwrap_or(u64::MAX >> 1));
            drop(reader);
            drop(cs);
            drop(cr);
            cconn.close(VarInt::from_u32(0), b"");
            drop(sconn);
            drop(cconn);
            let _ = futures_util::join!(client.shutdown(), server.shutdown());
            if ans == b"ack" { 0 } else { 4 }
        })
        .await
        .unwrap_or(3)
    });
    drop(rt);
    let log = verif::take();
    let mut res = vec![0, verdict, out.get(), (len1 + len2) as u64];
    push_log(&mut res, &log);
    Ok(res)
}

// ---------------------------------------------------------------------------
// kind 6: `6 len hdr mode wchunk pre_cap delay`
// result: `0 verdict hdr_ok returned expected rest_ok log`

fn run_read_to_end(c: &mut Case) -> Result<Vec<u64>, BadCase> {
    let len = c.take()? as usize;
    let hdr = c.take()? as usize;
    let mode = c.take()?;
    let wchunk = c.take()? as usize;
    let pre_cap = c.take()? as usize;
    let delay = c.take()?;
    if len > 1 << 18 || hdr > len || len == 0 || mode > 1 || pre_cap > 1 << 19 || delay > 100 {
        return Err(BadCase);
    }
    let mut t = TransportConfig::default();
    t.stream_receive_window(VarInt::from_u32(20_000));
    let out = Rc::new(Cell::new((0u64, 0u64, 0u64)));
    let rt = compio_runtime::Runtime::new().unwrap();
    verif::start();
    let o = out.clone();
    let verdict = rt.block_on(async move {
        watchdog(IDLE, async move {
            let Some(Pair { server, client, sconn, cconn }) = establish(t).await else { return 1u64 };
            let data: Vec<u8> = (0..len).map(|i| (i * 13 + i / 251 + 1) as u8).collect();
            let expect = data.clone();
            let cli = async {
                let mut s = cconn.open_uni().unwrap();
                let _ = write_chunks(&mut s, &data, wchunk).await;
                let _ = s.finish();
                let _ = s.stopped().await;
            };
            let srv = async {
                let Ok(mut r) = sconn.accept_uni().await else { return };
                if delay > 0 {
                    sleep(Duration::from_millis(delay)).await;
                }
                // the header, with ordered reads
                let mut head = Vec::new();
                while head.len() < hdr {
                    let want = hdr - head.len();
                    if mode == 0 {
                        match read_chunk(&mut r, want).await {
                            Ok(b) if !b.is_empty() => head.extend_from_slice(&b),
                            _ => break,
                        }
                    } else {
                        match r.read_chunk(want, true).await {
                            Ok(Some(ch)) => head.extend_from_slice(&ch.bytes),
                            _ => break,
                        }
                    }
                }
                let hdr_ok = head == expect[..hdr];
                // the rest
                let BufResult(res, buf) = r.read_to_end(Vec::with_capacity(pre_cap)).await;
                let n = res.unwrap_or(usize::MAX);
                let rest_ok = n == len - hdr && buf.len() == n && buf[..] == expect[hdr..];
                o.set((hdr_ok as u64, n as u64, rest_ok as u64));
            };
            futures_util::join!(cli, srv);
            cconn.close(VarInt::from_u32(0), b"");
            drop(sconn);
            drop(cconn);
            let _ = timeout(Duration::from_secs(5), async { futures_util::join!(client.shutdown(), server.shutdown()) }).await;
            0
        })
        .await
        .unwrap_or(3)
    });
    drop(rt);
    let log = verif::take();
    let (a, b, cc) = out.get();
    let mut res = vec![0, verdict, a, b, (len - hdr) as u64, cc];
    push_log(&mut res, &log);
    Ok(res)
}

// ---------------------------------------------------------------------------
// kind 7: `7 bidi max rounds written observe len2`
// result: `0 verdict rounds_done final_got final_ok stop_seen log`

fn run_drop_stopped(c: &mut Case) -> Result<Vec<u64>, BadCase> {
    let bidi = c.take()? != 0;
    let max = c.take()?;
    let rounds = c.take()? as usize;
    let written = c.take()? as usize;
    let observe = c.take()?;
    let len2 = c.take()? as usize;
    if max == 0 || max > 8 || rounds > 12 || written == 0 || written > 900 || observe > 2 || len2 > 1 << 17 {
        return Err(BadCase);
    }
    let mut t = TransportConfig::default();
    t.stream_receive_window(VarInt::from_u32(1000))
        .max_concurrent_uni_streams(VarInt::from_u32(max as u32))
        .max_concurrent_bidi_streams(VarInt::from_u32(max as u32));
    let out = Rc::new(Cell::new((0u64, 0u64, 0u64, 0u64)));
    let rt = compio_runtime::Runtime::new().unwrap();
    verif::start();
    let o = out.clone();
    let verdict = rt.block_on(async move {
        watchdog(IDLE, async move {
            let Some(Pair { server, client, sconn, cconn }) = establish(t).await else { return 1u64 };
            let o2 = o.clone();
            let cli = async {
                let mut stop_seen = 0u64;
                for round in 0..rounds {
                    // needs the credit of the streams dropped before
                    let (mut s, r) = if bidi {
                        let Ok((s, r)) = cconn.open_bi_wait().await else { return };
                        (s, Some(r))
                    } else {
                        let Ok(s) = cconn.open_uni_wait().await else { return };
                        (s, None)
                    };
                    let BufResult(w, _) = s.write_all(vec![round as u8 + 1; written]).await;
                    if w.is_err() {
                        return;
                    }
                    match observe {
                        0 => {
                            if let Ok(Some(code)) = s.stopped().await {
                                stop_seen += (code.into_inner() == 9) as u64;
                            }
                        }
                        1 => {
                            // keep writing (soon blocked on the 1000-byte window) until the stop arrives
                            loop {
                                let BufResult(w, _) = s.write_all(vec![0u8; 300]).await;
                                if w.is_err() {
                                    stop_seen += 1;
                                    break;
                                }
                            }
                        }
                        _ => sleep(Duration::from_millis(20)).await,
                    }
                    // no reset(), no finish(): the handles are just dropped
                    drop(s);
                    drop(r);
                    bump();
                    let (_, b, cc, _) = o2.get();
                    o2.set((round as u64 + 1, b, cc, stop_seen));
                }
                let data = body(3, 0, len2);
                if bidi {
                    let Ok((mut s, _r)) = cconn.open_bi_wait().await else { return };
                    let _ = write_chunks(&mut s, &data, 1000).await;
                    let _ = s.finish();
                    let _ = s.stopped().await;
                } else {
                    let Ok(mut s) = cconn.open_uni_wait().await else { return };
                    let _ = write_chunks(&mut s, &data, 1000).await;
                    let _ = s.finish();
                    let _ = s.stopped().await;
                }
            };
            let srv = async {
                for _ in 0..rounds {
                    let (s, mut r) = if bidi {
                        let Ok((s, r)) = sconn.accept_bi().await else { return };
                        (Some(s), r)
                    } else {
                        let Ok(r) = sconn.accept_uni().await else { return };
                        (None, r)
                    };
                    let _ = r.read_chunk(100, true).await;
                    let _ = r.stop(VarInt::from_u32(9));
                    drop(r);
                    drop(s);
                }
                let (s, mut r) = if bidi {
                    let Ok((s, r)) = sconn.accept_bi().await else { return };
                    (Some(s), r)
                } else {
                    let Ok(r) = sconn.accept_uni().await else { return };
                    (None, r)
                };
                let mut got = Vec::new();
                let mut eof = false;
                loop {
                    match read_chunk(&mut r, 4096).await {
                        Ok(b) if b.is_empty() => {
                            eof = true;
                            break;
                        }
                        Ok(b) => got.extend_from_slice(&b),
                        Err(()) => break,
                    }
                }
                drop(s);
                let (a, _, _, d) = o.get();
                o.set((a, got.len() as u64, (eof && got == body(3, 0, len2)) as u64, d));
            };
            futures_util::join!(cli, srv);
            cconn.close(VarInt::from_u32(0), b"");
            drop(sconn);
            drop(cconn);
            let _ = timeout(Duration::from_secs(5), async { futures_util::join!(client.shutdown(), server.shutdown()) }).await;
            0
        })
        .await
        .unwrap_or(3)
    });
    drop(rt);
    let log = verif::take();
    let (a, b, cc, d) = out.get();
    let mut res = vec![0, verdict, a, b, cc, d];
    push_log(&mut res, &log);
    Ok(res)
}

fn run(case: &[u64]) -> Result<Vec<u64>, BadCase> {
    let mut c = Case::new(case);
    match c.take()? {
        1 => run_data(&mut c),
        2 => run_close(&mut c),
        3 => run_0rtt_waiters(&mut c),
        4 => run_stop(&mut c),
        5 => run_dgram(&mut c),
        6 => run_read_to_end(&mut c),
        7 => run_drop_stopped(&mut c),
        8 => run_dgram_readers(&mut c),
        9 => run_bidi_halves(&mut c),
        _ => Err(BadCase),
    }
}

fn main() {
    main_loop(run);
}
