fn main() { println!("ext harness package builds"); }
