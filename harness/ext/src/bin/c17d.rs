//! C17, second part: several runtimes sharing ONE blocking pool through
//! compio_dispatcher::Dispatcher.  The dispatcher is built with
//! `thread_pool_limit(L)` on its proactor builder and nothing else (no explicit
//! reuse_thread_pool): its W worker runtimes run `compio_runtime::spawn_blocking`
//! jobs (path 0) while S other threads use `Dispatcher::dispatch_blocking`
//! (path 1) at the same time, and `join` is called at various moments.
//! A global gauge inside the jobs counts how many run at once over ALL paths.
//!
//! case: [L; tmo_ms; W; concurrent; join_mode; S; njobs; (path dur_us panics)*]
//!   join_mode 0: wait for every result, then join (the pool history up to there is replayed
//!                through the model); 1: join while the dispatch_blocking jobs are still running;
//!                2: join right after submitting (queued tasks may be cancelled: only the gauge,
//!                "at most once" and "join returns" are judged);
//!             3: saturation probe: the path-0 jobs (exactly L of them, first in the case) are held
//!                inside the pool until the harness opens a gate; once all L run, every
//!                dispatch_blocking submitter makes its first call: it MUST get the closure back
//!                (the runtimes have saturated the one shared pool); then the gate opens and the
//!                case goes on as join_mode 0
//! out: same layout as harness/rt/src/bin/c17.rs:
//!   [n_ev; (kind a b)*; njobs; (owner panics runner first runs status)*; max_gauge; L; hang; dropped; D;
//!    probe; join; join_mode; 0]
//!   probe: 0 not applicable / saturation not reached in time, 1 handed back as required,
//!          2 dispatch_blocking ACCEPTED a job while L jobs of the runtimes were running
//!   status: 1 own result delivered, 2 panic surfaced at the submitter, 4 cancelled, 0 nothing, 3 other
//!   join: 1 Ok, 2 Err/panic, 3 did not return within the watchdog
use std::{
    collections::HashMap,
    future::Future,
    num::NonZeroUsize,
    pin::pin,
    sync::{
        Arc, Mutex,
        atomic::{AtomicU64, AtomicUsize, Ordering::SeqCst},
        mpsc,
    },
    task::{Context, Poll, Wake, Waker},
    time::{Duration, Instant},
};

use compio_dispatcher::Dispatcher;
use compio_driver::{ProactorBuilder, verif};
use futures_channel::oneshot;
use verif_harness::*;

const H_CALL: u32 = 201;
const H_RET: u32 = 202;
const H_JSTART: u32 = 203;
const H_JEND: u32 = 204;
const H_WOKEN: u32 = 205;
const K_BLOCKING_DISPATCH: u32 = 11;
const K_BLOCKING_START: u32 = 12;
const K_BLOCKING_END: u32 = 13;
const K_WORKER_START: u32 = 30;
const K_WORKER_EXIT: u32 = 31;
const K_POOL_RESERVE: u32 = 32;
const K_BLOCKING_WOKEN: u32 = 33;
/// a loaded machine is slow, not stuck: nothing is called a hang before this
const DEADLINE: Duration = Duration::from_secs(40);
const WATCHDOG: Duration = Duration::from_secs(90);
const PANIC_MARK: u64 = u64::MAX;

/// tokens are unique over the whole process, so that events of an earlier case's leftover jobs
/// (cancelled tasks keep running in their pool) are never taken for jobs of this one
static TOKEN_BASE: AtomicU64 = AtomicU64::new(1000);

struct JobRec {
    tok: u64,
    gtok: u64,
    path: u64,
    owner: AtomicU64,
    panics: bool,
    dur: Duration,
    runs: AtomicU64,
    status: AtomicU64,
}

#[derive(Default)]
struct Gauge {
    cur: AtomicUsize,
    max: AtomicUsize,
    started: AtomicUsize,
    finished: AtomicUsize,
    /// 0 = path-0 jobs wait inside the pool (saturation probe)
    gate: AtomicUsize,
}

struct Parker(std::thread::Thread);
impl Wake for Parker {
    fn wake(self: Arc<Self>) {
        self.0.unpark();
    }
}

/// block on a future until `deadline`
fn block_on_until<F: Future>(f: F, deadline: Instant) -> Option<F::Output> {
    let waker = Waker::from(Arc::new(Parker(std::thread::current())));
    let mut cx = Context::from_waker(&waker);
    let mut f = pin!(f);
    loop {
        if let Poll::Ready(v) = f.as_mut().poll(&mut cx) {
            return Some(v);
        }
        let now = Instant::now();
        if now >= deadline {
            return None;
        }
        std::thread::park_timeout((deadline - now).min(Duration::from_millis(50)));
    }
}

fn body(rec: Arc<JobRec>, gauge: Arc<Gauge>) -> impl FnOnce() -> u64 + Send + 'static {
    move || {
        verif::emit(H_JSTART, rec.gtok, 0);
        rec.runs.fetch_add(1, SeqCst);
        gauge.started.fetch_add(1, SeqCst);
        let n = gauge.cur.fetch_add(1, SeqCst) + 1;
        gauge.max.fetch_max(n, SeqCst);
        if rec.path == 0 {
            let t0 = Instant::now();
            while gauge.gate.load(SeqCst) == 0 && t0.elapsed() < Duration::from_secs(60) {
                std::thread::sleep(Duration::from_micros(200));
            }
        }
        std::thread::sleep(rec.dur);
        gauge.cur.fetch_sub(1, SeqCst);
        gauge.finished.fetch_add(1, SeqCst);
        if rec.path == 1 {
            verif::emit(H_JEND, rec.gtok, 0);
            verif::emit(H_WOKEN, rec.gtok, 0);
        }
        if rec.panics {
            panic!("scripted panic of a blocking job");
        }
        rec.tok + 7
    }
}

struct CaseOut {
    jobs: Vec<Arc<JobRec>>,
    events: Vec<verif::Event>,
    max_gauge: u64,
    join: u64,
    probe: u64,
}

fn settle(rec: &JobRec, res: Option<Result<u64, oneshot::Canceled>>) {
    let st = match res {
        None => 0,
        Some(Err(_)) => 4,
        Some(Ok(v)) if v == PANIC_MARK => {
            if rec.panics {
                2
            } else {
                3
            }
        }
        Some(Ok(v)) if v == rec.tok + 7 && !rec.panics => 1,
        Some(Ok(_)) => 3,
    };
    rec.status.store(st, SeqCst);
}

#[allow(clippy::too_many_arguments)]
fn run_case(
    l: usize,
    tmo: Duration,
    w_n: u64,
    concurrent: bool,
    join_mode: u64,
    s_n: u64,
    specs: Vec<(u64, u64, bool)>,
) -> Result<CaseOut, BadCase> {
    let base = TOKEN_BASE.fetch_add(1000, SeqCst);
    let jobs: Vec<Arc<JobRec>> = specs
        .iter()
        .enumerate()
        .map(|(i, &(path, dur_us, panics))| {
            Arc::new(JobRec {
                tok: i as u64,
                gtok: base + i as u64,
                path,
                owner: AtomicU64::new(99),
                panics,
                dur: Duration::from_micros(dur_us),
                runs: AtomicU64::new(0),
                status: AtomicU64::new(0),
            })
        })
        .collect();
    let gauge = Arc::new(Gauge::default());
    let deadline = Instant::now() + DEADLINE;
    verif::start();
    let mut pb = ProactorBuilder::new();
    pb.thread_pool_limit(l).thread_pool_recv_timeout(tmo);
    let disp = Dispatcher::builder()
        .worker_threads(NonZeroUsize::new(w_n as usize).unwrap())
        .concurrent(concurrent)
        .proactor_builder(pb)
        .build()
        .map_err(|_| BadCase)?;
    let rxs: Mutex<Vec<(usize, oneshot::Receiver<u64>)>> = Mutex::new(vec![]);
    let probing = join_mode == 3;
    gauge.gate.store(!probing as usize, SeqCst);
    let n_path0 = jobs.iter().filter(|j| j.path == 0).count();
    let dispatch_path0 = |rxs: &Mutex<Vec<(usize, oneshot::Receiver<u64>)>>| {
        // path 0: tasks on the worker runtimes that call spawn_blocking
        for rec in jobs.iter().filter(|j| j.path == 0) {
            let b = body(rec.clone(), gauge.clone());
            let res = disp.dispatch(move || async move {
                match compio_runtime::spawn_blocking(b).await {
                    Ok(v) => v,
                    Err(_) => PANIC_MARK,
                }
            });
            match res {
                Ok(rx) => rxs.lock().unwrap().push((rec.tok as usize, rx)),
                Err(_) => rec.status.store(3, SeqCst),
            }
        }
    };
    let mut saturated = false;
    if probing {
        dispatch_path0(&rxs);
        let t0 = Instant::now();
        while gauge.started.load(SeqCst) < n_path0 && t0.elapsed() < DEADLINE {
            std::thread::sleep(Duration::from_millis(1));
        }
        saturated = n_path0 == l && gauge.started.load(SeqCst) == n_path0;
        if !saturated {
            gauge.gate.store(1, SeqCst);
        }
    }
    let probed = AtomicUsize::new(0);
    let accepted_while_saturated = AtomicUsize::new(0);
    let n_submitters = (0..s_n).filter(|s| jobs.iter().any(|j| j.path == 1 && j.tok % s_n == *s)).count();
    std::thread::scope(|sc| {
        // path 1: the dispatcher's own dispatch_blocking, from S threads, retried while saturated
        for s in 0..s_n {
            let mine: Vec<Arc<JobRec>> = jobs
                .iter()
                .filter(|j| j.path == 1 && j.tok % s_n == s)
                .cloned()
                .collect();
            let (disp, gauge, rxs) = (&disp, gauge.clone(), &rxs);
            let (probed, accepted_while_saturated) = (&probed, &accepted_while_saturated);
            sc.spawn(move || {
                let mut first_call = true;
                for rec in mine {
                    let d = w_n + s;
                    rec.owner.store(d, SeqCst);
                    verif::emit(H_CALL, rec.gtok, d as i64);
                    let mut f = body(rec.clone(), gauge.clone());
                    loop {
                        let res = disp.dispatch_blocking(f);
                        if first_call {
                            first_call = false;
                            if saturated && res.is_ok() {
                                accepted_while_saturated.fetch_add(1, SeqCst);
                            }
                            probed.fetch_add(1, SeqCst);
                        }
                        match res {
                            Ok(rx) => {
                                verif::emit(H_RET, rec.gtok, 1);
                                rxs.lock().unwrap().push((rec.tok as usize, rx));
                                break;
                            }
                            Err(e) => {
                                verif::emit(H_RET, rec.gtok, 0);
                                f = e.0;
                                if Instant::now() > deadline {
                                    break;
                                }
                                std::thread::yield_now();
                                std::thread::sleep(Duration::from_micros(100));
                            }
                        }
                    }
                }
            });
        }
        if probing {
            if saturated {
                // every submitter has made its first call against the saturated pool: open the gate
                let t0 = Instant::now();
                while probed.load(SeqCst) < n_submitters && t0.elapsed() < DEADLINE {
                    std::thread::sleep(Duration::from_millis(1));
                }
                gauge.gate.store(1, SeqCst);
            }
        } else {
            dispatch_path0(&rxs);
        }
    });
    let mut rxs = rxs.into_inner().unwrap();
    rxs.sort_by_key(|(i, _)| *i);
    let mut events = vec![];
    let join;
    let join_within = |disp: Dispatcher| -> u64 {
        match block_on_until(disp.join(), Instant::now() + DEADLINE) {
            Some(Ok(())) => 1,
            Some(Err(_)) => 2,
            None => 3,
        }
    };
    let probe = if !saturated || n_submitters == 0 {
        0
    } else if accepted_while_saturated.load(SeqCst) > 0 {
        2
    } else {
        1
    };
    match join_mode {
        0 | 3 => {
            for (i, rx) in rxs {
                settle(&jobs[i], block_on_until(rx, deadline));
            }
            std::thread::sleep(tmo.min(Duration::from_millis(30)) + Duration::from_millis(3));
            events = verif::take();
            join = join_within(disp);
        }
        1 => {
            let (first, later): (Vec<_>, Vec<_>) = rxs.into_iter().partition(|(i, _)| jobs[*i].path == 0);
            for (i, rx) in first {
                settle(&jobs[i], block_on_until(rx, deadline));
            }
            join = join_within(disp);
            for (i, rx) in later {
                settle(&jobs[i], block_on_until(rx, deadline));
            }
            let _ = verif::take();
        }
        _ => {
            join = join_within(disp);
            for (i, rx) in rxs {
                // a task that was still queued when join was called may have been cancelled
                settle(&jobs[i], block_on_until(rx, Instant::now() + Duration::from_secs(5)));
            }
            let _ = verif::take();
        }
    }
    // leave nothing behind for the next case: jobs of cancelled tasks may still be running in the pool
    let t0 = Instant::now();
    let mut calm = 0;
    while calm < 3 && t0.elapsed() < Duration::from_secs(10) {
        std::thread::sleep(Duration::from_millis(5));
        calm = if gauge.started.load(SeqCst) == gauge.finished.load(SeqCst) { calm + 1 } else { 0 };
    }
    Ok(CaseOut { jobs, events, max_gauge: gauge.max.load(SeqCst) as u64, join, probe })
}

/// raw log -> model events (same encoding as harness/rt/src/bin/c17.rs); jobs of path 0 are
/// identified by the BLOCKING_* hooks of the runtime's driver, jobs of path 1 by harness events
fn model_events(c: &CaseOut) -> (Vec<[u64; 3]>, Vec<usize>, u64) {
    // harness events carry process-wide tokens: keep only this case's, as job indices
    let base = c.jobs.first().map(|j| j.gtok).unwrap_or(0);
    let own = |a: u64| a >= base && a < base + c.jobs.len() as u64;
    let ev: Vec<verif::Event> = c
        .events
        .iter()
        .filter(|e| !(H_CALL..=H_WOKEN).contains(&e.kind) || own(e.a))
        .map(|e| {
            let mut e = *e;
            if (H_CALL..=H_WOKEN).contains(&e.kind) {
                e.a -= base;
            }
            e
        })
        .collect();
    let ev = &ev;
    let n = ev.len();
    let path0 = |tok: u64| c.jobs.get(tok as usize).is_some_and(|j| j.path == 0);
    let mut bind: Vec<Option<u64>> = vec![None; n];
    let mut next_js: HashMap<u64, u64> = HashMap::new();
    let mut next_start: HashMap<u64, u64> = HashMap::new();
    for i in (0..n).rev() {
        let e = &ev[i];
        match e.kind {
            H_JSTART if path0(e.a) => {
                next_js.insert(e.thread, e.a);
            }
            K_BLOCKING_START => {
                if let Some(tok) = next_js.remove(&e.thread) {
                    bind[i] = Some(tok);
                    next_start.insert(e.a, tok);
                }
            }
            K_BLOCKING_DISPATCH => {
                bind[i] = next_start.remove(&e.a);
            }
            _ => {}
        }
    }
    let mut out: Vec<[u64; 3]> = vec![];
    let mut order: Vec<usize> = vec![];
    let mut jid: HashMap<u64, u64> = HashMap::new();
    let mut th_d: HashMap<u64, u64> = HashMap::new();
    let mut th_w: HashMap<u64, u64> = HashMap::new();
    let mut cur: HashMap<u64, u64> = HashMap::new();
    let mut sent: HashMap<u64, u64> = HashMap::new();
    let mut pending_ret: HashMap<u64, u64> = HashMap::new();
    let mut next_rt = 0u64;
    let mut pending_spawns = 0u64;
    const NOBODY: u64 = 99;
    for (i, e) in ev.iter().enumerate() {
        match e.kind {
            H_CALL => {
                let d = e.b as u64;
                th_d.insert(e.thread, d);
                let j = order.len() as u64;
                jid.insert(e.a, j);
                order.push(e.a as usize);
                out.push([1, d, j]);
            }
            K_BLOCKING_DISPATCH => {
                let Some(tok) = bind[i] else { continue };
                // the runtimes are numbered in the order in which they first use the pool
                let d = *th_d.entry(e.thread).or_insert_with(|| {
                    next_rt += 1;
                    next_rt - 1
                });
                c.jobs[tok as usize].owner.store(d, SeqCst);
                if let Some(pj) = pending_ret.remove(&d) {
                    out.push([2, d, pj]);
                }
                let j = order.len() as u64;
                jid.insert(tok, j);
                order.push(tok as usize);
                out.push([1, d, j]);
                pending_ret.insert(d, j);
            }
            H_RET => {
                let d = th_d.get(&e.thread).copied().unwrap_or(NOBODY);
                let j = jid.get(&e.a).copied().unwrap_or(NOBODY);
                out.push([if e.b == 1 { 2 } else { 3 }, d, j]);
            }
            K_POOL_RESERVE => {
                if let Some(&d) = th_d.get(&e.thread) {
                    pending_spawns += (e.b == 1) as u64;
                    out.push([if e.b == 1 { 5 } else { 6 }, d, e.a]);
                }
            }
            K_WORKER_START => {
                // a pool thread of an earlier case's dispatcher that starts late (cancelled tasks of a
                // join-at-once case keep running in their own pool) has no reservation in this history
                if pending_spawns == 0 {
                    continue;
                }
                pending_spawns -= 1;
                let t = th_w.len() as u64;
                th_w.insert(e.thread, t);
                out.push([7, t, 0]);
            }
            H_JSTART if !path0(e.a) => {
                let t = th_w.get(&e.thread).copied().unwrap_or(NOBODY);
                out.push([8, t, jid.get(&e.a).copied().unwrap_or(NOBODY)]);
            }
            K_BLOCKING_START => {
                let Some(tok) = bind[i] else { continue };
                let t = th_w.get(&e.thread).copied().unwrap_or(NOBODY);
                let j = jid.get(&tok).copied().unwrap_or(NOBODY);
                cur.insert(e.thread, j);
                out.push([8, t, j]);
            }
            H_JEND => {
                let t = th_w.get(&e.thread).copied().unwrap_or(NOBODY);
                let j = jid.get(&e.a).copied().unwrap_or(NOBODY);
                sent.insert(e.thread, j);
                out.push([9, t, j]);
            }
            K_BLOCKING_END => {
                let Some(j) = cur.remove(&e.thread) else { continue };
                let t = th_w.get(&e.thread).copied().unwrap_or(NOBODY);
                sent.insert(e.thread, j);
                out.push([9, t, j]);
            }
            K_BLOCKING_WOKEN => {
                let Some(j) = sent.remove(&e.thread) else { continue };
                let t = th_w.get(&e.thread).copied().unwrap_or(NOBODY);
                out.push([11, t, j]);
            }
            H_WOKEN => {
                let Some(j) = sent.remove(&e.thread) else { continue };
                let t = th_w.get(&e.thread).copied().unwrap_or(NOBODY);
                out.push([11, t, j]);
            }
            K_WORKER_EXIT => {
                if let Some(&t) = th_w.get(&e.thread) {
                    out.push([10, t, e.a]);
                }
            }
            _ => {}
        }
    }
    let mut rest: Vec<(u64, u64)> = pending_ret.into_iter().collect();
    rest.sort();
    for (d, j) in rest {
        out.push([2, d, j]);
    }
    // repeated rejections with no counter change in between are implied by the first one
    let mut kept: Vec<[u64; 3]> = vec![];
    let mut epoch = 0u64;
    let mut rej: HashMap<u64, u64> = HashMap::new();
    let mut dropped_last: HashMap<u64, bool> = HashMap::new();
    let mut dropped = 0u64;
    for e in out {
        match e[0] {
            5 | 10 => {
                epoch += 1;
                if e[0] == 5 {
                    rej.remove(&e[1]);
                    dropped_last.insert(e[1], false);
                }
                kept.push(e);
            }
            6 => {
                if rej.get(&e[1]) == Some(&epoch) {
                    dropped_last.insert(e[1], true);
                    dropped += 1;
                } else {
                    rej.insert(e[1], epoch);
                    dropped_last.insert(e[1], false);
                    kept.push(e);
                }
            }
            3 => {
                if dropped_last.get(&e[1]).copied().unwrap_or(false) {
                    dropped += 1;
                } else {
                    kept.push(e);
                }
            }
            1 | 2 => {
                rej.remove(&e[1]);
                dropped_last.insert(e[1], false);
                kept.push(e);
            }
            _ => kept.push(e),
        }
    }
    (kept, order, dropped)
}

fn encode(c: &CaseOut, l: u64, d_n: u64, join_mode: u64) -> Vec<u64> {
    let replayed = join_mode == 0 || join_mode == 3;
    let (evs, mut order, dropped) = if replayed { model_events(c) } else { (vec![], vec![], 0) };
    // the history is replayed only when every job appears in it
    let complete = replayed && order.len() == c.jobs.len();
    let evs = if complete { evs } else { vec![] };
    if !complete {
        order.clear();
    }
    for i in 0..c.jobs.len() {
        if !order.contains(&i) {
            order.push(i);
        }
    }
    let mut runner: HashMap<u64, (u64, u64)> = HashMap::new();
    let mut seen_t: HashMap<u64, bool> = HashMap::new();
    for e in &evs {
        if e[0] == 8 {
            let first = !seen_t.contains_key(&e[1]);
            seen_t.insert(e[1], true);
            runner.entry(e[2]).or_insert((e[1], first as u64));
        }
    }
    let mut out = vec![evs.len() as u64];
    for e in &evs {
        out.extend_from_slice(e);
    }
    out.push(c.jobs.len() as u64);
    let mut hang = (c.join == 3) as u64;
    for (j, &idx) in order.iter().enumerate() {
        let rec = &c.jobs[idx];
        let (t, first) = runner.get(&(j as u64)).copied().unwrap_or((99, 0));
        let st = rec.status.load(SeqCst);
        if st == 0 && join_mode != 2 {
            hang = 1;
        }
        out.extend_from_slice(&[
            rec.owner.load(SeqCst),
            rec.panics as u64,
            t,
            first,
            rec.runs.load(SeqCst),
            st,
        ]);
    }
    out.extend_from_slice(&[c.max_gauge, l, hang, dropped, d_n, c.probe, c.join, join_mode, 0]);
    out
}

static SERIAL: Mutex<()> = Mutex::new(());

fn run(case: &[u64]) -> Result<Vec<u64>, BadCase> {
    let mut c = Case::new(case);
    let l = c.take()?;
    let tmo_ms = c.take()?;
    let w_n = c.take()?;
    let concurrent = c.take()?;
    let join_mode = c.take()?;
    let s_n = c.take()?;
    let nj = c.take()?;
    if !(1..=8).contains(&l)
        || tmo_ms > 100
        || !(1..=4).contains(&w_n)
        || concurrent > 1
        || join_mode > 3
        || !(1..=2).contains(&s_n)
        || nj > 24
    {
        return Err(BadCase);
    }
    let mut specs = vec![];
    for _ in 0..nj {
        let path = c.take()?;
        let dur = c.take()?;
        let p = c.take()?;
        if path > 1 || dur > 60_000 || p > 1 || (path == 1 && p == 1) {
            return Err(BadCase);
        }
        specs.push((path, dur, p == 1));
    }
    if c.i != case.len() {
        return Err(BadCase);
    }
    let _g = SERIAL.lock().unwrap_or_else(|e| e.into_inner());
    let tmo = Duration::from_millis(tmo_ms);
    let (tx, rx) = mpsc::channel();
    std::thread::spawn(move || {
        let _ = tx.send(run_case(l as usize, tmo, w_n, concurrent == 1, join_mode, s_n, specs));
    });
    let d_n = w_n + s_n;
    match rx.recv_timeout(WATCHDOG) {
        Ok(Ok(out)) => Ok(encode(&out, l, d_n, join_mode)),
        Ok(Err(e)) => Err(e),
        Err(_) => {
            let _ = verif::take();
            Ok(vec![0, 0, 0, l, 1, 0, d_n, 0, 3, join_mode, 0])
        }
    }
}

fn main() {
    main_loop(run);
}
