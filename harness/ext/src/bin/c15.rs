//! C15 harness: the TLS (native-tls / rustls through compio-tls) and WebSocket
//! (compio-ws) layers over a scripted transport.
//!
//! TLS cases (kind 1) run over an in-memory duplex transport that fragments
//! reads, accepts partial writes, answers Pending on schedule, optionally holds
//! written bytes back until flushed and optionally bounds the bytes in flight.
//! The transport is either handed to compio-tls directly (it implements the
//! futures-io traits) or implements the compio-io traits and is wrapped in
//! `compio_io::compat::AsyncStream` (the adapter of C12).
//!
//! WebSocket cases (kind 2) run compio-ws, which only accepts descriptors, over
//! Unix socket pairs with a relay task in the middle that fragments and delays.
//!
//! Client and server are two tasks of one compio runtime; the main future is a
//! watchdog counting transport calls: no call for many rounds = deadlock, too
//! many calls = spinning.  One chronological event log (hook events of
//! compio_tls::verif + transport calls + task polls + application steps) is
//! printed with the verdict.
use std::{
    cell::{Cell, RefCell},
    collections::VecDeque,
    future::Future,
    io,
    pin::Pin,
    rc::Rc,
    sync::{Arc, OnceLock},
    task::{Context, Poll, Waker},
};

use compio_buf::{BufResult, IoBuf, IoBufMut, IoBufMutExt, SetLenExt};
use compio_tls::{TlsAcceptor, TlsConnector, verif};
use futures_util::{AsyncRead, AsyncReadExt, AsyncWrite, AsyncWriteExt};
use verif_harness::{BadCase, Case, main_loop};

// ---------------------------------------------------------------------------
// event kinds added by the harness (compio_tls::verif kinds are 1..7)

// calls compio-tls makes on the stream it was given (logged by `Logged`)
const T_READ: u32 = 101; // a = capacity, b = result kind, c = bytes
const T_WRITE: u32 = 102; // a = length offered
const T_FLUSH: u32 = 103;
const T_CLOSE: u32 = 104;
// calls on the in-memory pipe itself, logged only when AsyncStream sits in between
const RAW: u32 = 100;
const TASK_POLL: u32 = 110; // a = 0 begin, 1 end ready, 2 end pending
const APP: u32 = 120; // a = step, b = 0 begin / 1 ok / 2 err, c = count

const R_OK: u64 = 0;
const R_PEND_SCRIPT: u64 = 1; // scripted Pending (the transport woke the task itself)
const R_PEND_NAT: u64 = 2; // no data / no room: the peer's action wakes
const R_ERR: u64 = 3;

const STEP_HS: u64 = 1;
const STEP_WRITE: u64 = 2;
const STEP_FLUSH: u64 = 3;
const STEP_READ: u64 = 4;
const STEP_CLOSE: u64 = 5;
const STEP_EOF: u64 = 6;

// ---------------------------------------------------------------------------
// in-memory duplex transport

#[derive(Default)]
struct Dir {
    q: VecDeque<u8>,
    cap: usize, // 0 = unbounded
    closed: bool,
    rwaker: Option<Waker>,
    wwaker: Option<Waker>,
}

impl Dir {
    fn room(&self) -> usize {
        if self.cap == 0 { usize::MAX } else { self.cap.saturating_sub(self.q.len()) }
    }
}

struct Watch {
    calls: Cell<u64>,
    budget: u64,
}

#[derive(Clone, Default)]
struct EndCfg {
    buffered: bool,
    cap: usize,
    rlim: Vec<usize>,
    wlim: Vec<usize>,
    pend: VecDeque<bool>,
}

struct EndInner {
    side: u64,
    cfg: EndCfg,
    inc: Rc<RefCell<Dir>>,
    out: Rc<RefCell<Dir>>,
    stage: VecDeque<u8>,
    ri: usize,
    wi: usize,
    watch: Rc<Watch>,
    unflushed: usize,         // bytes accepted since the last completed flush (ghost)
    flush_in_flight: bool,    // last flush answered Pending
    wait_owing: u64,          // reads that started waiting while bytes were held back
    raw_log: bool,            // emit the calls on the pipe (kinds 201..204)
}

#[derive(Clone)]
struct End(Rc<RefCell<EndInner>>);

fn lim(v: &[usize], i: &mut usize) -> usize {
    if v.is_empty() {
        return usize::MAX;
    }
    let l = v[*i % v.len()];
    *i += 1;
    if l == 0 { usize::MAX } else { l }
}

impl EndInner {
    fn emit(&self, kind: u32, a: u64, b: u64, c: u64) {
        if self.raw_log {
            verif::emit(kind + RAW, a, b, c);
        }
    }

    fn gate(&mut self, kind: u32, len: usize, waker: &Waker) -> Option<Poll<io::Result<usize>>> {
        let w = &self.watch;
        w.calls.set(w.calls.get() + 1);
        if w.calls.get() > w.budget {
            self.emit(kind, len as u64, R_ERR, 0);
            return Some(Poll::Ready(Err(io::Error::other("transport call budget exceeded"))));
        }
        if self.cfg.pend.pop_front().unwrap_or(false) {
            self.emit(kind, len as u64, R_PEND_SCRIPT, 0);
            if kind == T_FLUSH {
                self.flush_in_flight = true;
            }
            waker.wake_by_ref();
            return Some(Poll::Pending);
        }
        None
    }

    fn try_read(&mut self, waker: &Waker, dst: &mut [u8]) -> Poll<io::Result<usize>> {
        if let Some(r) = self.gate(T_READ, dst.len(), waker) {
            return r;
        }
        let mut inc = self.inc.borrow_mut();
        if inc.q.is_empty() && !dst.is_empty() {
            if inc.closed {
                self.emit(T_READ, dst.len() as u64, R_OK, 0);
                return Poll::Ready(Ok(0));
            }
            inc.rwaker = Some(waker.clone());
            self.emit(T_READ, dst.len() as u64, R_PEND_NAT, 0);
            if !self.stage.is_empty() && !self.flush_in_flight {
                // waiting for input while holding output back
                self.wait_owing += 1;
            }
            return Poll::Pending;
        }
        let n = dst.len().min(lim(&self.cfg.rlim, &mut self.ri)).min(inc.q.len());
        for d in dst.iter_mut().take(n) {
            *d = inc.q.pop_front().unwrap();
        }
        if let Some(w) = inc.wwaker.take() {
            w.wake();
        }
        self.emit(T_READ, dst.len() as u64, R_OK, n as u64);
        Poll::Ready(Ok(n))
    }

    fn push_out(&mut self, waker: &Waker, want: usize, from_stage: bool, src: &[u8]) -> usize {
        let mut out = self.out.borrow_mut();
        let n = want.min(out.room());
        if n < want || n == 0 {
            out.wwaker = Some(waker.clone());
        }
        if from_stage {
            for _ in 0..n {
                let b = self.stage.pop_front().unwrap();
                out.q.push_back(b);
            }
        } else {
            out.q.extend(src[..n].iter().copied());
        }
        if n > 0 {
            if let Some(w) = out.rwaker.take() {
                w.wake();
            }
        }
        n
    }

    fn try_write(&mut self, waker: &Waker, src: &[u8]) -> Poll<io::Result<usize>> {
        if let Some(r) = self.gate(T_WRITE, src.len(), waker) {
            return r;
        }
        if self.out.borrow().closed {
            self.emit(T_WRITE, src.len() as u64, R_ERR, 0);
            return Poll::Ready(Err(io::Error::from(io::ErrorKind::BrokenPipe)));
        }
        let want = src.len().min(lim(&self.cfg.wlim, &mut self.wi));
        if want == 0 {
            self.emit(T_WRITE, src.len() as u64, R_OK, 0);
            return Poll::Ready(Ok(0));
        }
        let n = if self.cfg.buffered {
            self.stage.extend(src[..want].iter().copied());
            want
        } else {
            let n = self.push_out(waker, want, false, src);
            if n == 0 {
                self.emit(T_WRITE, src.len() as u64, R_PEND_NAT, 0);
                return Poll::Pending;
            }
            n
        };
        self.unflushed += n;
        self.emit(T_WRITE, src.len() as u64, R_OK, n as u64);
        Poll::Ready(Ok(n))
    }

    fn try_flush(&mut self, waker: &Waker) -> Poll<io::Result<usize>> {
        if let Some(r) = self.gate(T_FLUSH, 0, waker) {
            return r;
        }
        if !self.stage.is_empty() {
            let want = self.stage.len();
            self.push_out(waker, want, true, &[]);
            if !self.stage.is_empty() {
                self.flush_in_flight = true;
                self.emit(T_FLUSH, 0, R_PEND_NAT, 0);
                return Poll::Pending;
            }
        }
        self.unflushed = 0;
        self.flush_in_flight = false;
        self.emit(T_FLUSH, 0, R_OK, 0);
        Poll::Ready(Ok(0))
    }

    fn try_close(&mut self, waker: &Waker) -> Poll<io::Result<usize>> {
        if let Some(r) = self.gate(T_CLOSE, 0, waker) {
            return r;
        }
        if !self.stage.is_empty() {
            let want = self.stage.len();
            self.push_out(waker, want, true, &[]);
            if !self.stage.is_empty() {
                self.emit(T_CLOSE, 0, R_PEND_NAT, 0);
                return Poll::Pending;
            }
        }
        let mut out = self.out.borrow_mut();
        out.closed = true;
        if let Some(w) = out.rwaker.take() {
            w.wake();
        }
        self.emit(T_CLOSE, 0, R_OK, 0);
        Poll::Ready(Ok(0))
    }
}

fn duplex(ccfg: EndCfg, scfg: EndCfg, watch: &Rc<Watch>, raw_log: bool) -> (End, End) {
    let c2s = Rc::new(RefCell::new(Dir { cap: ccfg.cap, ..Default::default() }));
    let s2c = Rc::new(RefCell::new(Dir { cap: scfg.cap, ..Default::default() }));
    let mk = |side, cfg, inc: &Rc<RefCell<Dir>>, out: &Rc<RefCell<Dir>>| {
        End(Rc::new(RefCell::new(EndInner {
            side,
            cfg,
            inc: inc.clone(),
            out: out.clone(),
            stage: VecDeque::new(),
            ri: 0,
            wi: 0,
            watch: watch.clone(),
            unflushed: 0,
            flush_in_flight: false,
            wait_owing: 0,
            raw_log,
        })))
    };
    (mk(1, ccfg, &s2c, &c2s), mk(2, scfg, &c2s, &s2c))
}

// the futures-io face
impl AsyncRead for End {
    fn poll_read(self: Pin<&mut Self>, cx: &mut Context<'_>, buf: &mut [u8]) -> Poll<io::Result<usize>> {
        self.0.borrow_mut().try_read(cx.waker(), buf)
    }
}

impl AsyncWrite for End {
    fn poll_write(self: Pin<&mut Self>, cx: &mut Context<'_>, buf: &[u8]) -> Poll<io::Result<usize>> {
        self.0.borrow_mut().try_write(cx.waker(), buf)
    }

    fn poll_flush(self: Pin<&mut Self>, cx: &mut Context<'_>) -> Poll<io::Result<()>> {
        self.0.borrow_mut().try_flush(cx.waker()).map(|r| r.map(|_| ()))
    }

    fn poll_close(self: Pin<&mut Self>, cx: &mut Context<'_>) -> Poll<io::Result<()>> {
        self.0.borrow_mut().try_close(cx.waker()).map(|r| r.map(|_| ()))
    }
}

/// What compio-tls sees: logs every call on the stream handed to the connector /
/// acceptor with its result.
struct Logged<S>(S);

fn log_poll<T>(kind: u32, len: usize, r: &Poll<io::Result<T>>, n: impl FnOnce(&T) -> u64) {
    match r {
        Poll::Ready(Ok(v)) => verif::emit(kind, len as u64, R_OK, n(v)),
        Poll::Ready(Err(_)) => verif::emit(kind, len as u64, R_ERR, 0),
        Poll::Pending => verif::emit(kind, len as u64, R_PEND_SCRIPT, 0),
    }
}

impl<S: AsyncRead + Unpin> AsyncRead for Logged<S> {
    fn poll_read(mut self: Pin<&mut Self>, cx: &mut Context<'_>, buf: &mut [u8]) -> Poll<io::Result<usize>> {
        let r = Pin::new(&mut self.0).poll_read(cx, buf);
        log_poll(T_READ, buf.len(), &r, |n| *n as u64);
        r
    }
}

impl<S: AsyncWrite + Unpin> AsyncWrite for Logged<S> {
    fn poll_write(mut self: Pin<&mut Self>, cx: &mut Context<'_>, buf: &[u8]) -> Poll<io::Result<usize>> {
        let r = Pin::new(&mut self.0).poll_write(cx, buf);
        log_poll(T_WRITE, buf.len(), &r, |n| *n as u64);
        r
    }

    fn poll_flush(mut self: Pin<&mut Self>, cx: &mut Context<'_>) -> Poll<io::Result<()>> {
        let r = Pin::new(&mut self.0).poll_flush(cx);
        log_poll(T_FLUSH, 0, &r, |_| 0);
        r
    }

    fn poll_close(mut self: Pin<&mut Self>, cx: &mut Context<'_>) -> Poll<io::Result<()>> {
        let r = Pin::new(&mut self.0).poll_close(cx);
        log_poll(T_CLOSE, 0, &r, |_| 0);
        r
    }
}

// the compio-io face (used under compio_io::compat::AsyncStream)
struct CRead(End);
struct CWrite(End);

impl compio_io::AsyncRead for CRead {
    async fn read<B: IoBufMut>(&mut self, mut buf: B) -> BufResult<usize, B> {
        let cap = buf.buf_capacity();
        let mut tmp = vec![0u8; cap];
        let end = self.0.clone();
        let r = std::future::poll_fn(|cx| end.0.borrow_mut().try_read(cx.waker(), &mut tmp)).await;
        match r {
            Ok(n) => {
                let dst = buf.as_uninit();
                for i in 0..n {
                    dst[i].write(tmp[i]);
                }
                unsafe { buf.advance_to(n) };
                BufResult(Ok(n), buf)
            }
            Err(e) => BufResult(Err(e), buf),
        }
    }
}

impl compio_io::AsyncWrite for CWrite {
    async fn write<T: IoBuf>(&mut self, buf: T) -> BufResult<usize, T> {
        let end = self.0.clone();
        let r = std::future::poll_fn(|cx| end.0.borrow_mut().try_write(cx.waker(), buf.as_init())).await;
        BufResult(r, buf)
    }

    async fn flush(&mut self) -> io::Result<()> {
        let end = self.0.clone();
        std::future::poll_fn(|cx| end.0.borrow_mut().try_flush(cx.waker())).await.map(|_| ())
    }

    async fn shutdown(&mut self) -> io::Result<()> {
        let end = self.0.clone();
        std::future::poll_fn(|cx| end.0.borrow_mut().try_close(cx.waker())).await.map(|_| ())
    }
}

// ---------------------------------------------------------------------------
// certificates (one self-signed localhost certificate per process)

struct Certs {
    cert_pem: String,
    key_pem: String,
    cert_der: Vec<u8>,
}

fn certs() -> &'static Certs {
    static C: OnceLock<Certs> = OnceLock::new();
    C.get_or_init(|| {
        let rcgen::CertifiedKey { cert, signing_key } =
            rcgen::generate_simple_self_signed(vec!["localhost".into()]).unwrap();
        Certs {
            cert_pem: cert.pem(),
            key_pem: signing_key.serialize_pem(),
            cert_der: cert.der().to_vec(),
        }
    })
}

fn native_pair() -> (TlsConnector, TlsAcceptor) {
    use compio_tls::native_tls;
    let c = certs();
    let id = native_tls::Identity::from_pkcs8(c.cert_pem.as_bytes(), c.key_pem.as_bytes()).unwrap();
    let acc = native_tls::TlsAcceptor::builder(id).build().unwrap();
    let con = native_tls::TlsConnector::builder()
        .add_root_certificate(native_tls::Certificate::from_pem(c.cert_pem.as_bytes()).unwrap())
        .build()
        .unwrap();
    (TlsConnector::from(con), TlsAcceptor::from(acc))
}

fn rustls_pair() -> (TlsConnector, TlsAcceptor) {
    use compio_tls::rustls::{
        self,
        pki_types::{CertificateDer, PrivateKeyDer, pem::PemObject},
    };
    let c = certs();
    let cert = CertificateDer::from(c.cert_der.clone());
    let key = PrivateKeyDer::from_pem_slice(c.key_pem.as_bytes()).unwrap();
    let provider = Arc::new(rustls::crypto::ring::default_provider());
    let scfg = rustls::ServerConfig::builder_with_provider(provider.clone())
        .with_safe_default_protocol_versions()
        .unwrap()
        .with_no_client_auth()
        .with_single_cert(vec![cert.clone()], key)
        .unwrap();
    let mut store = rustls::RootCertStore::empty();
    store.add(cert).unwrap();
    let ccfg = rustls::ClientConfig::builder_with_provider(provider)
        .with_safe_default_protocol_versions()
        .unwrap()
        .with_root_certificates(store)
        .with_no_client_auth();
    (TlsConnector::from(Arc::new(ccfg)), TlsAcceptor::from(Arc::new(scfg)))
}

// ---------------------------------------------------------------------------
// tasks

/// Sets the log tag while the task is polled and logs every poll.
struct Tagged<F> {
    side: u64,
    fut: Pin<Box<F>>,
}

impl<F: Future> Future for Tagged<F> {
    type Output = F::Output;

    fn poll(mut self: Pin<&mut Self>, cx: &mut Context<'_>) -> Poll<F::Output> {
        let prev = verif::set_tag(self.side);
        verif::emit(TASK_POLL, 0, 0, 0);
        let r = self.fut.as_mut().poll(cx);
        verif::emit(TASK_POLL, if r.is_ready() { 1 } else { 2 }, 0, 0);
        verif::set_tag(prev);
        r
    }
}

#[derive(Default, Clone)]
struct SideOut {
    done: bool,
    hs_ok: bool,
    data_ok: bool,
    eof_ok: bool,
    close_ok: bool,
    err_step: u64, // 0 = none
    bytes: u64,
}

fn payload(seed: u64, len: usize) -> Vec<u8> {
    (0..len).map(|i| ((seed as usize).wrapping_mul(31) + i * 7 + i / 251) as u8).collect()
}

struct App {
    payload: Vec<u8>,
    wchunks: Vec<usize>,
    lockstep: bool,
    flush_each: bool,
    crbuf: usize,
    srbuf: usize,
}

fn app_begin(step: u64) {
    verif::emit(APP, step, 0, 0);
}

fn app_end<T>(step: u64, r: &io::Result<T>, n: u64) {
    verif::emit(APP, step, if r.is_ok() { 1 } else { 2 }, n);
}

macro_rules! step {
    ($out:expr, $step:expr, $e:expr, $n:expr) => {{
        app_begin($step);
        let r = $e;
        app_end($step, &r, $n(&r));
        match r {
            Ok(v) => v,
            Err(_) => {
                let mut o = $out.borrow_mut();
                o.err_step = $step;
                o.done = true;
                return;
            }
        }
    }};
}

fn zero<T>(_: &io::Result<T>) -> u64 {
    0
}

fn count(r: &io::Result<usize>) -> u64 {
    *r.as_ref().unwrap_or(&0) as u64
}

async fn client<S: AsyncRead + AsyncWrite + Unpin>(
    con: TlsConnector,
    io: S,
    app: Rc<App>,
    out: Rc<RefCell<SideOut>>,
) {
    let mut s = step!(out, STEP_HS, con.connect("localhost", io).await, zero);
    out.borrow_mut().hs_ok = true;
    let p = &app.payload;
    let mut echoed: Vec<u8> = Vec::with_capacity(p.len());
    let mut rbuf = vec![0u8; app.crbuf.max(1)];
    let mut pos = 0;
    let mut ci = 0;
    while pos < p.len() {
        let n = lim(&app.wchunks, &mut ci).min(p.len() - pos);
        step!(out, STEP_WRITE, s.write_all(&p[pos..pos + n]).await.map(|_| n), count);
        pos += n;
        if app.flush_each || app.lockstep {
            step!(out, STEP_FLUSH, s.flush().await, zero);
        }
        if app.lockstep {
            while echoed.len() < pos {
                let want = rbuf.len().min(pos - echoed.len());
                let k = step!(out, STEP_READ, s.read(&mut rbuf[..want]).await, count);
                if k == 0 {
                    let mut o = out.borrow_mut();
                    o.err_step = STEP_READ;
                    o.done = true;
                    return;
                }
                echoed.extend_from_slice(&rbuf[..k]);
            }
        }
    }
    step!(out, STEP_FLUSH, s.flush().await, zero);
    while echoed.len() < p.len() {
        let want = rbuf.len().min(p.len() - echoed.len());
        let k = step!(out, STEP_READ, s.read(&mut rbuf[..want]).await, count);
        if k == 0 {
            break;
        }
        echoed.extend_from_slice(&rbuf[..k]);
    }
    {
        let mut o = out.borrow_mut();
        o.bytes = echoed.len() as u64;
        o.data_ok = echoed == *p;
    }
    step!(out, STEP_CLOSE, s.close().await, zero);
    out.borrow_mut().close_ok = true;
    let k = step!(out, STEP_EOF, s.read(&mut rbuf[..1]).await, count);
    let mut o = out.borrow_mut();
    o.eof_ok = k == 0;
    o.done = true;
}

async fn server<S: AsyncRead + AsyncWrite + Unpin>(
    acc: TlsAcceptor,
    io: S,
    app: Rc<App>,
    out: Rc<RefCell<SideOut>>,
) {
    let mut s = step!(out, STEP_HS, acc.accept(io).await, zero);
    out.borrow_mut().hs_ok = true;
    let mut buf = vec![0u8; app.srbuf.max(1)];
    let mut got: Vec<u8> = Vec::new();
    loop {
        let k = step!(out, STEP_READ, s.read(&mut buf).await, count);
        if k == 0 {
            break;
        }
        got.extend_from_slice(&buf[..k]);
        step!(out, STEP_WRITE, s.write_all(&buf[..k]).await.map(|_| k), count);
        step!(out, STEP_FLUSH, s.flush().await, zero);
    }
    {
        let mut o = out.borrow_mut();
        o.eof_ok = true;
        o.bytes = got.len() as u64;
        o.data_ok = got == app.payload;
    }
    step!(out, STEP_CLOSE, s.close().await, zero);
    let mut o = out.borrow_mut();
    o.close_ok = true;
    o.done = true;
}

// ---------------------------------------------------------------------------
// the watchdog: the main future of the runtime

const IDLE_ROUNDS: u32 = 40;

struct Watchdog {
    watch: Rc<Watch>,
    outs: [Rc<RefCell<SideOut>>; 2],
    last: u64,
    idle: u32,
}

impl Future for Watchdog {
    type Output = u64; // 0 done, 3 stalled, 4 budget

    fn poll(mut self: Pin<&mut Self>, cx: &mut Context<'_>) -> Poll<u64> {
        if self.outs.iter().all(|o| o.borrow().done) {
            return Poll::Ready(0);
        }
        let calls = self.watch.calls.get();
        if calls > self.watch.budget {
            return Poll::Ready(4);
        }
        if calls == self.last {
            self.idle += 1;
            if self.idle > IDLE_ROUNDS {
                return Poll::Ready(3);
            }
        } else {
            self.idle = 0;
            self.last = calls;
        }
        cx.waker().wake_by_ref();
        Poll::Pending
    }
}

// ---------------------------------------------------------------------------
// case decoding

fn dec_cfg(c: &mut Case) -> Result<EndCfg, BadCase> {
    let buffered = c.take()? != 0;
    let cap = c.take()? as usize;
    let nr = c.take()? as usize;
    let rlim = c.take_n(nr)?.iter().map(|&x| x as usize).collect();
    let nw = c.take()? as usize;
    let wlim = c.take_n(nw)?.iter().map(|&x| x as usize).collect();
    let np = c.take()? as usize;
    let pend = c.take_n(np)?.iter().map(|&x| x != 0).collect();
    Ok(EndCfg { buffered, cap, rlim, wlim, pend })
}

fn run_tls(c: &mut Case) -> Result<Vec<u64>, BadCase> {
    let backend = c.take()?;
    let wrap = c.take()?;
    if backend > 1 || wrap > 1 {
        return Err(BadCase);
    }
    let ccfg = dec_cfg(c)?;
    let scfg = dec_cfg(c)?;
    let seed = c.take()?;
    let len = c.take()? as usize;
    if len > 1 << 17 {
        return Err(BadCase);
    }
    let nch = c.take()? as usize;
    let wchunks: Vec<usize> = c.take_n(nch)?.iter().map(|&x| x as usize).collect();
    let lockstep = c.take()? != 0;
    let flush_each = c.take()? != 0;
    let crbuf = c.take()? as usize;
    let srbuf = c.take()? as usize;
    if (ccfg.cap > 0 || scfg.cap > 0) && !lockstep {
        return Err(BadCase); // a bounded pipe needs the lock-step protocol
    }
    let app = Rc::new(App { payload: payload(seed, len), wchunks, lockstep, flush_each, crbuf, srbuf });
    let budget = 40_000 + 200 * len as u64;
    let watch = Rc::new(Watch { calls: Cell::new(0), budget });
    let (cend, send) = duplex(ccfg, scfg, &watch, wrap == 1);
    let (con, acc) = if backend == 0 { native_pair() } else { rustls_pair() };
    let outs = [Rc::new(RefCell::new(SideOut::default())), Rc::new(RefCell::new(SideOut::default()))];

    let rt = compio_runtime::Runtime::new().unwrap();
    verif::start();
    let verdict = rt.block_on(async {
        if wrap == 0 {
            compio_runtime::spawn(Tagged { side: 1, fut: Box::pin(client(con, Logged(cend.clone()), app.clone(), outs[0].clone())) })
                .detach();
            compio_runtime::spawn(Tagged { side: 2, fut: Box::pin(server(acc, Logged(send.clone()), app.clone(), outs[1].clone())) })
                .detach();
        } else {
            use compio_io::compat::AsyncStream;
            let cs = Box::pin(AsyncStream::new((CRead(cend.clone()), CWrite(cend.clone()))));
            let ss = Box::pin(AsyncStream::new((CRead(send.clone()), CWrite(send.clone()))));
            compio_runtime::spawn(Tagged { side: 1, fut: Box::pin(client(con, Logged(cs), app.clone(), outs[0].clone())) }).detach();
            compio_runtime::spawn(Tagged { side: 2, fut: Box::pin(server(acc, Logged(ss), app.clone(), outs[1].clone())) }).detach();
        }
        Watchdog { watch: watch.clone(), outs: outs.clone(), last: 0, idle: 0 }.await
    });
    drop(rt);
    let log = verif::take();

    let mut res = vec![0u64, verdict];
    for (o, e) in outs.iter().zip([&cend, &send]) {
        let o = o.borrow();
        let e = e.0.borrow();
        res.extend([
            o.done as u64,
            o.hs_ok as u64,
            o.data_ok as u64,
            o.eof_ok as u64,
            o.close_ok as u64,
            o.err_step,
            o.bytes,
            e.wait_owing,
            e.stage.len() as u64,
        ]);
    }
    res.push(watch.calls.get());
    push_log(&mut res, &log);
    Ok(res)
}

const LOG_HEAD: usize = 1200;
const LOG_TAIL: usize = 300;

/// `[total; n_head; head events..; n_tail; tail events..]` (5 integers per event;
/// the tail is empty when the whole log fits into the head)
fn push_log(res: &mut Vec<u64>, log: &[verif::Event]) {
    res.push(log.len() as u64);
    let n = log.len().min(LOG_HEAD);
    res.push(n as u64);
    for ev in &log[..n] {
        res.extend([ev.tag, ev.kind as u64, ev.a, ev.b, ev.c]);
    }
    let rest = &log[n..];
    let t = rest.len().min(LOG_TAIL);
    res.push(t as u64);
    for ev in &rest[rest.len() - t..] {
        res.extend([ev.tag, ev.kind as u64, ev.a, ev.b, ev.c]);
    }
}

fn run(case: &[u64]) -> Result<Vec<u64>, BadCase> {
    let mut c = Case::new(case);
    match c.take()? {
        1 => run_tls(&mut c),
        2 => ws::run_ws(&mut c),
        3 => eager::run_eager(&mut c),
        _ => Err(BadCase),
    }
}

fn main() {
    main_loop(run);
}


// ---------------------------------------------------------------------------
// kind 3: a transport that is always ready (the peer runs on another thread and
// the transport waits for it inside poll_read), holding writes back until
// flushed.  The handshake then completes within the first poll.

mod eager {
    use std::{
        io::{Read, Write},
        sync::{Condvar, Mutex},
        time::Duration,
    };

    use super::*;

    #[derive(Default, Debug)]
    struct Chan {
        q: Mutex<(VecDeque<u8>, bool)>,
        cv: Condvar,
    }

    impl Chan {
        fn push(&self, b: &[u8]) {
            self.q.lock().unwrap().0.extend(b.iter().copied());
            self.cv.notify_all();
        }

        fn close(&self) {
            self.q.lock().unwrap().1 = true;
            self.cv.notify_all();
        }

        /// blocks until data, end of stream or the deadline
        fn pop(&self, dst: &mut [u8], wait: Duration) -> io::Result<usize> {
            let mut g = self.q.lock().unwrap();
            let deadline = std::time::Instant::now() + wait;
            while g.0.is_empty() && !g.1 {
                let now = std::time::Instant::now();
                if now >= deadline {
                    return Err(io::Error::from(io::ErrorKind::TimedOut));
                }
                g = self.cv.wait_timeout(g, deadline - now).unwrap().0;
            }
            let n = dst.len().min(g.0.len());
            for d in dst.iter_mut().take(n) {
                *d = g.0.pop_front().unwrap();
            }
            Ok(n)
        }
    }

    /// the peer's blocking stream
    #[derive(Debug)]
    struct Blocking {
        inc: Arc<Chan>,
        out: Arc<Chan>,
    }

    impl Read for Blocking {
        fn read(&mut self, buf: &mut [u8]) -> io::Result<usize> {
            self.inc.pop(buf, Duration::from_secs(20))
        }
    }

    impl Write for Blocking {
        fn write(&mut self, buf: &[u8]) -> io::Result<usize> {
            self.out.push(buf);
            Ok(buf.len())
        }

        fn flush(&mut self) -> io::Result<()> {
            Ok(())
        }
    }

    /// compio-tls' side: never Pending, holds writes back until flushed
    struct Eager {
        inc: Arc<Chan>,
        out: Arc<Chan>,
        stage: Rc<RefCell<Vec<u8>>>,
    }

    impl AsyncRead for Eager {
        fn poll_read(self: Pin<&mut Self>, _: &mut Context<'_>, buf: &mut [u8]) -> Poll<io::Result<usize>> {
            let r = self.inc.pop(buf, Duration::from_secs(20));
            verif::emit(T_READ, buf.len() as u64, if r.is_ok() { R_OK } else { R_ERR }, *r.as_ref().unwrap_or(&0) as u64);
            Poll::Ready(r)
        }
    }

    impl AsyncWrite for Eager {
        fn poll_write(self: Pin<&mut Self>, _: &mut Context<'_>, buf: &[u8]) -> Poll<io::Result<usize>> {
            self.stage.borrow_mut().extend_from_slice(buf);
            verif::emit(T_WRITE, buf.len() as u64, R_OK, buf.len() as u64);
            Poll::Ready(Ok(buf.len()))
        }

        fn poll_flush(self: Pin<&mut Self>, _: &mut Context<'_>) -> Poll<io::Result<()>> {
            let mut st = self.stage.borrow_mut();
            self.out.push(&st);
            st.clear();
            verif::emit(T_FLUSH, 0, R_OK, 0);
            Poll::Ready(Ok(()))
        }

        fn poll_close(self: Pin<&mut Self>, cx: &mut Context<'_>) -> Poll<io::Result<()>> {
            let r = self.as_ref().get_ref().stage.borrow().is_empty();
            let _ = r;
            let p = AsyncWrite::poll_flush(self, cx);
            verif::emit(T_CLOSE, 0, R_OK, 0);
            p
        }
    }

    /// `3 role len`: role 0 = compio-tls is the client.  The application writes
    /// `len` bytes, flushes, closes and never reads.
    /// Result: `0 verdict hs_ok write_ok flush_ok held_after_flush close_ok held_after_close
    ///          peer_hs_ok peer_got peer_data_ok peer_eof log..`
    pub fn run_eager(c: &mut Case) -> Result<Vec<u64>, BadCase> {
        let role = c.take()?;
        let len = c.take()? as usize;
        if role > 1 || len > 4096 {
            return Err(BadCase);
        }
        let data = payload(9, len);
        let a = Arc::new(Chan::default()); // compio side -> peer
        let b = Arc::new(Chan::default()); // peer -> compio side
        let cert = certs();
        let peer_io = Blocking { inc: a.clone(), out: b.clone() };
        let expect = data.clone();
        let peer = std::thread::spawn(move || -> (u64, u64, u64, u64) {
            use compio_tls::native_tls;
            let hs = if role == 0 {
                let id = native_tls::Identity::from_pkcs8(cert.cert_pem.as_bytes(), cert.key_pem.as_bytes()).unwrap();
                native_tls::TlsAcceptor::builder(id).build().unwrap().accept(peer_io).map_err(|_| ())
            } else {
                native_tls::TlsConnector::builder()
                    .add_root_certificate(native_tls::Certificate::from_pem(cert.cert_pem.as_bytes()).unwrap())
                    .build()
                    .unwrap()
                    .connect("localhost", peer_io)
                    .map_err(|e| {
                        if std::env::var("C15_DEBUG").is_ok() {
                            eprintln!("peer connect: {e:?}");
                        }
                    })
            };
            let Ok(mut s) = hs else { return (0, 0, 0, 0) };
            let mut got = Vec::new();
            let mut buf = [0u8; 512];
            let mut eof = 0;
            loop {
                match s.read(&mut buf) {
                    Ok(0) => {
                        eof = 1;
                        break;
                    }
                    Ok(n) => got.extend_from_slice(&buf[..n]),
                    Err(_) => break,
                }
            }
            (1, got.len() as u64, (got == expect) as u64, eof)
        });

        let stage = Rc::new(RefCell::new(Vec::new()));
        let io = Eager { inc: b.clone(), out: a.clone(), stage: stage.clone() };
        let (con, acc) = native_pair();
        let rt = compio_runtime::Runtime::new().unwrap();
        verif::start();
        verif::set_tag(1);
        let st = stage.clone();
        let r: [u64; 6] = rt.block_on(async move {
            let hs = if role == 0 { con.connect("localhost", io).await } else { acc.accept(io).await };
            let Ok(mut s) = hs else { return [0; 6] };
            let w = s.write_all(&data).await.is_ok();
            let f = s.flush().await.is_ok();
            let held_f = st.borrow().len() as u64;
            let cl = s.close().await.is_ok();
            let held_c = st.borrow().len() as u64;
            [1, w as u64, f as u64, held_f, cl as u64, held_c]
        });
        verif::set_tag(0);
        let log = verif::take();
        a.close();
        let p = peer.join().unwrap_or((0, 0, 0, 0));
        let mut res = vec![0u64, 0];
        res.extend(r);
        res.extend([p.0, p.1, p.2, p.3]);
        push_log(&mut res, &log);
        Ok(res)
    }
}

// ---------------------------------------------------------------------------
// kind 2: compio-ws over Unix socket pairs with a fragmenting, delaying relay

mod ws {
    use std::time::{Duration, Instant};

    use compio_runtime::fd::PollFd;
    use compio_ws::{WebSocketStream, tungstenite::Message};
    use socket2::{Domain, Socket, Type};

    use super::*;

    struct Relay {
        rlim: Vec<usize>,
        delays: Vec<usize>,
    }

    struct Yield(usize);

    impl Future for Yield {
        type Output = ();

        fn poll(mut self: Pin<&mut Self>, cx: &mut Context<'_>) -> Poll<()> {
            if self.0 == 0 {
                return Poll::Ready(());
            }
            self.0 -= 1;
            cx.waker().wake_by_ref();
            Poll::Pending
        }
    }

    async fn pump(
        from: Rc<PollFd<Socket>>,
        to: Rc<PollFd<Socket>>,
        cfg: Relay,
        moved: Rc<Cell<u64>>,
        hold: Rc<Cell<bool>>,
    ) {
        let mut buf = vec![0u8; 1 << 16];
        let (mut ri, mut di) = (0, 0);
        loop {
            // while held the relay does not read: the sender's socket fills up
            while hold.get() {
                compio_runtime::time::sleep(Duration::from_millis(1)).await;
            }
            let want = lim(&cfg.rlim, &mut ri).min(buf.len());
            let n = match (&*from).read(&mut buf[..want]).await {
                Ok(0) | Err(_) => break,
                Ok(n) => n,
            };
            if !cfg.delays.is_empty() {
                Yield(cfg.delays[di % cfg.delays.len()]).await;
                di += 1;
            }
            if (&*to).write_all(&buf[..n]).await.is_err() {
                break;
            }
            moved.set(moved.get() + n as u64);
        }
        let _ = (&*to).close().await;
    }

    fn dec_relay(c: &mut Case) -> Result<Relay, BadCase> {
        let nr = c.take()? as usize;
        let rlim = c.take_n(nr)?.iter().map(|&x| x as usize).collect();
        let nd = c.take()? as usize;
        let delays = c.take_n(nd)?.iter().map(|&x| (x as usize).min(50)).collect();
        Ok(Relay { rlim, delays })
    }

    fn pair(sndbuf: usize) -> (PollFd<Socket>, PollFd<Socket>) {
        let (a, b) = Socket::pair(Domain::UNIX, Type::STREAM, None).unwrap();
        for s in [&a, &b] {
            s.set_nonblocking(true).unwrap();
            if sndbuf > 0 {
                let _ = s.set_send_buffer_size(sndbuf);
                let _ = s.set_recv_buffer_size(sndbuf);
            }
        }
        (PollFd::new(a).unwrap(), PollFd::new(b).unwrap())
    }

    fn mk_msg(kind: u64, len: usize, seed: u64) -> Message {
        let bytes = payload(seed, len);
        match kind {
            0 => Message::Text(bytes.iter().map(|b| (b'a' + b % 26) as char).collect::<String>().into()),
            1 => Message::Binary(bytes.into()),
            _ => Message::Ping(bytes[..len.min(125)].to_vec().into()),
        }
    }

    #[derive(Default)]
    struct WsOut {
        done: bool,
        hs_ok: bool,
        n_ok: u64,      // replies that matched (client) / messages echoed (server)
        close_ok: bool, // the closing handshake was seen to the end
        err_step: u64,
        steps: u64,
    }

    type Ws = WebSocketStream<Socket>;

    const BIG: usize = 400_000;

    fn big_msg(seed: u64) -> Message {
        Message::Binary(payload(seed, BIG).into())
    }

    /// mode 3: the outgoing direction is stalled (the relay does not read) with a
    /// large message fed but not flushed; the peer's messages must still all be
    /// delivered, in order, once, after the flush can complete.
    async fn ws_client_stalled(
        mut ws: Ws,
        msgs: Vec<Message>,
        seed: u64,
        out: Rc<RefCell<WsOut>>,
        hold: Rc<Cell<bool>>,
        pend: Rc<Cell<u64>>,
    ) {
        use futures_util::{SinkExt, Stream};
        macro_rules! bail {
            ($step:expr) => {{
                let mut o = out.borrow_mut();
                o.err_step = $step;
                o.done = true;
                hold.set(false);
                return;
            }};
        }
        hold.set(true);
        if SinkExt::feed(&mut ws, big_msg(seed)).await.is_err() {
            bail!(2);
        }
        out.borrow_mut().steps += 1;
        for want in &msgs {
            let r = std::future::poll_fn(|cx| {
                let r = Pin::new(&mut ws).poll_next(cx);
                if r.is_pending() {
                    pend.set(pend.get() + 1);
                }
                r
            })
            .await;
            match r {
                Some(Ok(m)) if m == *want => {
                    let mut o = out.borrow_mut();
                    o.n_ok += 1;
                    o.steps += 1;
                }
                _ => bail!(4),
            }
        }
        if ws.flush().await.is_err() {
            bail!(3);
        }
        if ws.close(None).await.is_err() {
            bail!(5);
        }
        out.borrow_mut().steps += 1;
        loop {
            match ws.read().await {
                Ok(Message::Close(_)) => break,
                Ok(_) => {}
                Err(_) => bail!(6),
            }
        }
        match ws.read().await {
            Err(compio_ws::tungstenite::Error::ConnectionClosed) => {}
            _ => bail!(7),
        }
        let mut o = out.borrow_mut();
        o.close_ok = true;
        o.done = true;
    }

    async fn ws_server_stalled(mut ws: Ws, msgs: Vec<Message>, seed: u64, out: Rc<RefCell<WsOut>>) {
        for m in msgs {
            if ws.send(m).await.is_err() {
                let mut o = out.borrow_mut();
                o.err_step = 2;
                o.done = true;
                return;
            }
            out.borrow_mut().steps += 1;
        }
        loop {
            match ws.read().await {
                Ok(m @ Message::Binary(_)) => {
                    let mut o = out.borrow_mut();
                    o.n_ok += (m == big_msg(seed)) as u64;
                    o.steps += 1;
                }
                Ok(_) => {
                    out.borrow_mut().steps += 1;
                }
                Err(compio_ws::tungstenite::Error::ConnectionClosed) => {
                    let _ = futures_util::AsyncWriteExt::close(ws.get_mut()).await;
                    let mut o = out.borrow_mut();
                    o.close_ok = true;
                    o.done = true;
                    return;
                }
                Err(_) => {
                    let mut o = out.borrow_mut();
                    o.err_step = 4;
                    o.done = true;
                    return;
                }
            }
        }
    }

    async fn ws_client(mut ws: Ws, msgs: Vec<Message>, mode: u64, out: Rc<RefCell<WsOut>>, gate: Rc<Cell<u64>>) {
        let expect = |m: &Message| match m {
            Message::Ping(p) => Message::Pong(p.clone()),
            other => other.clone(),
        };
        macro_rules! bail {
            ($step:expr) => {{
                let mut o = out.borrow_mut();
                o.err_step = $step;
                o.done = true;
                return;
            }};
        }
        let mut pending: VecDeque<Message> = VecDeque::new();
        for m in &msgs {
            if ws.send(m.clone()).await.is_err() {
                bail!(2);
            }
            out.borrow_mut().steps += 1;
            pending.push_back(expect(m));
            if mode != 1 {
                let want = pending.pop_front().unwrap();
                match ws.read().await {
                    Ok(r) if r == want => {
                        let mut o = out.borrow_mut();
                        o.n_ok += 1;
                        o.steps += 1;
                    }
                    _ => bail!(4),
                }
                gate.set(gate.get() + 1);
            }
        }
        while let Some(want) = pending.pop_front() {
            match ws.read().await {
                Ok(r) if r == want => {
                    let mut o = out.borrow_mut();
                    o.n_ok += 1;
                    o.steps += 1;
                }
                _ => bail!(4),
            }
        }
        if ws.close(None).await.is_err() {
            bail!(5);
        }
        out.borrow_mut().steps += 1;
        // the peer's Close reply, then the end of the stream
        match ws.read().await {
            Ok(Message::Close(_)) => {}
            _ => bail!(6),
        }
        match ws.read().await {
            Err(compio_ws::tungstenite::Error::ConnectionClosed) => {}
            _ => bail!(7),
        }
        let mut o = out.borrow_mut();
        o.close_ok = true;
        o.done = true;
    }

    async fn ws_server(mut ws: Ws, mode: u64, out: Rc<RefCell<WsOut>>, gate: Rc<Cell<u64>>) {
        let mut seen = 0u64;
        loop {
            match ws.read().await {
                Ok(m @ (Message::Text(_) | Message::Binary(_))) => {
                    if ws.send(m).await.is_err() {
                        let mut o = out.borrow_mut();
                        o.err_step = 2;
                        o.done = true;
                        return;
                    }
                    let mut o = out.borrow_mut();
                    o.n_ok += 1;
                    o.steps += 1;
                }
                Ok(Message::Ping(_)) => {
                    // the Pong was queued by the protocol engine; this side does
                    // nothing more for it
                    out.borrow_mut().steps += 1;
                    if mode == 2 {
                        // ... and does not touch the stream at all until the
                        // client has received the Pong
                        seen += 1;
                        let g = gate.clone();
                        let want = seen;
                        let t0 = Instant::now();
                        std::future::poll_fn(|cx| {
                            if g.get() >= want || t0.elapsed() > Duration::from_secs(5) {
                                Poll::Ready(())
                            } else {
                                cx.waker().wake_by_ref();
                                Poll::Pending
                            }
                        })
                        .await;
                    }
                }
                Ok(Message::Close(_)) => {
                    out.borrow_mut().steps += 1;
                }
                Ok(_) => {}
                Err(compio_ws::tungstenite::Error::ConnectionClosed) => {
                    // the closing handshake is over: close the (TLS) stream below
                    let _ = futures_util::AsyncWriteExt::close(ws.get_mut()).await;
                    let mut o = out.borrow_mut();
                    o.close_ok = true;
                    o.done = true;
                    return;
                }
                Err(_) => {
                    let mut o = out.borrow_mut();
                    o.err_step = 4;
                    o.done = true;
                    return;
                }
            }
            if mode == 2 {
                seen = seen.max(gate.get());
            }
        }
    }

    /// `2 tls r_c2s r_s2c sndbuf mode nmsg (kind len)* seed`
    /// mode 3: the messages are the SERVER's; the client has a 400000-byte message
    /// fed but unflushed while the relay does not read its direction.
    /// Result: `0 verdict (done hs_ok n_ok close_ok err_step)x2 moved_c2s moved_s2c nmsg pend_at_release`
    pub fn run_ws(c: &mut Case) -> Result<Vec<u64>, BadCase> {
        let tls = c.take()?;
        let r1 = dec_relay(c)?;
        let r2 = dec_relay(c)?;
        let sndbuf = c.take()? as usize;
        let mode = c.take()?;
        let nmsg = c.take()? as usize;
        if tls > 2 || mode > 3 || nmsg > 64 {
            return Err(BadCase);
        }
        let mut spec = Vec::new();
        for _ in 0..nmsg {
            let k = c.take()?;
            let l = c.take()? as usize;
            if k > 2 || l > 1 << 17 {
                return Err(BadCase);
            }
            spec.push((k, l));
        }
        let seed = c.take()?;
        let msgs: Vec<Message> = spec.iter().enumerate().map(|(i, &(k, l))| mk_msg(k, l, seed + i as u64)).collect();
        let outs = [Rc::new(RefCell::new(WsOut::default())), Rc::new(RefCell::new(WsOut::default()))];
        let moved = [Rc::new(Cell::new(0u64)), Rc::new(Cell::new(0u64))];
        let gate = Rc::new(Cell::new(0u64));
        let hold = Rc::new(Cell::new(false));
        let pend = Rc::new(Cell::new(0u64));
        let pend_at_release = Rc::new(Cell::new(0u64));

        let rt = compio_runtime::Runtime::new().unwrap();
        let verdict = rt.block_on(async {
            let (cs, ra) = pair(sndbuf);
            let (rb, ss) = pair(sndbuf);
            let (ra, rb) = (Rc::new(ra), Rc::new(rb));
            compio_runtime::spawn(pump(ra.clone(), rb.clone(), r1, moved[0].clone(), hold.clone())).detach();
            compio_runtime::spawn(pump(rb, ra, r2, moved[1].clone(), Rc::new(Cell::new(false)))).detach();
            let (h0, p0) = (hold.clone(), pend.clone());
            let smsgs = msgs.clone();
            let (o0, o1) = (outs[0].clone(), outs[1].clone());
            let (g0, g1) = (gate.clone(), gate.clone());
            let pairs = match tls {
                1 => Some(native_pair()),
                2 => Some(rustls_pair()),
                _ => None,
            };
            let (con, acc) = match pairs {
                Some((a, b)) => (Some(a), Some(b)),
                None => (None, None),
            };
            compio_runtime::spawn(async move {
                let r = match con {
                    None => compio_ws::client_async("ws://localhost/", cs).await,
                    Some(con) => match con.connect("localhost", cs).await {
                        Ok(t) => compio_ws::client_async("ws://localhost/", t).await,
                        Err(_) => {
                            let mut o = o0.borrow_mut();
                            o.err_step = 1;
                            o.done = true;
                            return;
                        }
                    },
                };
                match r {
                    Ok((ws, _)) => {
                        o0.borrow_mut().hs_ok = true;
                        if mode == 3 {
                            ws_client_stalled(ws, msgs, seed, o0, h0, p0).await
                        } else {
                            ws_client(ws, msgs, mode, o0, g0).await
                        }
                    }
                    Err(_) => {
                        let mut o = o0.borrow_mut();
                        o.err_step = 1;
                        o.done = true;
                    }
                }
            })
            .detach();
            compio_runtime::spawn(async move {
                let r = match acc {
                    None => compio_ws::accept_async(ss).await,
                    Some(acc) => match acc.accept(ss).await {
                        Ok(t) => compio_ws::accept_async(t).await,
                        Err(_) => {
                            let mut o = o1.borrow_mut();
                            o.err_step = 1;
                            o.done = true;
                            return;
                        }
                    },
                };
                match r {
                    Ok(ws) => {
                        o1.borrow_mut().hs_ok = true;
                        if mode == 3 {
                            ws_server_stalled(ws, smsgs, seed, o1).await
                        } else {
                            ws_server(ws, mode, o1, g1).await
                        }
                    }
                    Err(_) => {
                        let mut o = o1.borrow_mut();
                        o.err_step = 1;
                        o.done = true;
                    }
                }
            })
            .detach();
            // watchdog: progress = relayed bytes + application steps
            let mut last = (0u64, Instant::now());
            let t0 = Instant::now();
            let mut held_since: Option<Instant> = None;
            let mut pending_since: Option<Instant> = None;
            std::future::poll_fn(|cx| {
                if outs.iter().all(|o| o.borrow().done) {
                    return Poll::Ready(0u64);
                }
                if hold.get() {
                    // release the stalled direction a little after the reader has
                    // been seen Pending (or after 400 ms if it never is)
                    let hs = *held_since.get_or_insert_with(Instant::now);
                    if pend.get() >= 1 && pending_since.is_none() {
                        pending_since = Some(Instant::now());
                    }
                    let go = pending_since.is_some_and(|t| t.elapsed() > Duration::from_millis(15))
                        || hs.elapsed() > Duration::from_millis(400);
                    if go {
                        pend_at_release.set(pend.get());
                        hold.set(false);
                    }
                    last.1 = Instant::now(); // a deliberate pause, not a stall
                }
                let p = moved[0].get() + moved[1].get() + outs[0].borrow().steps + outs[1].borrow().steps;
                if p != last.0 {
                    last = (p, Instant::now());
                } else if last.1.elapsed() > Duration::from_millis(8000) {
                    return Poll::Ready(3);
                }
                if t0.elapsed() > Duration::from_secs(300) {
                    return Poll::Ready(4);
                }
                cx.waker().wake_by_ref();
                Poll::Pending
            })
            .await
        });
        drop(rt);
        let mut res = vec![0u64, verdict];
        for o in &outs {
            let o = o.borrow();
            res.extend([o.done as u64, o.hs_ok as u64, o.n_ok, o.close_ok as u64, o.err_step]);
        }
        res.extend([moved[0].get(), moved[1].get(), nmsg as u64, pend_at_release.get()]);
        Ok(res)
    }
}
