//! C18 harness: the real compio_dispatcher::Dispatcher under instrumented closures.
//!
//! case: [locked; workers(1..4); concurrent(0/1); broken_driver(0/1); join_mode; D;
//!        (n; (kind arg)*)*  for each of the D dispatching threads]
//!   locked 1: the dispatching threads serialise their dispatch calls (and log them in
//!             channel order) -> the log is replayed through the model (RunC18.v);
//!          0: they dispatch freely at the same time -> judged by the oracle only
//!   closure kinds: 0 returns at once, 1 yields arg times, 2 sleeps arg ms, 3 panics,
//!                  4 a UDP round trip on the worker's runtime, 5 sleeps 40 ms (to be cancelled),
//!                  6 panics synchronously, before it has returned its future,
//!                  7 blocks the worker thread for arg ms (std::thread::sleep, no timer); the dispatching
//!                    thread waits until it has started, so that what it dispatches next piles up in the
//!                    channel and is picked up by the worker in one poll of its loop (bursts of > 61)
//!   join_mode 0: join as soon as the dispatching threads are done; 1: first wait for every
//!             receiver; 2: sleep 3 ms first
//!   broken_driver: the workers' proactor cannot poll -> a worker panics when it goes idle
//!             (receivers are then not awaited before join: queued closures stay queued until join)
//! out: [n_events; (kind a b)*; n_closures; (outcome starts workers_seen)*; join; W gauges]
//!   events: 1 id ok(0/1) dispatch returned; 2 id worker: first poll; 3 id ok: end (0 = panics);
//!           4 join called; 5 p: join returned (1 = panic re-raised)
//!   outcome: 0 closure handed back (dispatch failed), 1 own result, 2 Canceled, 3 nothing within
//!            the watchdog, 4 somebody else's result
//!   join: 1 Ok, 2 panic re-raised, 3 Err, 4 did not return
use std::{
    cell::Cell,
    num::NonZeroUsize,
    sync::{
        Arc, Barrier, Mutex,
        atomic::{AtomicI64, AtomicU64, Ordering},
    },
    time::Duration,
};

use compio_dispatcher::Dispatcher;
use compio_driver::ProactorBuilder;
use futures_channel::oneshot;
use verif_harness::*;

const WATCHDOG: Duration = Duration::from_millis(3000);

struct World {
    log: Mutex<Vec<[u64; 3]>>,
    starts: Vec<AtomicU64>,
    seen: Vec<Mutex<Vec<u64>>>,
    gauge: Vec<AtomicI64>,
    gauge_max: Vec<AtomicI64>,
}

impl World {
    fn ev(&self, k: u64, a: u64, b: u64) {
        self.log.lock().unwrap().push([k, a, b]);
    }
}

fn worker_index() -> u64 {
    std::thread::current()
        .name()
        .and_then(|n| n.strip_prefix("vw").and_then(|s| s.parse::<u64>().ok()))
        .unwrap_or(99)
}

struct Running {
    world: Arc<World>,
    w: u64,
}
impl Drop for Running {
    fn drop(&mut self) {
        if let Some(g) = self.world.gauge.get(self.w as usize) {
            g.fetch_sub(1, Ordering::SeqCst);
        }
    }
}

async fn yield_now() {
    let mut yielded = false;
    std::future::poll_fn(|cx| {
        if yielded {
            std::task::Poll::Ready(())
        } else {
            yielded = true;
            cx.waker().wake_by_ref();
            std::task::Poll::Pending
        }
    })
    .await
}

thread_local! { static DEPTH: Cell<u32> = const { Cell::new(0) }; }

async fn body(world: Arc<World>, h: u64, kind: u64, arg: u64) -> u64 {
    let w = worker_index();
    world.starts[h as usize].fetch_add(1, Ordering::SeqCst);
    world.seen[h as usize].lock().unwrap().push(w);
    let _running = Running { world: world.clone(), w };
    if let Some(g) = world.gauge.get(w as usize) {
        let now = g.fetch_add(1, Ordering::SeqCst) + 1;
        world.gauge_max[w as usize].fetch_max(now, Ordering::SeqCst);
    }
    world.ev(2, h, w);
    let note = |world: &World| {
        let w2 = worker_index();
        let mut s = world.seen[h as usize].lock().unwrap();
        if !s.contains(&w2) {
            s.push(w2);
        }
    };
    match kind {
        1 => {
            for _ in 0..arg {
                yield_now().await;
                note(&world);
            }
        }
        2 => {
            compio_runtime::time::sleep(Duration::from_millis(arg)).await;
            note(&world);
        }
        3 => {
            world.ev(3, h, 0);
            panic!("scripted task panic");
        }
        4 => {
            let a = compio_net::UdpSocket::bind("127.0.0.1:0").await;
            if let Ok(a) = a {
                if let Ok(addr) = a.local_addr() {
                    let _ = a.send_to(vec![h as u8; 4], addr).await;
                    let buf = Vec::with_capacity(16);
                    let _ = a.recv_from(buf).await;
                }
            }
            note(&world);
        }
        5 => {
            compio_runtime::time::sleep(Duration::from_millis(40)).await;
            note(&world);
        }
        7 => std::thread::sleep(Duration::from_millis(arg)),
        _ => {}
    }
    world.ev(3, h, 1);
    h
}

fn run(case: &[u64]) -> Result<Vec<u64>, BadCase> {
    let mut c = Case::new(case);
    let locked = c.take()? != 0;
    let workers = c.take()?;
    let concurrent = c.take()? != 0;
    let broken = c.take()? != 0;
    let join_mode = c.take()?;
    let d = c.take()? as usize;
    if !(1..=4).contains(&workers) || d == 0 || d > 4 || join_mode > 2 {
        return Err(BadCase);
    }
    let mut progs: Vec<Vec<(u64, u64, u64)>> = Vec::new();
    let mut total = 0u64;
    for _ in 0..d {
        let n = c.take()? as usize;
        let mut p = Vec::new();
        for _ in 0..n {
            let o = c.take_n(2)?;
            if o[0] > 7 || o[1] > 200 {
                return Err(BadCase);
            }
            p.push((total, o[0], o[1]));
            total += 1;
        }
        progs.push(p);
    }
    if c.i != c.v.len() || total > 260 {
        return Err(BadCase);
    }
    let world = Arc::new(World {
        log: Mutex::new(Vec::new()),
        starts: (0..total).map(|_| AtomicU64::new(0)).collect(),
        seen: (0..total).map(|_| Mutex::new(Vec::new())).collect(),
        gauge: (0..workers).map(|_| AtomicI64::new(0)).collect(),
        gauge_max: (0..workers).map(|_| AtomicI64::new(0)).collect(),
    });
    let mut builder = Dispatcher::builder()
        .worker_threads(NonZeroUsize::new(workers as usize).unwrap())
        .concurrent(concurrent)
        .thread_names(|i| format!("vw{i}"));
    if broken {
        let mut pb = ProactorBuilder::new();
        pb.capacity(1 << 30);
        builder = builder.proactor_builder(pb);
    }
    let disp = Arc::new(builder.build().expect("dispatcher"));
    let rt = compio_runtime::Runtime::new().expect("runtime");
    let (outcomes, join_res) = rt.block_on(async {
        let barrier = Arc::new(Barrier::new(d));
        let mut ths = Vec::new();
        for prog in progs {
            let (world, disp, barrier) = (world.clone(), disp.clone(), barrier.clone());
            ths.push(std::thread::spawn(move || {
                let mut rxs: Vec<(u64, Option<oneshot::Receiver<u64>>)> = Vec::new();
                barrier.wait();
                for (h, kind, arg) in prog {
                    let w2 = world.clone();
                    let f = move || {
                        if kind == 6 {
                            // the closure itself panics, before any future exists
                            let w = worker_index();
                            w2.starts[h as usize].fetch_add(1, Ordering::SeqCst);
                            w2.seen[h as usize].lock().unwrap().push(w);
                            w2.ev(2, h, w);
                            w2.ev(3, h, 0);
                            panic!("scripted synchronous closure panic");
                        }
                        body(w2, h, kind, arg)
                    };
                    if locked {
                        let mut g = world.log.lock().unwrap();
                        let r = disp.dispatch(f);
                        g.push([1, h, r.is_ok() as u64]);
                        drop(g);
                        rxs.push((h, r.ok()));
                    } else {
                        let r = disp.dispatch(f);
                        world.ev(1, h, r.is_ok() as u64);
                        rxs.push((h, r.ok()));
                    }
                    if kind == 7 && rxs.last().map(|x| x.1.is_some()).unwrap_or(false) {
                        // wait until the worker is inside the blocking closure
                        let t0 = std::time::Instant::now();
                        while world.starts[h as usize].load(Ordering::SeqCst) == 0 && t0.elapsed() < WATCHDOG {
                            std::thread::sleep(Duration::from_micros(100));
                        }
                    }
                }
                rxs
            }));
        }
        let mut rxs: Vec<(u64, Option<oneshot::Receiver<u64>>)> = Vec::new();
        for th in ths {
            while !th.is_finished() {
                compio_runtime::time::sleep(Duration::from_micros(200)).await;
            }
            rxs.extend(th.join().expect("dispatching thread"));
        }
        rxs.sort_by_key(|x| x.0);
        let mut outcomes = vec![0u64; total as usize];
        let collect = |h: u64, r: Result<Result<u64, oneshot::Canceled>, compio_runtime::time::Elapsed>| match r {
            Err(_) => 3,
            Ok(Err(_)) => 2,
            Ok(Ok(v)) => {
                if v == h {
                    1
                } else {
                    4
                }
            }
        };
        if join_mode == 1 && !broken {
            // nothing but the workers themselves makes progress here: no later dispatch, no join yet.
            // One deadline for all receivers (a stranded closure shows as outcome 3).
            let deadline = std::time::Instant::now() + WATCHDOG + WATCHDOG;
            for (h, rx) in rxs.iter_mut() {
                if let Some(rx) = rx.take() {
                    let left = deadline.saturating_duration_since(std::time::Instant::now()).max(Duration::from_millis(20));
                    outcomes[*h as usize] = collect(*h, compio_runtime::time::timeout(left, rx).await);
                }
            }
        } else if join_mode == 2 {
            compio_runtime::time::sleep(Duration::from_millis(3)).await;
        }
        let disp = match Arc::try_unwrap(disp) {
            Ok(d) => d,
            Err(_) => panic!("dispatcher still shared"),
        };
        world.ev(4, 0, 0);
        let joined = std::panic::AssertUnwindSafe(compio_runtime::time::timeout(WATCHDOG, disp.join()));
        let jr = futures_util::FutureExt::catch_unwind(joined).await;
        let join_res = match jr {
            Err(_) => {
                world.ev(5, 1, 0);
                2
            }
            Ok(Err(_)) => 4,
            Ok(Ok(Ok(()))) => {
                world.ev(5, 0, 0);
                1
            }
            Ok(Ok(Err(_))) => 3,
        };
        for (h, rx) in rxs.iter_mut() {
            if let Some(rx) = rx.take() {
                outcomes[*h as usize] =
                    collect(*h, compio_runtime::time::timeout(Duration::from_millis(500), rx).await);
            }
        }
        (outcomes, join_res)
    });
    let log = world.log.lock().unwrap().clone();
    let mut out = vec![log.len() as u64];
    for e in log {
        out.extend(e);
    }
    out.push(total);
    for h in 0..total as usize {
        out.push(outcomes[h]);
        out.push(world.starts[h].load(Ordering::SeqCst));
        out.push(world.seen[h].lock().unwrap().len() as u64);
    }
    out.push(join_res);
    for w in 0..workers as usize {
        out.push(world.gauge_max[w].load(Ordering::SeqCst) as u64);
    }
    Ok(out)
}

fn main() {
    main_loop(run);
}
