"""Case generator for C08 (file and pipe I/O matches the OS on every driver).
Case format: see coq/model/RunC08.v.  A case is an operation sequence over 4
file slots, 2 pipes and a name space of 6 names (depth <= 3) in a fresh
directory."""
import random

NSLOTS, NPIPES, NNAMES = 4, 2, 6

OPNAME = {
    1: "open", 2: "close", 3: "read_at", 4: "write_at", 5: "read_vectored_at",
    6: "write_vectored_at", 7: "set_len", 8: "sync", 9: "file_metadata", 10: "metadata",
    11: "create_dir", 12: "create_dir_all", 13: "remove_file", 14: "remove_dir",
    15: "rename", 16: "hard_link", 17: "symlink", 18: "set_permissions",
    19: "seq_read", 20: "seq_write", 21: "seq_read_vectored", 22: "seq_write_vectored",
    23: "pipe", 24: "pipe_write", 25: "pipe_read", 26: "pipe_read_vectored",
    27: "pipe_write_vectored", 28: "pipe_close_sender", 29: "pipe_close_receiver",
    30: "read_at_4GiB_capacity", 31: "fs_write", 32: "fs_read", 33: "open_mode_custom",
}
CATEGORY = {}
for _t in (1, 2, 3, 4, 7, 8, 9, 31, 32):
    CATEGORY[_t] = "file"
for _t in (5, 6):
    CATEGORY[_t] = "vectored"
for _t in (10, 11, 12, 13, 14, 15, 16, 17, 18):
    CATEGORY[_t] = "dir"
for _t in (19, 20):
    CATEGORY[_t] = "seq"
for _t in (21, 22):
    CATEGORY[_t] = "seqvec"
for _t in (23, 24, 25, 28, 29):
    CATEGORY[_t] = "pipe"
for _t in (26, 27):
    CATEGORY[_t] = "pipevec"
CATEGORY[30] = "bigcap"
CATEGORY[33] = "openopts"


# ---------------------------------------------------------------------------
# decoding (used by describe / the oracle)

class Cur:
    def __init__(self, v):
        self.v, self.i = v, 0

    def take(self):
        x = self.v[self.i]
        self.i += 1
        return x

    def take_n(self, n):
        if self.i + n > len(self.v):
            raise IndexError
        s = self.v[self.i:self.i + n]
        self.i += n
        return s

    def path(self):
        return self.take_n(self.take())

    def rbuf(self):
        return self.take_n(5)

    def wbuf(self):
        h = self.take_n(4)
        return h + [self.take_n(self.take())]

    def rvec(self):
        return [self.take_n(2) for _ in range(self.take())]

    def wvec(self):
        out = []
        for _ in range(self.take()):
            e = self.take()
            out.append((e, self.take_n(self.take())))
        return out


def decode_ops(case):
    """-> list of (tag, dict) or raises IndexError/KeyError on a malformed case"""
    c = Cur(case)
    n = c.take()
    ops = []
    for _ in range(n):
        t = c.take()
        d = {}
        if t == 1:
            d = dict(slot=c.take(), path=c.path(), bits=c.take(), seq=c.take())
        elif t in (2, 9):
            d = dict(slot=c.take())
        elif t == 3:
            d = dict(slot=c.take(), off=c.take(), rb=c.rbuf())
        elif t == 4:
            d = dict(slot=c.take(), off=c.take(), wb=c.wbuf())
        elif t == 5:
            d = dict(slot=c.take(), off=c.take(), rv=c.rvec())
        elif t == 6:
            d = dict(slot=c.take(), off=c.take(), wv=c.wvec())
        elif t in (7, 8):
            d = dict(slot=c.take(), arg=c.take())
        elif t in (10, 18):
            d = dict(path=c.path(), arg=c.take())
        elif t in (11, 12, 13, 14, 32):
            d = dict(path=c.path())
        elif t in (15, 16, 17):
            d = dict(a=c.path(), b=c.path())
        elif t == 19:
            d = dict(slot=c.take(), rb=c.rbuf())
        elif t == 20:
            d = dict(slot=c.take(), wb=c.wbuf())
        elif t == 21:
            d = dict(slot=c.take(), rv=c.rvec())
        elif t == 22:
            d = dict(slot=c.take(), wv=c.wvec())
        elif t in (23, 28, 29):
            d = dict(p=c.take())
        elif t == 24:
            d = dict(p=c.take(), wb=c.wbuf())
        elif t == 25:
            d = dict(p=c.take(), rb=c.rbuf())
        elif t == 26:
            d = dict(p=c.take(), rv=c.rvec())
        elif t == 27:
            d = dict(p=c.take(), wv=c.wvec())
        elif t == 30:
            d = dict(slot=c.take(), off=c.take(), k=c.take())
        elif t == 31:
            d = dict(path=c.path(), data=c.take_n(c.take()))
        elif t == 33:
            d = dict(slot=c.take(), path=c.path(), bits=c.take(), mode=c.take(), custom=c.take())
        else:
            raise KeyError(t)
        ops.append((t, d))
    if c.i != len(case):
        raise IndexError
    return ops


def describe(case):
    try:
        ops = decode_ops(case)
    except (IndexError, KeyError):
        return "malformed"
    cats = sorted({CATEGORY[t] for t, _ in ops})
    return "+".join(cats) if cats else "empty"


def nontrivial(case, out):
    if out[:1] in ([99999], [2]) or len(out) < 8:
        return False
    try:
        ops = decode_ops(case)
    except (IndexError, KeyError):
        return False
    # some operation touched data or the tree: more than open/close
    return any(t not in (1, 2) for t, _ in ops) and len(ops) >= 2


# ---------------------------------------------------------------------------
# generation

def enc_path(p):
    return [len(p)] + list(p)


class Gen:
    def __init__(self, rng, adversarial):
        self.r = rng
        self.adv = adversarial
        self.out = []
        self.n = 0
        self.files = set()       # paths believed to be regular files
        self.dirs = set()        # paths believed to be directories
        self.links = set()
        self.slots = {}          # slot -> "pos" | "seq"
        self.pipes = {}          # p -> [inflight, tx_open, rx_open]

    # -- pieces ---------------------------------------------------------
    def name(self):
        return self.r.randrange(NNAMES)

    def any_path(self):
        r = self.r
        x = r.random()
        if x < 0.55 or not self.dirs:
            return (self.name(),)
        d = r.choice(sorted(self.dirs))
        if len(d) >= 3:
            return d
        if x < 0.9:
            return d + (self.name(),)
        return (d + (self.name(), self.name()))[:3]

    def some(self, s):
        if s and self.r.random() < 0.8:
            return self.r.choice(sorted(s))
        return self.any_path()

    def rbuf(self):
        r = self.r
        cap = r.choice([0, 1, 2, 3, 5, 8, 8, 12, 16, 24])
        ln = r.choice([0, 0, cap, r.randint(0, cap)])
        shape = r.choice([0, 0, 0, 0, 1, 2, 3, 3])
        a = r.randint(0, ln)
        b = r.randint(a, cap + 3)
        return [shape, ln, cap, a, b]

    def data(self, maxn=20):
        r = self.r
        n = r.choice([0, 1, 2, 3, 5, 8, 13, r.randint(0, maxn)])
        base = r.randrange(1, 120)
        return [(base + i) % 127 + 1 for i in range(n)]

    def wbuf(self):
        r = self.r
        d = self.data()
        shape = r.choice([0, 0, 0, 0, 1, 2, 3])
        a = r.randint(0, len(d))
        b = r.randint(a, len(d) + 3)
        extra = r.choice([0, 0, 2, 7])
        return [shape, extra, a, b, len(d)] + d

    def rvec(self):
        r = self.r
        nm = r.choice([0, 1, 2, 2, 3, 4])
        style = r.random()
        out = [nm]
        for i in range(nm):
            cap = r.choice([0, 1, 3, 4, 8, 10])
            if style < 0.6:
                ln = 0                       # fresh members (Vec::with_capacity)
            elif style < 0.8:
                ln = cap if i == 0 else 0    # sequential-fill order
            else:
                ln = r.randint(0, cap)       # arbitrary lengths
            out += [ln, cap]
        return out

    def wvec(self):
        r = self.r
        nm = r.choice([0, 1, 2, 2, 3, 4])
        out = [nm]
        for _ in range(nm):
            d = self.data(10)
            out += [r.choice([0, 0, 3]), len(d)] + d
        return out

    def off(self):
        r = self.r
        return r.choice([0, 0, 0, 1, 2, 3, 5, 8, 13, 20, 33, 64, r.randint(0, 45)])

    def emit(self, toks):
        self.out += toks
        self.n += 1

    def pos_slot(self):
        c = [s for s, k in self.slots.items() if k == "pos"]
        if c and self.r.random() < 0.92:
            return self.r.choice(c)
        return self.r.randrange(NSLOTS)

    def seq_slot(self):
        c = [s for s, k in self.slots.items() if k == "seq"]
        if c and self.r.random() < 0.92:
            return self.r.choice(c)
        return self.r.randrange(NSLOTS)

    # -- operations -----------------------------------------------------
    def exists(self, p):
        p = tuple(p)
        return p in self.files or p in self.dirs or p in self.links

    def parent_ok(self, p):
        p = tuple(p)
        return len(p) == 1 or p[:-1] in self.dirs

    def op_open(self, seq=None):
        r = self.r
        slot = r.randrange(NSLOTS)
        if len(self.slots) < 2:
            free = [s for s in range(NSLOTS) if s not in self.slots]
            slot = r.choice(free)
        if seq is None:
            seq = 1 if r.random() < 0.25 else 0
        if self.adv and r.random() < 0.5:
            bits = r.randrange(64)
        else:
            bits = r.choice([1, 3, 3, 3, 3, 19, 19, 27, 18, 26, 35, 7, 7, 23, 2, 11, 51])
        creating = (bits & 48) != 0 and (bits & 2) != 0
        if creating and r.random() < 0.6:
            p = tuple(self.any_path())
        elif self.files and r.random() < 0.93:
            p = r.choice(sorted(self.files))
        else:
            p = tuple(self.some(self.dirs | self.links))
        self.emit([1, slot] + enc_path(p) + [bits, seq])
        valid = (bits & 3) != 0 and ((bits & 2) != 0 or (bits & 56) == 0)
        ok = False
        if valid:
            if p in self.files:
                ok = not (bits & 32)
            elif creating and not self.exists(p) and self.parent_ok(p):
                ok = True
                self.files.add(p)
        if ok:
            self.slots[slot] = "seq" if seq else "pos"
        else:
            self.slots.pop(slot, None)

    def step(self):
        r = self.r
        x = r.random()
        if not self.slots and x < 0.5:
            return self.op_open()
        if x < 0.10:
            return self.op_open()
        if 0.13 <= x < 0.54 and not any(k == "pos" for k in self.slots.values()) and r.random() < 0.8:
            return self.op_open(seq=0)
        if x < 0.13:
            s = r.randrange(NSLOTS)
            self.slots.pop(s, None)
            return self.emit([2, s])
        if x < 0.24:
            return self.emit([3, self.pos_slot(), self.off()] + self.rbuf())
        if x < 0.35:
            return self.emit([4, self.pos_slot(), self.off()] + self.wbuf())
        if x < 0.41:
            return self.emit([5, self.pos_slot(), self.off()] + self.rvec())
        if x < 0.47:
            return self.emit([6, self.pos_slot(), self.off()] + self.wvec())
        if x < 0.50:
            return self.emit([7, self.pos_slot(), r.choice([0, 1, 5, 17, 40, 70])])
        if x < 0.515:
            return self.emit([8, self.pos_slot(), r.randrange(2)])
        if x < 0.54:
            return self.emit([9, self.pos_slot()])
        if x < 0.57:
            return self.emit([10] + enc_path(self.some(self.files | self.dirs | self.links)) + [r.randrange(2)])
        if x < 0.60:
            p = tuple(self.any_path())
            if not self.exists(p) and self.parent_ok(p):
                self.dirs.add(p)
            return self.emit([11] + enc_path(p))
        if x < 0.62:
            p = tuple((self.name(), self.name(), self.name())[:r.randint(1, 3)])
            if not any(p[:i] in self.files or p[:i] in self.links for i in range(1, len(p) + 1)):
                for i in range(1, len(p) + 1):
                    self.dirs.add(p[:i])
            return self.emit([12] + enc_path(p))
        if x < 0.64:
            p = self.some(self.files | self.links)
            self.files.discard(tuple(p))
            self.links.discard(tuple(p))
            return self.emit([13] + enc_path(p))
        if x < 0.655:
            p = tuple(self.some(self.dirs))
            if not any(q[:len(p)] == p and q != p for q in self.files | self.dirs | self.links):
                self.dirs.discard(p)
            return self.emit([14] + enc_path(p))
        if x < 0.69:
            a = tuple(self.some(self.files | self.dirs | self.links))
            b = tuple(self.any_path() if r.random() < 0.6 else self.some(self.files | self.dirs))
            if a != b and self.exists(a) and self.parent_ok(b) and b[:len(a)] != a and not (
                    b in self.dirs and (a not in self.dirs or any(q[:len(b)] == b and q != b
                                                                  for q in self.files | self.dirs | self.links))):
                for s_ in (self.files, self.dirs, self.links):
                    s_.discard(b)
                for s_ in (self.files, self.dirs, self.links):
                    moved = [q for q in s_ if q[:len(a)] == a]
                    for q in moved:
                        s_.discard(q)
                        s_.add(b + q[len(a):])
            return self.emit([15] + enc_path(a) + enc_path(b))
        if x < 0.71:
            a = tuple(self.some(self.files))
            b = tuple(self.any_path())
            if a in self.files and not self.exists(b) and self.parent_ok(b):
                self.files.add(b)
            return self.emit([16] + enc_path(a) + enc_path(b))
        if x < 0.735:
            a = self.some(self.files | self.dirs) if r.random() < 0.8 else self.any_path()
            b = tuple(self.any_path())
            if not self.exists(b) and self.parent_ok(b):
                self.links.add(b)
            return self.emit([17] + enc_path(a) + enc_path(b))
        if x < 0.75:
            return self.emit([18] + enc_path(self.some(self.files)) + [r.randrange(2)])
        if x < 0.79:
            if not any(k == "seq" for k in self.slots.values()) and r.random() < 0.7:
                return self.op_open(seq=1)
            return self.emit([19, self.seq_slot()] + self.rbuf())
        if x < 0.83:
            if not any(k == "seq" for k in self.slots.values()) and r.random() < 0.7:
                return self.op_open(seq=1)
            return self.emit([20, self.seq_slot()] + self.wbuf())
        if x < 0.845:
            return self.emit([21, self.seq_slot()] + self.rvec())
        if x < 0.86:
            return self.emit([22, self.seq_slot()] + self.wvec())
        if x < 0.97:
            return self.pipe_step()
        if x < 0.988:
            p = tuple(self.any_path())
            d = self.data(30)
            if p not in self.dirs and p not in self.links and self.parent_ok(p):
                self.files.add(p)
            return self.emit([31] + enc_path(p) + [len(d)] + d)
        if x < 0.995:
            return self.emit([32] + enc_path(self.some(self.files)))
        return self.emit([30, self.pos_slot(), r.choice([0, 2, 5]), r.choice([0, 0, 1, 5, 8, 4294967296, 4294967299])])

    @staticmethod
    def wwin(w):
        shape, _, a, b, n = w[:5]
        return {0: n, 1: n - a, 2: min(b, n) - a}.get(shape, 0)

    @staticmethod
    def rwin(rb):
        shape, ln, cap, a, b = rb
        return {0: cap, 1: cap - a, 2: min(b, cap) - a}.get(shape, cap - ln)

    def pipe_step(self):
        r = self.r
        live = [p for p, st in self.pipes.items() if st[2]]
        if not live or r.random() < 0.05:
            p = r.randrange(NPIPES)
            self.pipes[p] = [0, True, True]
            return self.emit([23, p])
        p = r.choice(live)
        st = self.pipes[p]
        x = r.random()
        can_read = st[0] > 0 or not st[1]
        if st[1] and (x < 0.30 or (not can_read and x < 0.85)):
            if r.random() < 0.75:
                w = self.wbuf()
                n = self.wwin(w)
                if st[0] + n <= 4096:
                    st[0] += n
                return self.emit([24, p] + w)
            wv = self.wvec()
            n, i = 0, 1
            for _ in range(wv[0]):
                n += wv[i + 1]
                i += 2 + wv[i + 1]
            if st[0] + n <= 4096:
                st[0] += n
            return self.emit([27, p] + wv)
        if x < 0.88:
            if r.random() < 0.7:
                rb = self.rbuf()
                if can_read:
                    st[0] -= min(st[0], self.rwin(rb))
                return self.emit([25, p] + rb)
            rv = self.rvec()
            if can_read:
                st[0] -= min(st[0], sum(rv[2::2]))
            return self.emit([26, p] + rv)
        if x < 0.96:
            st[1] = False
            return self.emit([28, p])
        st[2] = False
        return self.emit([29, p])


def one_case(rng, adversarial):
    g = Gen(rng, adversarial)
    target = rng.choice([3, 6, 10, 14, 20, 28])
    # a typical prelude: a directory and a file with some content
    if rng.random() < 0.7:
        g.dirs.add((g.name(),))
        g.emit([11] + enc_path(sorted(g.dirs)[0]))
    if rng.random() < 0.8:
        p = (g.name(),)
        while p in g.dirs and rng.random() < 0.9:
            p = (g.name(),)
        d = g.data(40)
        if p not in g.dirs:
            g.files.add(p)
        g.emit([31] + enc_path(p) + [len(d)] + d)
    while g.n < target:
        g.step()
    return [g.n] + g.out


O_APPEND, O_EXCL, O_NOFOLLOW, O_DIRECTORY, O_TMPFILE = 1024, 128, 131072, 65536, 4259840
MODES = [0o600, 0o644, 0o000, 0o755, 0o666, 0o444, 0o640, 0o777, 0o200, 0o4755 & 0o777]
CUSTOMS = [0, 0, O_TMPFILE, O_TMPFILE, O_NOFOLLOW, O_DIRECTORY, O_EXCL, O_APPEND, O_TMPFILE | O_EXCL,
           O_NOFOLLOW | O_DIRECTORY, 4194304]


def special_tree(rng):
    """a tree with one of each kind: returns (ops, n_ops, names) with names =
    dict(dir, file, link_file, link_dir, dangling, missing) -> component"""
    perm = list(range(NNAMES))
    rng.shuffle(perm)
    nm = dict(zip(["dir", "file", "link_file", "link_dir", "dangling", "missing"], perm))
    d = [(20 + i) % 127 + 1 for i in range(rng.choice([0, 3, 9]))]
    ops = [11] + enc_path((nm["dir"],))
    ops += [31] + enc_path((nm["file"],)) + [len(d)] + d
    ops += [17] + enc_path((nm["file"],)) + enc_path((nm["link_file"],))
    ops += [17] + enc_path((nm["dir"],)) + enc_path((nm["link_dir"],))
    ops += [17] + enc_path((nm["missing"],)) + enc_path((nm["dangling"],))
    n = 5
    if rng.random() < 0.5:
        # something inside the directory, reachable through the link as well
        ops += [31] + enc_path((nm["dir"], nm["file"])) + [2, 7, 8]
        n += 1
    return ops, n, nm


def special_path(rng, nm):
    kinds = ["dir", "file", "link_file", "link_dir", "dangling", "missing"]
    first = nm[rng.choice(kinds)]
    x = rng.random()
    if x < 0.55:
        return (first,)
    second = nm[rng.choice(kinds)]
    if x < 0.9:
        return (first, second)
    return (first, second, nm[rng.choice(kinds)])


def open_options_case(rng):
    """class C08-a: OpenOptions incl. mode and custom flags on existing / missing /
    symlink / directory paths"""
    ops, n, nm = special_tree(rng)
    for _ in range(rng.choice([4, 6, 8, 10])):
        slot = rng.randrange(NSLOTS)
        if rng.random() < 0.75:
            bits = rng.choice([1, 2, 3, 3, 18, 19, 19, 27, 34, 35, 51, 11, 10, 6, 7, 23])
        else:
            bits = rng.randrange(64)
        custom = rng.choice(CUSTOMS)
        if custom & 4194304 and rng.random() < 0.7:
            bits = rng.choice([2, 3, 3, 6, 10, 11])       # write access, no create: the valid O_TMPFILE use
        if custom == O_DIRECTORY and rng.random() < 0.5:
            bits = 1
        p = special_path(rng, nm)
        if custom & 4194304 and rng.random() < 0.6:
            p = (nm[rng.choice(["dir", "link_dir", "dir", "file"])],)
        ops += [33, slot] + enc_path(p) + [bits, rng.choice(MODES), custom]
        n += 1
        x = rng.random()
        if x < 0.35:
            ops += [9, slot]
            n += 1
        elif x < 0.55:
            ops += [4, slot, rng.choice([0, 2]), 0, 0, 0, 0, 2, 65, 66]
            n += 1
        elif x < 0.7:
            ops += [10] + enc_path(p) + [rng.randrange(2)]
            n += 1
        elif x < 0.8:
            ops += [3, slot, 0, 0, 0, 6, 0, 0]
            n += 1
    return [n] + ops


def dir_utils_case(rng):
    """class C08-b: directory utilities where components or the final component
    already exist as a directory, a symlink to a directory / to a file, a dangling
    symlink or a regular file"""
    ops, n, nm = special_tree(rng)
    for _ in range(rng.choice([4, 6, 8, 12])):
        x = rng.random()
        p = special_path(rng, nm)
        if x < 0.40:
            ops += [12] + enc_path(p)
        elif x < 0.50:
            ops += [11] + enc_path(p)
        elif x < 0.57:
            ops += [14] + enc_path(p)
        elif x < 0.64:
            ops += [13] + enc_path(p)
        elif x < 0.74:
            ops += [15] + enc_path(p) + enc_path(special_path(rng, nm))
        elif x < 0.80:
            ops += [16] + enc_path(p) + enc_path(special_path(rng, nm))
        elif x < 0.86:
            ops += [17] + enc_path(special_path(rng, nm)) + enc_path(p)
        elif x < 0.96:
            ops += [10] + enc_path(p) + [rng.randrange(2)]
        else:
            ops += [32] + enc_path(p)
        n += 1
    return [n] + ops


def generate(seed, n):
    rng = random.Random(seed * 7919 + 8)
    cases = []
    for i in range(n):
        if i % 10 == 3:
            cases.append(open_options_case(rng))
        elif i % 10 == 7:
            cases.append(dir_utils_case(rng))
        else:
            cases.append(one_case(rng, adversarial=(i % 5 == 4)))
    return cases


if __name__ == "__main__":
    import sys
    for c in generate(int(sys.argv[1]) if len(sys.argv) > 1 else 1, int(sys.argv[2]) if len(sys.argv) > 2 else 5):
        print(" ".join(map(str, c)))
