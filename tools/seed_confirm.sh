#!/bin/sh
# dev helper: confirm a seeded change in a scratch worktree.
#   tools/seed_confirm.sh <seed-dir> <crate> <demo-dest-relative-path> "<cargo test args for the demo>" ["<cargo test args for the existing suite>"]
# 1. demo passes on the unchanged checkout, 2. patch applies, builds, existing tests of <crate> pass,
# 3. demo fails with the patch.  Everything happens under /tmp/seedchk (removed afterwards).
set -u
SD=$(readlink -f "$1"); CRATE=$2; DEST=$3; DEMOARGS=$4; SUITE=${5:-"-p $CRATE"}
WT=/tmp/seedchk_$$
git -C /repo worktree add -q --detach $WT HEAD || exit 2
export CARGO_TARGET_DIR=/verif/target/seedchk CARGO_NET_OFFLINE=true
cd $WT
mkdir -p $(dirname $DEST); cp $SD/demo.rs $DEST
echo "== demo on unchanged code"; timeout 900 cargo test --offline $DEMOARGS 2>&1 | grep -E "^test result|FAILED|panicked|error(\[|:)" | head -5
git apply $SD/patch.diff || { echo "PATCH DOES NOT APPLY"; cd /; git -C /repo worktree remove --force $WT; exit 3; }
echo "== existing suite with the change"; timeout 1800 cargo test --offline $SUITE 2>&1 | grep -E "^test result|FAILED|error(\[|:)" | sort | uniq -c | head -8
echo "== demo with the change"; timeout 900 cargo test --offline $DEMOARGS 2>&1 | grep -E "^test result|FAILED|panicked|error(\[|:)" | head -5
cd /; git -C /repo worktree remove --force $WT
