import json,sys
d=json.load(open(sys.argv[1]))
def show(case, impl, model):
    n=impl[0]; evs=[tuple(impl[1+3*i:4+3*i]) for i in range(n)]
    print("case",case); print("model",model)
    if model[:1]==[0]:
        i=model[1]; print("  rejected at", i, evs[i], " context:", evs[max(0,i-12):i+3])
    else: print("  events", evs)
show(d['original_case'], d['impl_output'], d['model_output'])
for m in d.get('more',[])[:5]: show(m['case'], m['impl'], m['model'])
