"""C07 — managed buffer pool: exclusive ownership and conservation."""
import diffcheck
import gen_c07

K = dict(KEY_NEW=1, KEY_FREE=2, SUBMIT=3, CQE_MORE=4, CQE_FINAL=5, SET_RESULT=6, TAKE=41, RESET=42, DEALLOC=43,
         REL_DEALLOC=44, GUARD=45, GUARD_LEAK=46, POP=47, POP_EMPTY=48, GUARD_DROP=49, NEW_RING=50,
         NEW_FALLBACK=51, RELEASED=52, RING_ADD=53, ENTER=27, ENTER_RETURN=28, KSEL=54, U_AWAIT=108, U_AWAITED=109, U_GOT=101, U_DROP=102, U_WRAP=107)
E_BUSY, E_UNSUPPORTED, E_INVALID = 1, 2, 3


def parse(out):
    n = out[0]
    evs = [tuple(out[1 + 3 * i: 4 + 3 * i]) for i in range(n)]
    p = 1 + 3 * n
    m = out[p]
    obs = [tuple(out[p + 1 + 6 * i: p + 7 + 6 * i]) for i in range(m)]
    return evs, obs


def malformed(out):
    if len(out) < 2:
        return True
    n = out[0]
    if len(out) < 2 + 3 * n:
        return True
    m = out[1 + 3 * n]
    return len(out) != 2 + 3 * n + 6 * m


def creators_of(case):
    """slot -> the step that created it (slots are created in program order until the runtime is dropped)"""
    cr = []
    for i in range(case[3]):
        o, a, b = case[4 + 3 * i: 7 + 3 * i]
        if o == 10:
            break
        if o in (1, 2, 11, 12, 14, 17, 18):
            cr.append((o, a, b))
    return cr


def failing_slot(case, slot):
    """reads on the failing descriptors (directory, write-only file, /proc/self/mem) and multishot reads at an
    offset may answer any OS error"""
    cr = creators_of(case)
    return slot < len(cr) and (cr[slot][1] >= 6 or cr[slot][0] == 17)


def oracle(case, out):
    """the property as a user of the API (and a reader of the raw hook log) sees it"""
    drv, size = case[0], case[1]
    nbuf = gen_c07.next_pow2(size)
    evs, obs = parse(out)
    # --- what the user observes
    live = {}          # id -> (addr, cap)
    addr_of = {}
    probed = False
    for o in obs:
        tag = o[0]
        if tag == 1:
            _, bid, addr, cap, ln, contig = o
            if bid in live:
                return "two live buffer handles carry buffer id %d" % bid
            for oid, (a2, c2) in live.items():
                if addr < a2 + c2 and a2 < addr + cap:
                    return "live buffer handles %d and %d overlap in memory" % (bid, oid)
            if addr_of.setdefault(bid, addr) != addr:
                return "buffer id %d changed its address" % bid
            if ln > cap:
                return "handle of buffer %d longer (%d) than the buffer (%d)" % (bid, ln, cap)
            if not contig:
                return "buffer %d does not contain a contiguous run of what was sent" % bid
            if bid >= nbuf:
                return "buffer id %d outside the pool of %d" % (bid, nbuf)
            live[bid] = (addr, cap)
        elif tag == 2:
            if o[2] != 1:
                return "buffer %d changed while the user was holding it" % o[1]
        elif tag == 6:
            if o[1] not in live:
                return "dropped a handle that was not live (id %d)" % o[1]
            del live[o[1]]
        elif tag == 3:
            if o[2] not in (E_BUSY, E_INVALID) and not failing_slot(case, o[1]):
                return "unexpected error kind %d from a managed read" % o[2]
        elif tag == 4:
            probed = True
            if o[1] != nbuf:
                return ("after every holder was dropped only %d of %d buffers could be obtained "
                        "(the pool shrank)" % (o[1], nbuf)) if o[1] < nbuf else \
                       "%d buffers obtained from a pool of %d" % (o[1], nbuf)
            if o[2] != E_BUSY:
                return "exhaustion was reported as error kind %d, not ResourceBusy%s" % (
                    o[2], " (hang)" if o[2] == 98 else "")
        elif tag == 9:
            if o[1] != o[2]:
                return "only %d of %d take/return rounds succeeded" % (o[2], o[1])
    if live:
        return "handles still live at the end of the program: %s" % sorted(live)
    # --- the raw ownership log: every buffer is in exactly one place
    state = {}         # id -> "in" | "out" | "dead"
    selected = set()   # selected by the kernel, completion queued (still in the slot table)
    kavail = None      # io_uring: what the ring held when the kernel last ran, minus what it selected since
    released = False
    created = False
    off_thread = None
    user_live = set()
    aw = None
    # slot -> the step that created it (slots are created in program order until the runtime is dropped)
    creators = creators_of(case)
    unacc = None       # (event index, id): the kernel consumed this id for the completion being reaped

    def einval_expected(slot):
        # a multishot read with a length on a pipe is refused by io_uring (EINVAL) whatever the pool holds
        return drv == 0 and slot < len(creators) and creators[slot][0] == 2 and creators[slot][1] == 1 \
            and creators[slot][2] > 0

    def avail():
        return set(i for i, st in state.items() if st == "in" and i not in selected)

    for idx, (k, a, b) in enumerate(evs):
        nxt = evs[idx + 1] if idx + 1 < len(evs) else (0, 0, 0)
        if k in (K["NEW_RING"], K["NEW_FALLBACK"]):
            if created:
                return "event %d: a second pool was created" % idx
            created = True
            if a != nbuf:
                return "pool created with %d buffers, expected %d" % (a, nbuf)
            state = {i: "in" for i in range(a)}
        if unacc is not None and k in (K["KSEL"], K["ENTER"], K["KEY_FREE"], K["U_AWAITED"], K["RELEASED"]):
            return ("event %d: the kernel consumed buffer %d from the ring for a completion and nothing took it "
                    "over: it is neither in the ring nor with any holder (the pool shrank)" % unacc)
        if k == K["KSEL"]:
            if state.get(a) != "in" or a in selected:
                return "event %d: a completion carries buffer %d, which is %s" % (idx, a, state.get(a))
            unacc = (idx, a)
        elif k == K["U_GOT"]:
            user_live.add(a)
        elif k == K["U_DROP"]:
            user_live.discard(a)
        elif k == K["U_AWAIT"]:
            aw = dict(slot=a & 0xffff, kind=a >> 16, pending=b & 1, sole=(b >> 1) & 1, mode=(b >> 2) & 1,
                      all_held=created and not released and len(user_live) == nbuf, avail=bool(avail()))
        elif k == K["U_AWAITED"] and aw is not None:
            outcome, err = a, b & 0xff
            good_read = (aw["slot"] < len(creators) and creators[aw["slot"]][0] == 1
                         and creators[aw["slot"]][1] == 0)
            if good_read and not user_live and not selected and created and not released and outcome != 1 \
                    and all(st == "in" for st in state.values()):
                return ("event %d: no handle is alive and no operation holds a buffer, yet a managed read of a "
                        "good file (slot %d) did not get one (outcome %d, error kind %d): the pool shrank"
                        % (idx, aw["slot"], outcome, err))
            if aw["all_held"] and (aw["pending"] or drv == 1):
                if outcome == 0:
                    return ("event %d: next() on slot %d did not resolve within the watchdog although the consumer "
                            "holds every buffer%s: the exhaustion error never reached the consumer (swallowed)"
                            % (idx, aw["slot"], " and data is waiting" if aw["pending"] else ""))
                if not (outcome == 2 and (err == E_BUSY or (err == E_INVALID and einval_expected(aw["slot"])))):
                    return ("event %d: next() on slot %d answered outcome %d / error kind %d while the pool is "
                            "exhausted, expected the ResourceBusy error" % (idx, aw["slot"], outcome, err))
            elif (aw["mode"] == 1 and aw["pending"] and aw["sole"] and aw["avail"] and aw["kind"] == 2
                  and not einval_expected(aw["slot"]) and created and not released):
                if outcome != 1:
                    return ("event %d: buffers were released and data is waiting, but next() on slot %d delivered "
                            "nothing (outcome %d, error kind %d)" % (idx, aw["slot"], outcome, err))
            aw = None
        elif k == K["ENTER_RETURN"]:
            kavail = avail()
        elif k == K["TAKE"]:
            if state.get(a) != "in":
                return "event %d: buffer %d taken while %s" % (idx, a, state.get(a))
            state[a] = "out"
            selected.discard(a)
            if unacc is not None and unacc[1] == a:
                unacc = None
        elif k == K["RESET"]:
            if state.get(a) != "out":
                return "event %d: buffer %d returned to the pool while %s (double return)" % (idx, a, state.get(a))
            if released:
                return "event %d: buffer %d returned to a released pool" % (idx, a)
            if b == 1:
                off_thread = "event %d: buffer %d returned to the pool by another thread" % (idx, a)
            state[a] = "in"
        elif k == K["DEALLOC"]:
            if state.get(a) != "out":
                return "event %d: buffer %d deallocated by a holder while %s" % (idx, a, state.get(a))
            if b == 1:
                off_thread = ("event %d: the handle of buffer %d (BufferRef, holds an Rc/Weak of the pool) was "
                              "dropped on a blocking-pool thread" % (idx, a))
            state[a] = "dead"
        elif k == K["REL_DEALLOC"]:
            if state.get(a) != "in" or not released:
                return "event %d: release deallocated buffer %d while %s" % (idx, a, state.get(a))
            state[a] = "dead"
        elif k == K["RELEASED"]:
            released = True
        elif k == K["GUARD"] or (k == K["SET_RESULT"] and drv == 0 and nxt[0] == K["TAKE"]):
            bid = a if k == K["GUARD"] else nxt[1]
            if state.get(bid) != "in" or bid in selected:
                return "event %d: the kernel selected buffer %d while %s" % (idx, bid, state.get(bid))
            if kavail is not None and bid not in kavail:
                return "event %d: the kernel selected buffer %d, which was not in the ring when it ran" % (idx, bid)
            if kavail is not None:
                kavail.discard(bid)
            if k == K["GUARD"]:
                selected.add(bid)
                if unacc is not None and unacc[1] == bid:
                    unacc = None
        elif k == K["POP_EMPTY"]:
            if avail() and not released:
                return "event %d: exhaustion reported while buffers %s were available" % (idx, sorted(avail()))
        elif k == K["SET_RESULT"] and b == 2 and drv == 0:
            if kavail and not released:
                return "event %d: ENOBUFS while buffers %s were in the ring" % (idx, sorted(kavail))
    if unacc is not None:
        return ("event %d: the kernel consumed buffer %d from the ring for a completion and nothing took it over"
                % unacc)
    if created:
        bad = {i: st for i, st in state.items() if st != "dead"}
        if bad:
            return "buffers never deallocated although the pool and every handle are gone: %s" % bad
    return off_thread


class C07(diffcheck.DiffProp):
    pid = "C07"
    manifest = dict(
        text="Coq proof over a labelled transition system of the managed buffer pool (io_uring buffer ring with the code's u16 tail/index arithmetic and the kernel's head&mask view; fallback free queue; slot table; completions, multishot guards, operations, user handles), for all label sequences and all pool sizes: every buffer id has exactly one owner, live handles never share an id, the kernel's next write target is owned by the ring only, |ring|+|selected|+|in ops|+|handles| = N (= next_power_of_two(size) >= size), a quiet pool has a full ring, the holders can always be drained, exhaustion is answered by ResourceBusy/ENOBUFS exactly when the ring/queue is empty, no step panics, ring index arithmetic never overflows and never overwrites a live entry; the runtime-level multishot stream (SubmitMultiStream over SubmitMultiManaged, modelled as a structural recursion over the answers of its inner stream and its factory) returns the ResourceBusy result of its operation / of factory.create() to the consumer after any number of re-submissions and is Pending only when its operation is. Tied to the code by replaying hook-recorded ownership histories of real managed / multishot reads (files, pipes, TCP, UDP, Unix sockets; both drivers) through the extracted LTS, which must predict every buffer id the kernel hands out and every ring index / tail the code reports, plus an oracle on what the API user sees, including consumers that hold every buffer and await next() of a stream under a round budget (the exhaustion error must come out; after a release data must be delivered again).",
        note="Partial: the kernel is an environment label (selects the ring head, fills it and posts the completion atomically w.r.t. the user thread; an io-wq worker still writing while Proactor::drop frees the buffers is outside the model); buffer contents are checked by the harness, not modelled; BufferPool::take(id)/reset(id) called by arbitrary user code and raw Runtime::submit_multi consumers that ignore the buffer id are outside the quantifier; weak memory (the ring tail is published through a non-atomic Cell) not modelled. Trusted: Coq kernel, extraction + driver, cfg(compio_verif) hook commits, harness/rt/src/bin/c07.rs. No axioms.",
        technique="Coq invariant proof over an LTS + acceptance of recorded histories by the extracted LTS")
    prop_file = "prop/C07.v"
    model_name = "c07"
    harness_bin = "c07"
    package = "rt"
    gen = gen_c07
    shards = 12
    thorough_release = False
    uses_consts = True
    counts = {"quick": 420, "thorough": 6000}
    rule = ("programs of managed reads / multishot streams (read, recv, recv_from; files, pipes, TCP, UDP, Unix "
            "sockets) with harness-controlled arrival, polls, holds, handle drops, future/stream drops, peer close, "
            "runtime drop with handles outliving it; consumers that hold every buffer and keep awaiting next() of a "
            "runtime-level multishot stream under a round budget, then release and continue; managed reads that FAIL "
            "after the kernel consumed a ring buffer (directory, write-only file, /proc/self/mem; at an offset and at "
            "the cursor; multishot variants; EOF) interleaved with good reads, cancels and held handles; pool sizes 1..16, buffer lengths 1..64 (192/256 for "
            "recvmsg multishot); io_uring ring and polling-driver fallback pool; every program ends with a probe "
            "of how many buffers can be obtained; non-trivial = a buffer reached the user and went back; "
            "distinct = distinct programs")
    trusted_base = [
        "Coq 8.16.1 kernel (coqc, full .vo build)",
        "extraction: ExtrOcamlBasic only; coq/extract/driver.ml; coq/model/RunC07.v (event decoder / owner resolution)",
        "tools/consts.py for BUF_GROUP and the pool defaults",
        "hook commits in /repo: compio_driver::verif POOL_BUF call sites (cfg(compio_verif), add-only) report faithfully",
        "harness/rt/src/bin/c07.rs, tools/gen_c07.py, tools/p_c07.py oracle",
    ]
    assumptions = [
        "kernel: a buffer-select completion consumes exactly the ring head (FIFO), posts completions in selection order, answers -ENOBUFS iff the ring is empty",
        "kernel selection, the write into the buffer and the completion are atomic with respect to the user thread",
        "single driver thread; sequential consistency of the ring tail (published through a Cell)",
        "Rc/Weak counts of the pool are exact",
    ]

    def model_input(self, case, out):
        if not out or out[0] == 99999 or (out[:1] == [2] and len(out) == 2) or malformed(out):
            return case[:2]
        n = out[0]
        return case[:2] + out[1:1 + 3 * n]

    def model_expected(self, case, out):
        if not out or out[0] == 99999 or (out[:1] == [2] and len(out) == 2) or malformed(out):
            return [1, 0, 0, 0, 0, 0, 0, 0]
        evs, _ = parse(out)
        if not any(k in (K["NEW_RING"], K["NEW_FALLBACK"]) for k, _, _ in evs):
            return [1, 0, 0, 0, 0, 0, 0, 0]
        nbuf = gen_c07.next_pow2(case[1])
        nbusy = sum(1 for k, a, b in evs if k == K["POP_EMPTY"] or (k == K["SET_RESULT"] and b == 2))
        nsel = sum(1 for k, _, _ in evs if k == K["GUARD"])
        if case[0] == 0:
            nsel += sum(1 for i in range(1, len(evs)) if evs[i][0] == K["TAKE"] and evs[i - 1][0] == K["SET_RESULT"])
        return [1, nbuf, nbuf, 0, 0, 0, nbusy, nsel]

    def oracle(self, case, out):
        if out[:1] == [99999]:
            return None
        if out[:1] == [2] and len(out) == 2:
            return "panic/abort/hang (code %d) in a managed-read program" % out[1]
        if malformed(out):
            return "malformed harness output"
        return oracle(case, out)

    def known(self, case, out, what):
        if "dropped on a blocking-pool thread" in what or "by another thread" in what:
            return "C07-bufferref-dropped-off-thread"
        return None


PROP = C07()
