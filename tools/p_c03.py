"""C03 — a wake-up from any thread is never lost.

Tie to the code: every recorded hook history (AwakeFlag set/reset/wake with the
prior value, notifier write/clear/arm/disarm, kernel enter/return) of the real
driver - under stress, inside forced windows of Driver::poll, in external-loop
mode and under a real Runtime - must be accepted by the extracted acceptor
(coq/model/RunC03.v: a run of the LTS restricted to the driver-level variables,
read-modify-write order reconstructed from the prior values and the begin/end log entries of each operation), and an oracle on
the harness's own measurements (poll returned / fd readable / task polled again)
must hold."""
import diffcheck
import gen_c03


def parse(out):
    n = out[6]
    evs = [tuple(out[7 + 3 * i: 10 + 3 * i]) for i in range(n)]
    return out[:6], evs


class C03(diffcheck.DiffProp):
    pid = "C03"
    prop_file = "prop/C03.v"
    model_name = "c03"
    harness_bin = "c03"
    package = "rt"
    gen = gen_c03
    shards = 8
    thorough_release = False
    uses_consts = True
    counts = {"quick": 240, "thorough": 2400}
    manifest = dict(
        text="Coq proof over an interleaving labelled transition system (one atomic memory operation or system call = one label) of the runtime thread (block_on loop and external-loop mode: poll main future, tick with drain_sync, reset, arm notifier, enter, set_awake, poll_entries, set_awake / flush, external wait, poll(zero)), any number of waker threads going through Remote::schedule and Notify::wake_by_ref, and the kernel (notifier completions, multishot termination), for every queue capacity >= 1 and both notifier flavours: in every reachable state a completed, unconsumed wake of a task or of the main future implies the runtime is not stuck in its wait (ready, or eventfd non-zero with the notifier armed, or a waker on its way); measure on the runtime's own steps until the next poll; SCHEDULED coalesces only while the id is queued / hot / being pushed; a full queue makes the waker wait and `pending` bounds the queued ids; a task woken on the runtime's own thread from outside run/flush/poll (host-loop callback in external-loop mode, also between flush and the sleep on the descriptor) never leaves the loop asleep un-notified with a hot task (C03_hot_never_sleeps). Witness lemmas refute the two earlier code variants (flush not arming the notifier, fixed by 43c7a63; no driver wake after a push that waited for a slot, fixed by 98ca18e) and a hypothetical Local::schedule without the driver wake. Tied to the code by accepting hook-recorded histories of the real drivers (stress, forced windows at the sched points of Driver::poll, external-loop black box, real Runtime with queue sizes 1/2/64 incl. the forced full-queue window, and a host event loop driving a real Runtime through its descriptor with same-thread / cross-thread / timer / I/O wake sources under a sleep watchdog) with the extracted acceptor (its driver-level transition function is proved to accept every projected run of the LTS, keeping flag / NEED_PUSH_NOTIFIER / owed notifier writes equal: C03_model_runs_accepted), plus oracles on measured outcomes.",
        note="Partial: sequential consistency only (weak-memory reorderings allowed by the Acquire/Release orderings are not modelled); eventfd / io_uring multishot poll / epoll level semantics are environment labels (assumed); task completion and cancellation, the blocking pool, SQ overflow inside arm_notifier and the drain piggy-backed on a local wake are left out of the model; the tokio / async-io adapters of compio-compat are not run (the external loop is played by the harness: flush, libc::poll on the driver fd, poll(zero)); forced multishot termination is proved in the model (LKTerm) but not provoked on the real kernel. Trusted: Coq kernel, extraction + driver, cfg(compio_verif) hook commits in compio-driver and compio-executor, harness/rt/src/bin/c03.rs, the acceptor's reconstruction of the atomic order (a linearizability search: every AwakeFlag operation takes effect between its AWAKE_BEGIN entry and its own log entry, budgeted depth-first search over the operations in flight) is executable Gallina but not itself proved complete; its transition function dstep is proved to accept the model's runs in atomic order. No axioms.",
        technique="Coq invariant proof over an interleaving LTS + acceptance of recorded histories by the extracted acceptor + forced-schedule replay")
    rule = ("cases = stress histories (K in {1,2,4,8} waker threads x R wakes against a looping poll), forced windows "
            "(sched points 1,2,3 of Driver::poll), external-loop black box (flush, wake, fd readable; 4 variants), "
            "executor level (tasks / main future woken concurrently, queue sizes 1,2,64, queue-full path with the "
            "runtime held, forced full-queue window), host event loop on a real Runtime (run / flush / bounded sleep on the "
            "descriptor / poll(0); wake sources: same-thread callback after or before flush, own waker, cross-thread, timer, I/O), both drivers; non-trivial = the history has a remote wake and a "
            "kernel entry; distinct = distinct cases (seeded schedules)")
    trusted_base = [
        "Coq 8.16.1 kernel (coqc, full .vo build)",
        "extraction: ExtrOcamlBasic only; coq/extract/driver.ml; coq/model/RunC03.v (acceptor = hand-written restriction of model/Wake.v to the driver-level variables)",
        "tools/consts.py (AWAKE_IDLE / AWAKE_NOTIFIED / AWAKE_AWAKE regenerated from compio-driver/src/sys/driver/mod.rs)",
        "hook commits in /repo: compio_driver::verif (AwakeFlag/notifier/enter events, sched points 1-3), compio_executor::verif (sched points in Remote::schedule), cfg(compio_verif), add-only",
        "harness/rt/src/bin/c03.rs, tools/gen_c03.py, tools/p_c03.py",
    ]
    assumptions = [
        "sequential consistency of the atomics (weak-memory reorderings not modelled)",
        "eventfd + io_uring multishot PollAdd: a non-zero eventfd with a live poll produces a NOTIFY completion; arming checks the level; a terminated multishot posts a final completion",
        "polling::Poller::notify makes the current or next wait return; wait drains the notification",
        "crossbeam ArrayQueue is a linearizable bounded FIFO",
        "every spawned thread is eventually scheduled (a waker thread that is enabled eventually steps)",
    ]

    def model_input(self, case, out):
        if not out or len(out) < 7 or out[0] not in (1, 2, 3, 4, 5, 6, 7):
            return [case[1] if len(case) > 1 and case[1] in (0, 1) else 0, 0]
        n = out[6]
        return [out[1], n] + out[7:7 + 3 * n]

    def model_expected(self, case, out):
        if not out or len(out) < 7 or out[0] not in (1, 2, 3, 4, 5, 6, 7):
            return [1, 0, 0]
        _, evs = parse(out)
        return [1, len(evs), sum(1 for e in evs if e[0] == 22)]

    def oracle(self, case, out):
        if out[:1] == [99999]:
            return None
        if out[:1] == [2] and len(out) == 2:
            return "panic/abort/hang (code %d) in the wake-up harness" % out[1]
        if len(out) < 7 or len(out) < 7 + 3 * out[6]:
            return "malformed harness output"
        mode, drv, r1, r2, r3, r4 = out[:6]
        d = "io_uring" if drv == 0 else "polling"
        if mode == 1:
            if r4 != 0:
                return ("%s: %d of %d wakes were not followed by a poll return within 2.5 s (poll timeout 3 s; "
                        "worst latency %d ms)" % (d, r4, r1, r3))
        elif mode == 2:
            if r2 != 1:
                return "%s: scheduling point %d of Driver::poll was never reached" % (d, r1)
            if r4 != 1:
                return ("%s: a wake performed while the driver thread was parked at scheduling point %d did not "
                        "end poll(2 s) promptly (%d ms)" % (d, r1, r3))
        elif mode == 3:
            if r4 != 1:
                return ("%s external loop (variant %d): after flush() a wake from another thread did not make the "
                        "driver descriptor readable within 500 ms (flush returned %d)" % (d, r1, r2))
        elif mode == 4:
            if r4 != 0:
                return ("%s runtime, sub-mode %d, queue size %d: %d of %d woken futures were not polled again "
                        "after every wake() had returned" % (d, r1, r2, r4, r3))
        elif mode == 5:
            src = gen_c03.SOURCES.get(r1, "?")
            if r4 != 0:
                return ("%s runtime driven by a host event loop (run / flush / sleep on the descriptor / poll(0)), wake "
                        "source %s: in %d of %d rounds the loop slept its whole %d ms watchdog although a task was "
                        "runnable / a wake had been issued: lost wake-up" % (d, src, r4, r2, 1500))
        elif mode == 7:
            if r4 != 0 or r2 != r1:
                return ("%s runtime: in %d of %d rounds a task woken from another thread WHILE it was being polled (that "
                        "poll itself caused by a cross-thread wake) was not polled again within 1.5 s after the wake() had "
                        "returned: the wake-up was dropped, not coalesced" % (d, r4 + (r1 - r2), r1))
        elif mode == 6:
            if r2 != 1:
                return ("%s runtime, ring capacity %d: a burst of %d receives that completed at once was not "
                        "delivered within 6 s" % (d, r1 // 1000, r1 % 1000))
            if r4 != 0:
                return ("%s runtime, ring capacity %d: after a burst of %d simultaneous completions had filled the "
                        "completion queue, a task woken from another thread while the runtime was blocked in the "
                        "driver was not polled again until the wait timed out (%d ms): lost wake-up"
                        % (d, r1 // 1000, r1 % 1000, r3))
        return None

    def known(self, case, out, what):
        return None


PROP = C03()
