"""C02 — every operation completes exactly once, with its own result."""
import gen_drv
from p_drv import DrvProp, K, parse, steps_of, fifo_violation, waker_counts


def oracle(case, out):
    evs, slots = parse(out)
    steps = steps_of(case)
    setres = {}
    for idx, (k, key, arg) in enumerate(evs):
        if k == K["SETRES"]:
            setres[key] = setres.get(key, 0) + 1
            if setres[key] > 1:
                return "operation %d received a second final result (event %d)" % (key, idx)
    # FINAL must be followed by SETRES of the same key
    for idx, (k, key, arg) in enumerate(evs):
        if k == K["FINAL"]:
            # (events of pool threads may be logged in between)
            nxt = next((e for e in evs[idx + 1:] if e[0] not in (K["B_START"], K["B_END"], K["FREE"])), None)
            if not nxt or nxt[0] != K["SETRES"] or nxt[1] != key:
                return "final completion of operation %d not stored as its result (event %d)" % (key, idx)
            if nxt[2] != arg:
                return "operation %d: stored result %d differs from the OS result %d" % (key, nxt[2], arg)
    r = fifo_violation(case, out)
    if r:
        return r
    # the waiting task is woken: the waker registered LAST before the completion is invoked
    wc = waker_counts(out)
    if wc is not None:
        last_waker = {}
        times_set = {}
        for (k, key, arg) in evs:
            if k == 108:
                times_set[arg] = times_set.get(arg, 0) + 1
        for idx, (k, key, arg) in enumerate(evs):
            if k == 108:
                last_waker[key] = arg
            elif k == K["SETRES"] and key in last_waker:
                w = last_waker.pop(key)
                if wc[w] == 0:
                    return ("operation %d completed but the waker registered last for it (waker %d) was never "
                            "invoked: the waiting task is not woken" % (key, w))
    # a finished thread-pool job is delivered by the next polls, however often the driver is woken
    for idx, (k, key, arg) in enumerate(evs):
        if k != K["B_END"]:
            continue
        polls_after = [j for j in range(idx, len(evs)) if evs[j][0] == 107 and evs[j][1] == 1]
        # the first poll may have begun before the job ended: require two complete polls
        begins = [j for j in range(idx, len(evs)) if evs[j][0] == 107 and evs[j][1] == 0]
        ends = [j for j in begins[1:2]]
        if len(begins) < 2:
            continue
        second_end = next((j for j in range(begins[1], len(evs)) if evs[j][0] == 107 and evs[j][1] == 1), None)
        if second_end is None:
            continue
        if any(e[0] == K["DROP_BEGIN"] for e in evs[idx:second_end]):
            continue
        if not any(e[0] == K["SETRES"] and e[1] == key for e in evs[:second_end]):
            return ("thread-pool operation %d finished, the driver was polled twice afterwards, but its result "
                    "was not delivered" % key)
    written = {}
    for (o, a, b) in steps:
        if o == 4:
            written[a] = written.get(a, 0) + b
    # every byte chunk handed to a recv is a contiguous piece of what was written to ITS resource,
    # and chunks of one resource do not overlap (nothing duplicated or swapped between operations)
    per_res = {}
    for i, s in enumerate(slots):
        if s["kind"] == 1 and s["status"] == 1 and s["value"] > 0:
            if not s["contig"]:
                return "recv slot %d: received bytes are not a contiguous piece of the stream" % i
            per_res.setdefault(s["res"], []).append((s["first"], s["value"], i))
        if s["kind"] == 3 and s["status"] == 1 and s["value"] != 7:
            return "blocking op slot %d returned %d, expected 7 (someone else's result)" % (i, s["value"])
        if s["kind"] == 2 and s["status"] == 1 and s["value"] > 300:
            return "send slot %d reports %d bytes" % (i, s["value"])
    # bytes consumed by recvs whose result was never collected (dropped / not popped)
    key_slot = {s["key"]: i for i, s in enumerate(slots)}
    completed_on = {}
    for (k, key, arg) in evs:
        if k == K["SETRES"] and key in key_slot and slots[key_slot[key]]["kind"] == 1 and 0 < arg < 1000000:
            r = slots[key_slot[key]]["res"]
            completed_on[r] = completed_on.get(r, 0) + 1
    for res, chunks in per_res.items():
        chunks.sort()
        all_collected = completed_on.get(res, 0) == len(chunks)
        pos = 0
        for first, n, i in chunks:
            if first < pos:
                return ("resource %d: recv slot %d got bytes starting at stream offset %d, overlapping what another "
                        "operation received (duplicated or swapped data)" % (res, i, first))
            if all_collected and first != pos:
                return ("resource %d: recv slot %d got bytes starting at stream offset %d, expected %d "
                        "(lost or swapped data)" % (res, i, first, pos))
            pos = first + n
        if pos > written.get(res, 0):
            return "resource %d: bytes up to offset %d received but only %d written" % (res, pos, written.get(res, 0))
    # delivered once the OS has finished: a recv pushed before the final poll, never cancelled or
    # dropped, popped afterwards, on a resource that had unread data before that poll, must be Ready
    # (a poll may return early after delivering thread-pool results: require two polls)
    polls = [i for i, st in enumerate(steps) if st[0] == 5 and st[1] >= 5]
    # the polling driver serves one queued operation per descriptor and poll: it needs as many polls
    # as there are receives, plus the two above
    need = 2 if case[0] == 0 else 2 + sum(1 for st in steps if st[0] in (1, 18))
    last_poll = polls[-need] if len(polls) >= need and not any(st[0] in (1, 2, 3, 4, 12, 14, 15, 18) for st in steps[polls[-need]:]) else None
    if last_poll is not None and not any(st[0] == 10 for st in steps):
        slot_of_step, ns = {}, 0
        touched = set()
        for i, (o, a, b) in enumerate(steps):
            if o in (1, 2, 3, 12, 14, 18):
                slot_of_step[ns] = i
                ns += 1
            if o in (7, 8, 9):
                touched.add(a)
        written_before = {}
        for (o, a, b) in steps[:last_poll]:
            if o == 4:
                written_before[a] = written_before.get(a, 0) + b
        for res in written_before:
            recvs = [i for i, s in enumerate(slots) if s["kind"] == 1 and s["res"] == res]
            if any(i in touched for i in recvs):
                continue
            consumed = sum(s["value"] for i, s in enumerate(slots) if i in recvs and s["status"] == 1)
            if completed_on.get(res, 0) != sum(1 for i in recvs if slots[i]["status"] == 1 and slots[i]["value"] > 0):
                continue
            if written_before[res] <= consumed:
                continue
            waiting = [i for i in recvs if slots[i]["status"] == 0 and slot_of_step.get(i, 10 ** 9) < last_poll
                       and any(st[0] == 6 and st[1] == i for st in steps[polls[-1] + 1:])]
            if waiting:
                return ("recv slot %d on resource %d left waiting although %d unread bytes were ready before the "
                        "driver was polled" % (waiting[0], res, written_before[res] - consumed))
    return None


class C02(DrvProp):
    pid = "C02"
    manifest = dict(
        text="Coq proofs that a result is stored at most once per operation in every reachable state of the driver LTS and that the submission-queue overflow loop is lossless for every capacity >= 1 and every entry sequence; tied to the code by history acceptance (extracted LTS) and an oracle that checks which bytes went to which operation on the real driver (distinct payloads, harness-chosen readiness order, SQ capacities 1..1024, both drivers). Result slot and waker (ResultSlot.v): the completion invokes the waker registered LAST, one result, taken once. Polling driver queues (PollDrv.v): armed iff waiting in every reachable state, an unusable readiness is the identity (recognised again next time), a usable one completes the head (FIFO) — both models are history acceptors in the extracted driver, so every set_waker/wake and every poller call of the real driver is predicted.",
        note="Partial: what the OS did for an operation is an environment input; routing of the OS result to its own operation is checked on the real driver by the oracle (FINAL result = stored result, chunks of a stream never overlap or swap), not proved. Multi-descriptor operations (splice) are in the PollDrv model (tracking marks) but are not generated by the harness. No axioms.",
        technique="Coq invariant proof over an LTS + bounded-queue lemma + history acceptance and result-routing oracle")
    prop_file = "prop/C02.v"
    gen = gen_drv.make("c02")
    rule = ("programs mixing concurrently pending recv/send/blocking ops with distinct payloads per resource, "
            "harness-chosen readiness order, SQ capacities 1,2,4,1024, both drivers; non-trivial = an operation "
            "reached the kernel/queue/pool and some storage was freed; distinct = distinct programs")

    def oracle(self, case, out):
        b = self.base_oracle(case, out)
        if b is not None:
            return b or None
        return oracle(case, out)


PROP = C02()
