"""Generic check for properties whose tie to the code is an exact differential
correspondence: the extracted Coq model and the Rust harness run the same
integer-encoded cases; outputs must be equal; an independent property oracle
judges the implementation's outputs."""
import glob
import json
import os
import sys
import time

import vlib
from vlib import log


class DiffProp:
    pid = None
    prop_file = None          # e.g. "prop/C11.v"
    model_name = None         # driver table key
    harness_bin = None
    package = "pure"          # harness/<package>
    gen = None                # module with generate(seed, n), describe(case), nontrivial(case, out)
    counts = {"quick": 1000, "thorough": 20000}
    trusted_base = []
    assumptions = []
    rule = ""
    uses_consts = False
    thorough_release = True   # thorough tier repeats the run on a release-profile harness

    def oracle(self, case, impl_out):
        """independent statement of the property on implementation output only;
        returns None (holds) or a short description of the violation"""
        return None

    def known(self, case, impl_out, what):
        """id of the known finding this violation belongs to, or None"""
        return None


def load_corpus(pid):
    cases = []
    for f in sorted(glob.glob(os.path.join(vlib.ROOT, "corpus", pid, "*.case"))):
        for line in open(f):
            line = line.split("#")[0].strip()
            if line:
                cases.append([int(t) for t in line.split()])
    return cases


def shrink(case, still_fails, budget=80, seconds=40):
    """greedy shrinking: try dropping / decrementing integers while the
    failure (as judged by `still_fails`) persists; bounded in tries and time"""
    cur = list(case)
    tries = 0
    changed = True
    t_end = time.time() + seconds
    while changed and tries < budget and time.time() < t_end:
        changed = False
        for i in range(len(cur) - 1, 0, -1):
            if tries >= budget or time.time() > t_end:
                break
            for cand in (cur[:i] + cur[i + 1:], cur[:i] + [cur[i] // 2] + cur[i + 1:] if cur[i] > 0 else None):
                if cand is None or cand == cur:
                    continue
                tries += 1
                if still_fails(cand):
                    cur = cand
                    changed = True
                    break
    return cur


def run(prop, tier, seed, replay=None):
    t0 = time.time()
    pid = prop.pid
    outdir = os.path.join(vlib.OUT, getattr(prop, "evidence_name", pid))
    os.makedirs(outdir, exist_ok=True)
    lines = []          # VIOLATION / KNOWN-FINDING lines
    n_viol = 0
    notes = []

    # (a) constants translator
    ok, out = vlib.gen_consts()
    consts_broken = not ok
    if not ok:
        notes.append("consts translator failed: " + out[-500:])

    # (b) proofs
    pr = vlib.coq_prop(prop.prop_file)
    proof_broken = not pr["ok"]
    bad_axioms = []
    for name in pr["printed"]:
        axs = pr["assumptions"].get(name)
        if axs is None:
            if pr["ok"]:
                bad_axioms.append("%s: no Print Assumptions answer" % name)
            continue
        for a in axs:
            if a.split(".")[-1] not in {x.split(".")[-1] for x in vlib.ALLOWED_AXIOMS}:
                bad_axioms.append("%s depends on %s" % (name, a))
    missing_pa = [t for t in pr["theorems"] if t not in pr["printed"]]
    hyg = vlib.hygiene(prop.prop_file)
    if proof_broken:
        tail = "\n".join(pr["log"].splitlines()[-25:])
        notes.append("Coq build of %s failed:\n%s" % (prop.prop_file, tail))
    if bad_axioms:
        notes.append("assumption check: " + "; ".join(bad_axioms))
    if hyg:
        notes.append("hygiene: " + "; ".join(hyg[:5]))
    if missing_pa:
        notes.append("theorems without Print Assumptions: " + ", ".join(missing_pa))
    chk = None
    if tier == "thorough" and pr["ok"] and not replay:
        ok_c, axs_c, summ_c = vlib.coqchk(prop.prop_file)
        bad_c = [a for a in axs_c if a.split(".")[-1].split()[0] not in
                 {x.split(".")[-1] for x in vlib.ALLOWED_AXIOMS}]
        chk = {"clean": ok_c and not bad_c, "axioms": axs_c}
        if not chk["clean"]:
            notes.append("coqchk: " + summ_c[-800:])
    proof_ok = not (proof_broken or bad_axioms or hyg or missing_pa or consts_broken
                    or (chk is not None and not chk["clean"]))

    # (c) model driver + harness
    ok_d, out_d = vlib.build_driver(prop.model_name)
    if not ok_d:
        notes.append("model extraction/driver build failed:\n" + out_d[-1500:])
    ok_h, out_h, exe = vlib.build_harness(prop.harness_bin, prop.package)
    if not ok_h:
        notes.append("harness build failed:\n" + out_h[-3000:])

    # (d) cases: corpus first, then generated
    corpus = load_corpus(getattr(prop, "corpus_name", pid))
    if replay:
        rj = json.load(open(replay))
        if rj.get("case") is not None:
            cases = [rj["case"]]
            corpus = []
        else:
            # replay of a `proof-or-tie-broken` report (no failing input was found): re-check the
            # proofs / the source tie and search again over the corpus
            cases = list(corpus)
    else:
        cases = corpus + prop.gen.generate(seed, prop.counts[tier])
    cpath = os.path.join(outdir, "cases_%s.txt" % tier)
    vlib.write_cases(cpath, cases)

    impl, model = None, None
    aborts = 0
    if ok_h:
        if getattr(prop, "shards", 1) > 1 and not replay:
            impl, aborts = vlib.run_impl_sharded(exe, cases, outdir, prop.shards)
        else:
            impl, aborts = vlib.run_impl(exe, cpath, len(cases))
    mpath = cpath
    if ok_d and impl is not None and hasattr(prop, "model_input"):
        # history acceptance: the model is run on what the implementation produced
        mpath = os.path.join(outdir, "model_in_%s.txt" % tier)
        vlib.write_cases(mpath, [prop.model_input(c, impl[i] if i < len(impl) else [])
                                 for i, c in enumerate(cases)])
    if ok_d and not (hasattr(prop, "model_input") and impl is None):
        try:
            model = vlib.run_model(prop.model_name, mpath)
        except RuntimeError as e:
            notes.append(str(e))
            ok_d = False

    impl_rel = None
    if ok_h and tier == "thorough" and prop.thorough_release and not replay:
        ok_r, out_r, exe_r = vlib.build_harness(prop.harness_bin, prop.package, release=True)
        if ok_r:
            impl_rel, _ = vlib.run_impl(exe_r, cpath, len(cases))
        else:
            notes.append("release harness build failed:\n" + out_r[-1500:])

    # (e) compare + oracle
    disagreements = []
    oracle_hits = []
    known_seen = {}
    distinct = set()
    hist = {}
    kinds = {"ok": 0, "err": 0, "panic": 0, "bad": 0}
    if impl is not None:
        for i, c in enumerate(cases):
            io = impl[i] if i < len(impl) else None
            mo = model[i] if (model is not None and i < len(model)) else None
            d = prop.gen.describe(c)
            hist[d] = hist.get(d, 0) + 1
            if io is None:
                continue
            if io[:1] == [vlib.ABORT[0]] and len(io) == 2:
                kinds["panic"] += 1
            elif io[:1] == [99999]:
                kinds["bad"] += 1
            elif io[:1] == [1]:
                kinds["err"] += 1
            else:
                kinds["ok"] += 1
            if prop.gen.nontrivial(c, io):
                distinct.add(vlib.case_key(c))
            what = prop.oracle(c, io)
            if (what is None and impl_rel is not None and impl_rel[i] != io
                    and not (hasattr(prop, "profile_dependent") and prop.profile_dependent(c))):
                # debug and release profiles must agree (overflow semantics differ there)
                what = prop.oracle(c, impl_rel[i]) or "release profile result differs from debug profile"
            expected = prop.model_expected(c, io) if hasattr(prop, "model_expected") else io
            if what is not None:
                oracle_hits.append((i, c, io, mo, what))
                # a known finding is modelled faithfully: model and code must still agree on it
                if (model is not None and mo != expected and prop.known(c, io, what) is not None
                        and not (io[:1] == [2] and len(io) == 2 and io[1] in (4, 8))):
                    disagreements.append((i, c, io, mo))
            elif model is not None and mo != expected:
                disagreements.append((i, c, io, mo))

    def is_fail(case):
        p = os.path.join(outdir, "shrink.txt")
        vlib.write_cases(p, [case])
        r, _ = vlib.run_impl(exe, p, 1, timeout=30)
        if not r:
            return False
        if prop.oracle(case, r[0]) is not None:
            return True
        try:
            if hasattr(prop, "model_input"):
                vlib.write_cases(p, [prop.model_input(case, r[0])])
            m = vlib.run_model(prop.model_name, p, timeout=30)
        except RuntimeError:
            return False
        exp = prop.model_expected(case, r[0]) if hasattr(prop, "model_expected") else r[0]
        return m[0] != exp and r[0][:1] != [99999] and m[0][:1] != [99999]

    reported = 0
    for (i, c, io, mo, what) in oracle_hits:
        kid = prop.known(c, io, what)
        if kid is not None:
            if kid not in known_seen:
                known_seen[kid] = (c, what)
            continue
        n_viol += 1
        if reported < 5:
            hung = io[:1] == [2] and len(io) == 2 and io[1] in (4, 8)   # abort / hang: do not re-run 150 times
            small = c if hung else shrink(c, lambda cc: prop.oracle(cc, (vlib.run_impl(exe, _w(outdir, cc), 1, timeout=30)[0] or [[]])[0]) is not None and prop.known(cc, [], "") is None) if not replay else c
            io_s = vlib.run_impl(exe, _w(outdir, small), 1, timeout=30)[0][0]
            path = os.path.join(outdir, "violation_%s_%d.json" % (tier, i))
            vlib.write_json(path, {
                "property": pid, "kind": "oracle", "what": prop.oracle(small, io_s) or what,
                "case": small, "original_case": c, "impl_output": io_s, "model_output": mo,
                "op": prop.gen.describe(c), "seed": seed,
                "replay_cmd": "./check %s --replay %s" % (pid, path)})
            lines.append("VIOLATION property=%s replay=%s" % (pid, path))
            reported += 1

    if disagreements:
        # the correspondence no longer checks and the oracle found nothing wrong
        # with the implementation's outputs on those cases
        n_viol += 1
        i, c, io, mo = disagreements[0]
        small = shrink(c, is_fail) if not replay else c
        path = os.path.join(outdir, "correspondence_%s.json" % tier)
        vlib.write_json(path, {
            "property": pid, "kind": "correspondence",
            "what": "model %s (coq/model) and implementation disagree on %d case(s); "
                    "the property oracle accepts the implementation's outputs, so no failing "
                    "input for the property itself was found" % (prop.model_name, len(disagreements)),
            "no_longer_checks": "correspondence %s: run_%s vs harness %s" % (pid, prop.model_name, prop.harness_bin),
            "case": small, "original_case": c, "impl_output": io, "model_output": mo,
            "op": prop.gen.describe(c),
            "more": [{"case": d[1], "impl": d[2], "model": d[3]} for d in disagreements[1:6]],
            "replay_cmd": "./check %s --replay %s" % (pid, path)})
        lines.append("VIOLATION property=%s replay=%s no-failing-input-found" % (pid, path))

    infra_broken = (not ok_h) or (not ok_d)
    if (not proof_ok or infra_broken) and n_viol == 0:
        # a proof obligation / the tie itself no longer checks, the search found no failing input
        n_viol += 1
        path = os.path.join(outdir, "unchecked_%s.json" % tier)
        vlib.write_json(path, {
            "property": pid, "kind": "proof-or-tie-broken",
            "no_longer_checks": notes,
            "searched": {"cases": len(cases), "oracle_hits": 0, "disagreements": 0},
        })
        lines.append("VIOLATION property=%s replay=%s no-failing-input-found" % (pid, path))

    for kid, (c, what) in sorted(known_seen.items()):
        w = " ".join(map(str, c[:40])) + (" ..." if len(c) > 40 else "")
        lines.append("KNOWN-FINDING: property=%s %s: %s (witness case: %s)" % (pid, kid, what, w))

    # (f) evidence
    samples = []
    if impl is not None:
        step = max(1, len(cases) // 4)
        for i in list(range(0, len(cases), step))[:4]:
            samples.append({"op": prop.gen.describe(cases[i]), "case": cases[i],
                            "impl_output": impl[i] if i < len(impl) else None,
                            "model_output": model[i] if model and i < len(model) else None})
    n_thm = len(pr["theorems"])
    coverage = {
        "obligations": max(1, n_thm),
        "discharged": n_thm if proof_ok else 0,
        "checker_cmd": "cd coq && make %s.vo (coqc 8.16.1, full .vo build) ; Print Assumptions under every theorem" % prop.prop_file[:-2],
        "trusted_base": prop.trusted_base + [
            "Print Assumptions: " + ("; ".join("%s: %s" % (k, ", ".join(v) if v else "closed under the global context")
                                               for k, v in sorted(pr["assumptions"].items())) or "n/a")],
        "theorems": pr["theorems"],
        "evaluations": len(cases),
        "corpus_cases": len(corpus),
        "distinct_nontrivial": len(distinct),
        "rule": prop.rule,
        "samples": samples,
        "traces_validated_against_impl": len(cases) - len(disagreements) if (impl is not None and model is not None) else 0,
        "disagreements": len(disagreements),
        "oracle_violations": len(oracle_hits),
        "known_findings_seen": sorted(known_seen),
        "input_distribution": hist,
        "result_kinds": kinds,
        "harness_aborts": aborts,
        "release_profile_pass": impl_rel is not None,
        "coqchk": chk,
        "notes": notes,
    }
    vlib.write_evidence(getattr(prop, "evidence_name", pid), tier, seed, coverage, prop.assumptions,
                        time.time() - t0, n_viol)
    for n in notes:
        log("NOTE: " + n)
    for l in lines:
        log(l)
    log("%s %s: %d cases (%d corpus), %d distinct non-trivial, %d disagreements, %d oracle violations, "
        "%d theorems %s, %.1fs" % (pid, tier, len(cases), len(corpus), len(distinct), len(disagreements),
                                   len(oracle_hits), n_thm, "checked" if proof_ok else "NOT CHECKED",
                                   time.time() - t0))
    return 1 if n_viol else 0


def _w(outdir, case):
    p = os.path.join(outdir, "one.txt")
    vlib.write_cases(p, [case])
    return p


def run_multi(pid, parts, tier, seed, replay=None):
    """a property decided by several engines (each a DiffProp with the same `pid`
    and its own `evidence_name` / `corpus_name`): run all, merge the evidence into
    evidence/<pid>.json, exit 1 if any part reports a violation"""
    rc = 0
    merged = None
    t0 = time.time()
    for part in parts:
        if replay:
            # a replay file belongs to the part whose out/ directory holds it
            if os.sep + part.evidence_name + os.sep not in os.path.abspath(replay):
                continue
        r = run(part, tier, seed, replay)
        rc = max(rc, r)
        epath = os.path.join(vlib.ROOT, "evidence", part.evidence_name + ".json")
        ev = json.load(open(epath))
        os.remove(epath)
        cov = ev["coverage"]
        if merged is None:
            merged = ev
            merged["coverage"]["parts"] = {part.evidence_name: {k: cov.get(k) for k in
                                           ("evaluations", "distinct_nontrivial", "disagreements",
                                            "oracle_violations", "theorems", "rule")}}
            continue
        m = merged["coverage"]
        if getattr(part, "prop_file", None) != getattr(parts[0], "prop_file", None):
            for k in ("obligations", "discharged"):
                m[k] = m.get(k, 0) + cov.get(k, 0)
        else:
            # the parts share one property file: its theorems count once
            m["discharged"] = min(m.get("discharged", 0), cov.get("discharged", 0))
        for k in ("evaluations", "corpus_cases", "distinct_nontrivial",
                  "traces_validated_against_impl", "disagreements", "oracle_violations", "harness_aborts"):
            m[k] = m.get(k, 0) + cov.get(k, 0)
        for k in ("trusted_base", "theorems", "samples", "known_findings_seen", "notes"):
            m[k] = m.get(k, []) + [x for x in cov.get(k, []) if x not in m.get(k, [])]
        m["rule"] = m.get("rule", "") + " || " + cov.get("rule", "")
        m["checker_cmd"] = m.get("checker_cmd", "") + " ; " + cov.get("checker_cmd", "")
        m["input_distribution"] = dict(m.get("input_distribution", {}), **cov.get("input_distribution", {}))
        m["parts"][part.evidence_name] = {k: cov.get(k) for k in
                                          ("evaluations", "distinct_nontrivial", "disagreements",
                                           "oracle_violations", "theorems", "rule")}
        merged["assumptions"] = merged.get("assumptions", []) + [a for a in ev.get("assumptions", [])
                                                                 if a not in merged.get("assumptions", [])]
        merged["violations"] = merged.get("violations", 0) + ev.get("violations", 0)
    if merged is not None:
        merged["property_id"] = pid
        merged["wall_s"] = round(time.time() - t0, 2)
        vlib.write_json(os.path.join(vlib.ROOT, "evidence", pid + ".json"), merged)
    return rc
