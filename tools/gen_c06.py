"""Program generator for C06 (shared descriptors).  Case formats: coq/model/RunC06.v,
harness/rt/src/bin/c06.rs.

kind 1  [1; (op arg)*]            SharedFd<OwnedFd>, no runtime
kind 2  [2; drv; obj; (op arg)*]  pipe Receiver / UnixStream in a Runtime (drv 0 io_uring, 1 polling)
kind 3  [3; drv; op*]             accept under cancellation
kind 4  [4; sub; drv; a; b]       timing-dependent programs (oracle only)
kind 5  [5; drv; op*]             multishot accept (Incoming): queued connections vs drop points
"""
import random

OPN = {1: "clone", 2: "drop", 3: "opstart", 4: "opfinish", 5: "take", 6: "close", 7: "poll",
       8: "futdrop", 9: "ownerdrop", 11: "try_unwrap", 12: "opcancel", 13: "switch-waker"}


class Sim:
    """bookkeeping mirror used only to keep generated programs mostly enabled"""

    def __init__(self):
        self.handles = 1
        self.ops = 0
        self.closers = []   # 'fut' | 'got' | 'none'

    def enabled(self, op, arg):
        if op in (1, 3, 5, 6, 11):
            return self.handles > 0
        if op == 2:
            return self.handles > 0
        if op in (4, 12):
            return self.ops > 0
        if op in (7, 8, 13):
            return arg < len(self.closers) and self.closers[arg] == "fut"
        if op == 9:
            return arg < len(self.closers) and self.closers[arg] == "got"
        return False


def gen_fd_program(rng, rt):
    sim = Sim()
    steps = []
    n = rng.randrange(3, 16)
    style = rng.random()
    wakers = rng.random() < 0.5      # programs in which futures change wakers between polls
    for _ in range(n):
        alive = [i for i, c in enumerate(sim.closers) if c == "fut"]
        got = [i for i, c in enumerate(sim.closers) if c == "got"]
        r = rng.random()
        cand = []
        if sim.handles > 0:
            cand += [(1, 0)] * 3 + [(2, 0)] * 3 + [(3, rng.choice([0, 0, 1]))] * 2
            cand += [(6 if (rt and rng.random() < 0.7) else 5, 0)] * (3 if len(sim.closers) < 3 else 1)
            if not rt:
                cand += [(11, 0)]
        if sim.ops > 0:
            cand += [(4, 0)] * 3 + [(12, 0)]
        for c in alive:
            cand += [(7, c)] * 4 + [(8, c)] + [(13, c)] * (2 if wakers else 0)
        for c in got:
            cand += [(9, c)] * 2
        if r < 0.05 or not cand:
            # an adversarial (possibly disabled) step
            op = rng.choice([1, 2, 3, 4, 5, 7, 8, 9, 12, 13] + ([6] if rt else [11, 6]))
            arg = rng.randrange(0, 4)
            steps.append((op, arg))
        else:
            if style < 0.3 and alive and sim.handles + sim.ops > 0 and rng.random() < 0.5:
                # drive towards the interesting moment: release the others, then poll
                op, arg = rng.choice([(2, 0)] if sim.handles else [(4, 0)])
                if not sim.enabled(op, arg):
                    op, arg = rng.choice(cand)
            else:
                op, arg = rng.choice(cand)
            steps.append((op, arg))
        op, arg = steps[-1]
        if op == 6 and not rt:
            continue
        if not sim.enabled(op, arg):
            continue
        if op == 1:
            sim.handles += 1
        elif op == 2:
            sim.handles -= 1
        elif op == 3:
            sim.ops += 1
        elif op in (4, 12):
            sim.ops -= 1
        elif op in (5, 6):
            sim.handles -= 1
            sim.closers.append("fut")
        elif op == 7:
            # outcome unknown to the generator: assume it may complete when nobody else is left
            others = sim.handles + sim.ops + sum(1 for i, c in enumerate(sim.closers) if i != arg and c != "none")
            if others == 0:
                sim.closers[arg] = "got" if rng.random() < 0.5 else "none"
        elif op == 8:
            sim.closers[arg] = "none"
        elif op == 9:
            sim.closers[arg] = "none"
        elif op == 11:
            if sim.handles == 1 and sim.ops == 0 and not any(c != "none" for c in sim.closers):
                sim.handles -= 1
                sim.closers.append("got")
    flat = []
    for (o, a) in steps:
        flat += [o, a]
    return flat


def gen_multishot(rng):
    """k peers connect, the user pulls j <= k, then the stream is dropped / the runtime goes"""
    ops = []
    style = rng.random()
    if style < 0.6:
        k = rng.randrange(1, 6)
        j = rng.randrange(0, k + 1)
        pre = rng.randrange(0, k + 1) if rng.random() < 0.4 else 0   # peers that connect before the first poll
        ops += [3] * pre
        ops += [1]
        if rng.random() < 0.8:
            ops += [4]
        ops += [3] * (k - pre)
        if rng.random() < 0.8:
            ops += [4]
        for _ in range(j):
            ops += [1]
            if rng.random() < 0.3:
                ops += [4]
        if rng.random() < 0.3:
            ops += [1]
        if rng.random() < 0.3:
            ops += [5] * rng.randrange(0, j + 1)
        ops += [2]
        tail = rng.random()
        if tail < 0.4:
            ops += [4]
        elif tail < 0.7:
            ops += [6]
        elif tail < 0.85:
            ops += [4, 6]
        ops += [5] * rng.randrange(0, 3)
    else:
        conn = 0
        for _ in range(rng.randrange(3, 12)):
            o = rng.choice([1, 1, 1, 2, 3, 3, 4, 4, 4, 5, 6])
            if o == 3:
                if conn >= 6:
                    o = 4
                else:
                    conn += 1
            ops.append(o)
    if ops.count(3) > 6:
        ops = [o for o in ops if o != 3] + []
    return ops


def gen_accept(rng):
    n = rng.randrange(2, 10)
    ops = []
    connected = False
    for _ in range(n):
        o = rng.choice([1, 1, 1, 2, 3, 4, 4, 4, 5, 6])
        if o == 3:
            if connected:
                o = 4
            connected = True
        ops.append(o)
    return ops


K4 = ([[4, 0, d, a, b] for d in (0, 1) for a in (0, 1, 2) for b in range(6)] +
      [[4, 1, d, a, b] for d in (0, 1) for a in (1, 3) for b in (0, 1)] +
      [[4, 2, d, a, b] for d in (0, 1) for a in (2, 3, 5) for b in (0, 1)] +
      [[4, 3, d, a, b] for d in (0, 1) for a in (1, 10) for b in (0, 1)] +
      [[4, 4, d, 0, 0] for d in (0, 1)] +
      [[4, 5, d, a, b] for d in (0, 1) for a in (1, 3) for b in (0, 1, 2, 3)])


def generate(seed, n):
    rng = random.Random(seed * 7919 + 6)
    cases = []
    k4 = list(K4)
    rng.shuffle(k4)
    n4 = min(len(k4), max(4, n // 12))
    for i in range(n):
        r = rng.random()
        if i % 12 == 11 and k4 and n4 > 0:
            cases.append(k4.pop())
            n4 -= 1
        elif r < 0.40:
            cases.append([1] + gen_fd_program(rng, False))
        elif r < 0.74:
            cases.append([2, rng.choice([0, 0, 1]), rng.choice([0, 1])] + gen_fd_program(rng, True))
        elif r < 0.86:
            cases.append([3, rng.choice([0, 0, 1])] + gen_accept(rng))
        else:
            cases.append([5, rng.choice([0, 0, 1])] + gen_multishot(rng))
    return cases


def describe(case):
    k = case[0] if case else 0
    if k == 1:
        ops = case[1::2]
        return "sharedfd/" + ("wakers/" if 13 in ops else "") + ("two-closers" if sum(1 for o in ops if o == 5) > 1 else
                              "closer" if 5 in ops else "try_unwrap" if 11 in ops else "plain")
    if k == 2:
        ops = case[3::2]
        return ("uring" if case[1] == 0 else "poll") + "/" + ("pipe" if case[2] == 0 else "unix") + "/" + \
            ("wakers/" if 13 in ops else "") + ("close+take" if (6 in ops and 5 in ops) else "close" if 6 in ops else "take" if 5 in ops else "plain")
    if k == 3:
        return "accept/" + ("uring" if case[1] == 0 else "poll") + ("/rtdrop" if 6 in case[2:] else "")
    if k == 5:
        return "multishot/" + ("uring" if case[1] == 0 else "poll") + ("/rtdrop" if 6 in case[2:] else "")
    if k == 4:
        return "timing/%s" % {0: "produce-cancel", 1: "close-mqueue", 2: "concurrent-close", 3: "close-unpolled",
                              4: "close-vs-inflight", 5: "future-moved-between-wakers"}.get(case[1], "?")
    return "malformed"


def nontrivial(case, out):
    if not out or out[0] == 99999 or (out[:1] == [2] and len(out) == 2):
        return False
    k = case[0]
    out = out[2:]
    if k in (1, 2):
        steps = [out[i:i + 5] for i in range(0, len(out) - 1, 5)]
        # some future was polled and the descriptor got closed before the final teardown or a poll completed
        return any(s[2] != 0 for s in steps) or any(s[1] == 0 for s in steps)
    if k == 3:
        return 1 in case[2:] and 3 in case[2:]
    if k == 5:
        return 1 in case[2:] and 3 in case[2:] and 2 in case[2:]
    return True
