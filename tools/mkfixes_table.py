#!/usr/bin/env python3
"""(dev-time) regenerate the complete list of repaired defects and recorded findings in DESIGN.md §8.1
from known_findings.json (between <!-- fixes-table-begin --> and <!-- fixes-table-end -->)."""
import json, os, re
ROOT = os.path.dirname(os.path.dirname(os.path.abspath(__file__)))
d = json.load(open(os.path.join(ROOT, "known_findings.json")))
def esc(t): return " ".join(str(t).split()).replace("|", "/")
rows = ["| prop | commit | what failed (as recorded in known_findings.json `fixed`) |", "|---|---|---|"]
for f in d["fixed"]:
    m = re.match(r"fixed: property=(\S+) (\S+) (.*)", f, re.S)
    rows.append("| %s | `%s` | %s |" % (m.group(1), m.group(2), esc(m.group(3))[:420]))
rows += ["", "| known finding (printed as KNOWN-FINDING, exit 0) | prop | what |", "|---|---|---|"]
for k in d["known"]:
    rows.append("| %s | %s | %s |" % (k["id"], k["property"], esc(k["what"])[:420]))
p = os.path.join(ROOT, "DESIGN.md")
s = open(p).read()
s = re.sub(r"<!-- fixes-table-begin -->.*<!-- fixes-table-end -->",
           "<!-- fixes-table-begin -->\n" + "\n".join(rows) + "\n<!-- fixes-table-end -->", s, flags=re.S)
open(p, "w").write(s)
print(len(d["fixed"]), "fixed,", len(d["known"]), "known")
