"""C08 — file and pipe I/O matches the OS, identically on every driver."""
import diffcheck
import gen_c08

RUNS = ["B (compio on the polling driver)",
        "C (compio on io_uring with the fs opcodes forced onto the thread-pool fallback)",
        "D (std::fs / libc, the OS's own synchronous calls)"]


def split(out):
    """-> (results, [(flag, idx)] for B, C, D) or None"""
    if len(out) < 6:
        return None
    t = out[-6:]
    return out[:-6], [(t[0], t[1]), (t[2], t[3]), (t[4], t[5])]


def read_caps(t, d):
    """capacities of the buffers a read-type operation prints, or None"""
    if t in (3, 19, 25):
        return [d["rb"][2]]
    if t in (5, 21, 26):
        return [m[1] for m in d["rv"]]
    return None


def window_len(rb):
    shape, ln, cap, a, b = rb
    return {0: cap, 1: cap - a, 2: min(b, cap) - a}.get(shape, cap - ln)


def split_ops(case, out):
    """-> (per-operation token lists, tree tokens, flag tokens) of a well-formed result"""
    ops = gen_c08.decode_ops(case)
    body, flags = out[:-6], out[-6:]
    i, parts = 0, []
    for t, d in ops:
        st = body[i]
        if st in (3, 4):
            n = 1
        else:
            n = 2
            caps = read_caps(t, d)
            if caps is not None:
                n += sum(1 + c for c in caps)
            elif st == 0 and t in (9, 10):
                n = 4
            elif st == 0 and t in (30, 32):
                n = 2 + body[i + 1]
        parts.append(body[i:i + n])
        i += n
    return parts, body[i:], flags


def op_at(case, idx):
    """name of the 1-based operation index reported by the harness"""
    try:
        ops = gen_c08.decode_ops(case)
    except (IndexError, KeyError):
        return None, "?"
    if idx == 9998:
        return None, "the run hung (watchdog)"
    if idx == 9999:
        return None, "the run panicked"
    if 1 <= idx <= len(ops):
        t, d = ops[idx - 1]
        return t, "operation #%d %s" % (idx, gen_c08.OPNAME[t])
    return None, "the final directory tree / file contents"


def oracle(case, out):
    if out[:1] == [99999]:
        return None
    if out == [2, 8]:
        return "the designated run (compio on io_uring) hung: no result within the watchdog"
    if out[:1] == [2] and len(out) == 2:
        return "the designated run (compio on io_uring) panicked (code %d)" % out[1]
    s = split(out)
    if s is None:
        return "malformed result %r" % (out,)
    _, flags = s
    (fb, ib), (fc, _), (fd, id_) = flags
    if fb == 0 and fd == 0 and fc == 1 and ib == id_:
        _, name = op_at(case, ib)
        return ("compio on io_uring (runs A and C, the kernel's ring) answers differently from the syscalls "
                "(run B polling driver and run D the OS's own calls) at %s" % name)
    for which, (flag, idx) in enumerate(flags):
        if flag != 1:
            _, name = op_at(case, idx)
            if which == 2:
                return ("compio on io_uring differs from the OS's own synchronous calls at %s "
                        "(count / error kind / buffer bytes / file contents)" % name)
            return "run %s differs from compio on io_uring at %s" % (RUNS[which], name)
    return None


class C08(diffcheck.DiffProp):
    pid = "C08"
    manifest = dict(
        text="Coq: a reference semantics of files (pread/pwrite with zero-filled holes, cursor, O_APPEND, ftruncate, vectored forms as sequential composition), pipes (FIFO with capacity and EOF), open-option flag composition and a small POSIX name space, with machine-checked laws (write-then-read, truncate/extend, append positions, vectored = sequential), and a GLUE theorem over compio's buffer-view model: for every buffer shape (Vec with len <= cap, slice / uninit views, vectored layouts) and every OS answer n <= offered length the BufResult and buffer are exactly what the reference predicts (bytes at the start of the offered window, everything else untouched, length = max(old, n)); the mapping is one function of the OS answer for all three drivers. Tie to the code: every generated operation sequence is executed four ways (compio-fs on io_uring, on the polling driver, on io_uring with the fs opcodes forced onto the thread-pool fallback, and std::fs/libc) in fresh directories and by the extracted reference; all five must agree token for token.",
        note="PARTIAL. PROVED (Coq, no axioms): self-consistency laws of the reference; the glue (offered ranges, map_advanced / map_vec_advanced length rule incl. vectored distribution, u32 clamp on io_uring never offers more than the buffer, open-flag table total and equal to std's OpenOptions; the mode is handed to openat unchanged with every flag word, the kernel consumes it for O_CREAT and O_TMPFILE and the created file gets mode & ~umask; create_dir_all on a path that is already a directory through symbolic links is Ok and changes nothing) maps ANY OS answer to the reference's prediction; driver independence of that mapping IN THE MODEL. ONLY OBSERVED (differential run, sampled operation sequences on this kernel/file system, uid 0): that the kernel behaves like the reference, that the three compio code paths (ring SQE, readiness + syscall / blocking pool, call_blocking fallback) agree with each other and with the OS, the name-space utilities (create_dir(_all), remove_*, rename, hard_link, symlink, metadata, set_permissions), error kinds. The fallback of Read/Write/Readv/Writev/Fsync cannot be forced (call_blocking is unreachable!() for them); run C forces it for OpenAt, Close, Statx, Ftruncate, UnlinkAt, MkDirAt, RenameAt, SymlinkAt, LinkAt, Pipe through the cfg(compio_verif) hook compio_driver::verif_mask. compio-fs has no OpenOptions::append (O_APPEND goes through custom_flags). Vectored reads into members that are not in sequential-fill order fall under C10's known finding (advance_vec_to no-op); the model is faithful to the code there and the OS comparison ignores Vec lengths. Pipes are kept below 4 KiB in flight (capacity effects belong to C20). Sequential (cursor) file operations are exercised through compio_runtime::fd::AsyncFd over a dup of the compio-opened descriptor (compio_fs::File itself is positional only). Known finding C08-iour-zero-length-read-of-directory: a zero-length read through a directory handle is Ok(0) on the kernel's ring and IsADirectory through read(2)/pread(2) (kernel behaviour passed through by compio). Trusted: Coq kernel, extraction + driver, harness/rt/src/bin/c08.rs, tools/gen_c08.py, tools/p_c08.py.",
        technique="Coq glue proof over a reference specification + 4-way differential correspondence (io_uring / polling / forced thread-pool fallback / std+libc) against the extracted reference")
    prop_file = "prop/C08.v"
    model_name = "c08"
    harness_bin = "c08"
    package = "rt"
    gen = gen_c08
    counts = {"quick": 400, "thorough": 12000}
    shards = 8
    thorough_release = False
    rule = ("cases = corpus (witnesses of the defects found) + random operation sequences (3..28 operations over 4 file "
            "slots, 2 pipes, 6 names up to depth 3; 80% stateful-plausible, 20% adversarial open bits): positional and "
            "sequential single/vectored reads and writes with offsets beyond EOF, length 0, len != cap, slice / uninit "
            "views, set_len, sync, metadata, open/create/create_new/append/truncate combinations, directory utilities, "
            "anonymous pipes with partial reads, a read into a 4 GiB+k capacity; 10% of the cases = OpenOptions with mode x custom_flags (O_TMPFILE, O_NOFOLLOW, O_DIRECTORY, O_EXCL, O_APPEND) on existing / missing / symlink / directory paths with the resulting st_mode compared; 10% = directory utilities (create_dir_all, create_dir, remove_*, rename, hard_link, symlink, metadata vs symlink_metadata) on a tree with a directory, a file, links to both and a dangling link, as final or intermediate component; every case runs 4 ways + the reference; "
            "distinct = distinct case lines; non-trivial = at least two operations and one beyond open/close")
    trusted_base = [
        "Coq 8.16.1 kernel (coqc, full .vo build); vm_compute only in examples",
        "extraction: ExtrOcamlBasic only; coq/extract/driver.ml; ocamlfind ocamlopt",
        "harness/rt/src/bin/c08.rs (4 executions, delegating AnyBuf wrapper, tree dump), tools/gen_c08.py, tools/p_c08.py, tools/diffcheck.py",
        "the OS (Linux kernel, the file system under std::env::temp_dir()) as the oracle of file semantics",
        "cfg(compio_verif) hook compio_driver::verif_mask (masks io_uring opcodes as unsupported)",
        "C10's buffer-view model coq/model/Buf.v and its theorems (imported)",
    ]
    assumptions = [
        "the OS answers a read with n <= offered length bytes placed at the start of the offered window (kernel contract)",
        "the runs are executed as uid 0 on Linux (permission bits do not restrict access) with umask 0o022 (set by the harness); directory modes are constant 0o755",
        "no concurrent modification of the temporary directories; regular-file writes are never short (no ENOSPC/EINTR)",
        "io_uring, the polling driver and the blocking pool are compared on the same kernel; only this kernel's behaviour is observed",
    ]

    def oracle(self, case, out):
        return oracle(case, out)

    def zero_read_of_directory(self, case, out):
        """the one known class: a zero-length read through a directory handle.  The
        kernel's io_uring read answers 0 where read(2)/pread(2) answer EISDIR, so runs
        A and C (ring) say Ok(0), runs B and D (syscall) say IsADirectory.  Returns the
        1-based operation index or None."""
        s = split(out)
        if s is None:
            return None
        (fb, ib), (fc, _), (fd, id_) = s[1]
        if not (fb == 0 and fd == 0 and fc == 1 and ib == id_):
            return None
        try:
            ops = gen_c08.decode_ops(case)
            parts, _, _ = split_ops(case, out)
        except (IndexError, KeyError):
            return None
        if not 1 <= ib <= len(ops):
            return None
        t, d = ops[ib - 1]
        if t in (3, 19) and window_len(d["rb"]) == 0 and parts[ib - 1][:2] == [0, 0]:
            return ib
        return None

    def known(self, case, out, what):
        if out and self.zero_read_of_directory(case, out) is not None:
            return "C08-iour-zero-length-read-of-directory"
        return None

    def model_expected(self, case, out):
        """what the reference (= the OS's synchronous calls) must print for this
        implementation output: identical, except inside the known class where the
        designated io_uring run itself deviates from the OS at one operation"""
        idx = self.zero_read_of_directory(case, out) if out else None
        if idx is None:
            return out
        parts, tree, _ = split_ops(case, out)
        parts[idx - 1] = [1, 33] + parts[idx - 1][2:]
        return [x for p in parts for x in p] + tree + [1, 0, 1, 0, 1, 0]


PROP = C08()
