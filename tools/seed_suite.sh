#!/bin/sh
# dev helper: run the project's pinned test suite (the baseline command) with a seeded change applied,
# in a reused scratch worktree (so cargo rebuilds incrementally). usage: tools/seed_suite.sh <seed-dir>...
WT=${SEEDSUITE_WT:-/tmp/seedsuite_wt}
export CARGO_TARGET_DIR=${SEEDSUITE_TARGET:-/verif/target/seedsuite} CARGO_NET_OFFLINE=true
[ -d $WT ] || git -C /repo worktree add -q --detach $WT HEAD || exit 2
git -C $WT checkout -q -f --detach $(git -C /repo rev-parse HEAD) || exit 2
for SD in "$@"; do
  SD=$(readlink -f $SD); S=$(basename $SD)
  git -C $WT checkout -q -- . ; git -C $WT clean -fdq -e target
  if [ "$S" != "UNCHANGED" ]; then git -C $WT apply $SD/patch.diff || { echo "$S: PATCH DOES NOT APPLY"; continue; }; fi
  R=$(cd $WT && nice -n 5 timeout 3000 cargo nextest run --workspace --no-fail-fast --tool-config-file pb:/w/lib/nextest.toml --profile pb --test-threads 8 --offline 2>&1 | grep -E "Summary|^\s+(FAIL|TIMEOUT|SIGABRT|SIGSEGV)|error(\[|:)" | sort | uniq | head -6 | tr '\n' ';')
  echo "$S: $R"
done
git -C $WT checkout -q -- .
