"""Case generator for C10 (buffer views) + the executable CONTRACT of the property text.

One case = list of ints (format: coq/model/RunC10.v).  The spec classes below say what
the property text promises (a view is a window of the root allocation whose initialised
part is a prefix of its writable part; recording a fill makes exactly the written bytes
visible); they never look at compio's code.  The generator uses them to pick in-range
parameters, the oracle (p_c10.py) to judge the implementation's printed ranges.

70 % in-contract programs, 30 % adversarial (out-of-range begin/end, fills beyond the
capacity, raw set_len, members in arbitrary fill states).
"""
import random


def canary(i):
    return 128 + (i % 100)


def pat(j, i):
    return 1 + ((j * 17 + i) % 120)


class Leave(Exception):
    """the program leaves the contract (caller error): nothing is promised from here on"""


POOL = 6   # compio_driver::BufferRef (pool part, harness c10b)


class Member:
    """a root allocation: `cap` = capacity the buffer reports (for a pool buffer the user-set
    one), `full` = size of the allocation"""

    def __init__(self, kind, ln, cap, full=None):
        self.kind, self.rlen, self.cap = kind, ln, cap
        self.full = cap if full is None else full
        self.img = [canary(i) for i in range(self.full)]

    def growable(self):
        return self.kind in (0, 4, 5)

    def grow(self, newcap):
        """a growing reserve: the initialised bytes move to a new allocation of `newcap` bytes;
        the harness refills the spare part with canaries"""
        self.img = self.img[:self.rlen] + [canary(i) for i in range(self.rlen, newcap)]
        self.cap = self.full = newcap

    def bump(self, off, ln):
        for i in range(off, off + ln):
            self.img[i] = (self.img[i] + 1) % 256

    def set_capacity(self, n):
        """BufferRef::set_capacity: nothing for 0, else capacity = min(n, full size) and the
        length is cut down to it; the content stays"""
        if self.kind != POOL or n == 0:
            return
        self.cap = min(n, self.full)
        self.rlen = min(self.rlen, self.cap)


class Window:
    """a buffer view per the property text: window [o, E) of a member's allocation;
    init = [o, min(rlen, E)), writable = [o, min(cap, E))"""

    def __init__(self, m, o0=0):
        self.m, self.o, self.E = m, o0, None
        self.has_uninit = False
        self.filled_after_uninit = False
        self.layers = []     # 'S' / 'U', innermost first
        self.fixed_base = False   # the base buffer cannot grow (a VectoredBufIter position)

    def flatten(self):
        """Slice<Slice<T>>::flatten: the same window, one layer less"""
        if self.layers[-2:] == ['S', 'S']:
            self.layers.pop()
            return True
        return False

    def rng(self):
        e = self.m.cap if self.E is None else min(self.E, self.m.cap)
        ei = min(self.m.rlen, e)
        return self.o, max(ei - self.o, 0), max(e - self.o, 0)

    def slice(self, b, e):
        o, l, c = self.rng()
        if b > l or (e is not None and b > e):
            raise Leave
        if e is not None:
            self.E = o + e if self.E is None else min(self.E, o + e)
        self.o = o + b
        self.layers.append('S')

    def uninit(self):
        o, l, c = self.rng()
        self.o = o + l
        self.has_uninit = True
        self.layers.append('U')

    def write(self, j, k):
        o, l, c = self.rng()
        for i in range(min(k, c)):
            self.m.img[o + i] = pat(j, i)

    def fill_to(self, j, k):
        """write k bytes at the start of the writable part, record with advance_to(k)"""
        o, l, c = self.rng()
        if k > c:
            raise Leave
        self.write(j, k)
        self.m.rlen = max(self.m.rlen, o + k)
        if k > 0 and self.has_uninit:
            self.filled_after_uninit = True

    def reserve_ok(self, k):
        """IoBufMut::reserve per the text: a fixed-capacity buffer accepts a request iff it fits
        into the SPARE capacity (capacity - initialised length); a growable one always; a slice
        with an end refuses (documented: "Cannot reserve on a fixed-size slice")"""
        if self.E is not None:
            return False
        return (self.m.growable() and not self.fixed_base) or k <= self.m.cap - self.m.rlen

    def extend(self, j, k):
        """extend_from_slice of k bytes that reserve accepted: appended behind the initialised
        bytes of the view"""
        o, l, c = self.rng()
        for i in range(k):
            self.m.img[o + l + i] = pat(j, i)
        self.m.rlen = max(self.m.rlen, o + l + k)
        if k > 0 and self.has_uninit:
            self.filled_after_uninit = True

    def fill_adv(self, j, k):
        """record with advance(k): the caller must have initialised [len, len+k)"""
        o, l, c = self.rng()
        if k > c or (l > 0 and k > 0):
            raise Leave
        self.fill_to(j, k)


KIND_NAMES = {0: "Vec", 1: "[u8;N]", 2: "Box<[u8]>", 3: "ArrayVec", 4: "SmallVec", 5: "BytesMut"}
CONT_NAMES = {0: "Vec<T>", 1: "(T,(T,))", 2: "(T,(T,()))"}


def fixed(kind):
    return kind in (1, 2)


class VSpec:
    """vectored view per the docs of IoVectoredBuf::slice / IoVectoredBufMut::slice_mut:
    the members from index f on, the first one from offset off"""

    def __init__(self, ms):
        self.ms = ms
        self.f, self.off = 0, 0

    def offs(self):
        return [(i, self.off if i == self.f else 0) for i in range(self.f, len(self.ms))]

    def init_ranges(self):
        return [(i, o, max(self.ms[i].rlen - o, 0)) for i, o in self.offs()]

    def uninit_ranges(self):
        return [(i, o, self.ms[i].cap - o) for i, o in self.offs()]

    def total_len(self):
        return sum(n for _, _, n in self.init_ranges())

    def total_cap(self):
        return sum(n for _, _, n in self.uninit_ranges())

    def slice(self, begin, mutable):
        rs = self.uninit_ranges() if mutable else self.init_ranges()
        if begin > sum(n for _, _, n in rs):
            raise Leave
        offset = begin
        for (i, o, n) in rs:
            if n > offset:
                self.f, self.off = i, o + offset
                return
            offset -= n
        self.f, self.off = len(self.ms), 0

    def nonseq(self):
        """some member that is not full is followed by a non-empty one"""
        gap = False
        for m in self.ms:
            if gap and m.rlen > 0:
                return True
            if m.rlen < m.cap:
                gap = True
        return False

    def uninit_offset(self):
        """the view skips capacity that is not initialised: it starts inside the
        uninitialised part of its first member, or a member it skipped is not full"""
        if any(m.rlen < m.cap for m in self.ms[:self.f]):
            return True
        return self.f < len(self.ms) and self.off > self.ms[self.f].rlen

    def fill(self, j, n):
        """readv of n bytes + advance_vec_to(n)"""
        if n > self.total_cap():
            raise Leave
        w = 0
        for (i, o, c) in self.uninit_ranges():
            k = min(c, n - w)
            for t in range(k):
                self.ms[i].img[o + t] = pat(j, w + t)
            if k > 0:
                self.ms[i].rlen = max(self.ms[i].rlen, o + k)
            w += k


# ---------------------------------------------------------------------------
# generation

def gen_root(rng, vectored=False):
    kind = rng.choice([0, 0, 0, 1, 2, 3, 4, 5])
    if kind in (1, 3):
        cap = rng.choice([0, 1, 2, 4, 7, 8, 12, 16])
    elif kind == 4:
        cap = rng.choice([4, 4, 5, 8, 12])
    else:
        cap = rng.choice([0, 1, 2, 3, 5, 8, 10, 12])
    if fixed(kind):
        ln = cap
    else:
        ln = rng.choice([0, 0, cap, rng.randrange(0, cap + 1)])
    return kind, ln, cap


def gen_steps(rng, adv, w, flat_bias=False, rsv_bias=False, view_bias=False):
    """steps of a buffer / pool case over the window `w` (its member gives kind and sizes)"""
    kind, cap = w.m.kind, w.m.full
    steps = []
    j = 0
    alive = True   # still inside the contract (parameters are then chosen in range)
    for _ in range(rng.randrange(2, 9 if flat_bias else 8)):
        cap = w.m.full
        o, l, c = w.rng() if alive else (0, cap, cap)
        r = rng.random()
        wild = adv and rng.random() < 0.25
        # set_len beyond the capacity of a Vec aborts the harness process (std's precondition
        # check): keep such steps rare so that the thorough tier stays below the abort budget
        touchy = kind == 0 and (not alive or w.filled_after_uninit) and rng.random() < 0.85
        if touchy and r >= 0.42:
            r = 0.99
        if kind == 0 and wild and rng.random() < 0.85:
            wild = False
        if alive and rng.random() < (0.45 if rsv_bias else 0.08):
            # reserve family: request around the spare capacity / the capacity
            spare = max(w.m.cap - w.m.rlen, 0)
            k = rng.choice([0, 1, max(spare - 1, 0), spare, spare, spare + 1, spare + 1, w.m.cap, w.m.cap + 1,
                            w.m.cap + 5, rng.randrange(0, w.m.cap + 3)])
            code = rng.choice([8, 8, 8, 9, 10, 10])
            steps.append((code, k, 0))
            ok = w.reserve_ok(k)
            if ok and w.m.growable() and k > spare:
                # generator-side guess of the new capacity (the oracle reads it from the output)
                w.m.grow(max(8, 2 * w.m.cap, w.m.rlen + k))
            if code != 9:
                if ok:
                    w.extend(j, k)
                j += 1
            continue
        if rng.random() < (0.35 if view_bias else 0.08):
            steps.append((rng.choice([11, 11, 12]), 0, 0))
            continue
        nested = w.layers[-2:] == ['S', 'S']
        if nested and rng.random() < (0.6 if flat_bias else 0.35):
            steps.append((6, 0, 0))
            w.flatten()
            continue
        if kind == POOL and rng.random() < 0.22:
            full = w.m.full
            n = rng.choice([0, 1, full, full + 3, rng.randrange(1, full + 1), rng.randrange(1, full + 1),
                            max(1, w.m.rlen - 1), 2 ** 32, 2 ** 32 + rng.randrange(1, 5), 2 ** 40 + 7])
            if w.layers and n != 0 and min(n, full) < w.m.rlen and rng.random() < 0.7:
                n = full                  # mostly keep the bytes a view may be looking at
            steps.append((7, n, 0))
            w.m.set_capacity(n)
            continue
        try:
            if r < (0.45 if flat_bias else 0.30):
                b = rng.randrange(0, cap + 3) if wild else rng.randrange(0, l + 1)
                if flat_bias and not wild and l > 0 and rng.random() < 0.5:
                    b = rng.randrange(1, l + 1)
                if rng.random() < 0.5:
                    e = None
                else:
                    e = rng.randrange(0, cap + 4) if wild else rng.choice([b, b + 1, rng.randrange(b, cap + 3), c,
                                                                           c + 2, cap + 5])
                    if not wild and e < b:
                        e = b
                steps.append((1, b, 0 if e is None else e + 1))
                if alive:
                    w.slice(b, e)
            elif r < (0.50 if flat_bias else 0.42):
                steps.append((2, 0, 0))
                if alive:
                    w.uninit()
            elif r < 0.80:
                # a fill beyond the capacity aborts the process for Vec: keep those rare
                k = rng.randrange(0, cap + 3) if (wild and rng.random() < 0.3) else rng.randrange(0, c + 1)
                if not wild and c > 0 and rng.random() < 0.6:
                    k = rng.randrange(1, c + 1)
                steps.append((3, k, 0))
                if alive:
                    w.fill_to(j, k)
                j += 1
            elif r < 0.88:
                room = max(c - l, 0) if (alive and w.has_uninit is False and l > 0) else c
                k = rng.randrange(0, room + 1)
                steps.append((4, k, 0))
                if alive:
                    w.fill_adv(j, k)
                j += 1
            elif r < 0.93:
                k = rng.randrange(0, c + 1)
                steps.append((5, k, 0))
                j += 1
                # generator-side bookkeeping only (the oracle re-synchronises from the output)
                m = w.m
                if m.kind in (0, 5):
                    m.rlen = o + k
                elif m.kind in (3, 4):
                    m.rlen = max(m.rlen, o + k)
                elif m.kind == POOL:
                    m.rlen = min(o + k, m.cap)
            elif r < 0.96 and not nested:
                steps.append((rng.choice([6, 6, 7]), rng.randrange(0, 9), 0))   # no-ops here
            else:
                steps.append((0, 0, 0))
        except Leave:
            alive = False
    return steps


def gen_buffer(rng, adv):
    kind, ln, cap = gen_root(rng)
    flat_bias = rng.random() < 0.25
    mode = rng.random()
    if mode < 0.14:
        return gen_reserve(rng, kind)
    view_bias = mode < 0.24
    if flat_bias and cap < 4 and not fixed(kind) and kind != 4:
        cap = rng.choice([6, 9, 12])
        ln = rng.choice([cap, rng.randrange(cap // 2, cap + 1)])
    w = Window(Member(kind, ln, cap))
    steps = gen_steps(rng, adv, w, flat_bias, False, view_bias)
    case = [1, kind, ln, cap, len(steps)]
    for s in steps:
        case += list(s)
    return case


def gen_reserve(rng, kind):
    """class C10-a: every root kind x (len, cap, chunk): partly filled, empty, full; requests of 0,
    spare-1, spare (exact fit), spare+1, cap, cap+1; through the root, slice(b..), uninit()"""
    if kind in (1, 3):
        cap = rng.choice([1, 2, 4, 7, 8, 12, 16])
    elif kind == 4:
        cap = rng.choice([4, 5, 8, 12])
    else:
        cap = rng.choice([1, 2, 3, 5, 8, 10, 12])
    ln = cap if fixed(kind) else rng.choice([0, cap, rng.randrange(0, cap + 1), rng.randrange(1, cap + 1) - 1])
    w = Window(Member(kind, ln, cap))
    pre = []
    r = rng.random()
    if r < 0.2 and ln > 0:
        b = rng.randrange(0, ln + 1)
        pre.append((1, b, 0))
        w.slice(b, None)
    elif r < 0.3:
        pre.append((2, 0, 0))
        w.uninit()
    elif r < 0.36:
        b = rng.randrange(0, ln + 1)
        e = rng.randrange(b, cap + 2)
        pre.append((1, b, e + 1))
        w.slice(b, e)
    steps = pre + gen_steps(rng, False, w, False, True, False)[:rng.randrange(1, 5)]
    case = [1, kind, ln, cap, len(steps)]
    for s in steps:
        case += list(s)
    return case


def gen_vectored(rng, adv):
    cont = rng.choice([0, 0, 0, 1, 2])
    nm = rng.randrange(0, 5) if cont == 0 else (rng.randrange(1, 4) if cont == 1 else rng.randrange(0, 4))
    specs = []
    style = rng.random()
    for i in range(nm):
        kind, ln, cap = gen_root(rng, True)
        if not fixed(kind):
            if adv and style < 0.6:
                pass                       # arbitrary fill state
            elif style < 0.8:
                ln = 0                     # fresh members
            else:
                ln = -1                    # sequentially filled, fixed up below
        specs.append([kind, ln, cap])
    if any(s[1] == -1 for s in specs):
        total = rng.randrange(0, sum(s[2] for s in specs) + 1)
        for s in specs:
            take = min(total, s[2])
            total -= take
            if not fixed(s[0]):
                s[1] = take
    ms = [Member(*s) for s in specs]
    v = VSpec(ms)
    steps = []
    mode = "V"
    win = None
    idx = 0
    wrapped = False
    j = 0
    for _ in range(rng.randrange(2, 8)):
        r = rng.random()
        wild = adv and rng.random() < 0.2
        if wild and any(sp[0] == 0 for sp in specs) and rng.random() < 0.85:
            wild = False
        tc = v.total_cap()
        if mode == "V":
            if r < 0.15:
                tl = v.total_len()
                b = rng.randrange(0, tc + 3) if wild else rng.randrange(0, tl + 1)
                steps.append((1, b))
                try:
                    v.slice(b, False)
                except Leave:
                    pass
            elif r < 0.30:
                tl = v.total_len()
                b = rng.randrange(0, tc + 3) if wild else rng.randrange(0, (tl if rng.random() < 0.8 else tc) + 1)
                steps.append((2, b))
                try:
                    v.slice(b, True)
                except Leave:
                    pass
            elif r < 0.65:
                n = rng.randrange(0, tc + 1) if not (wild and rng.random() < 0.2) else tc + rng.randrange(1, 3)
                if not wild and tc > 0 and rng.random() < 0.6:
                    n = rng.randrange(1, tc + 1)
                steps.append((3, n))
                try:
                    v.fill(j, n)
                except Leave:
                    pass
                j += 1
            elif r < 0.70:
                steps.append((4, rng.randrange(0, tc + 1)))
            elif r < 0.92:
                steps.append((5, 0))
                if v.f < len(ms):
                    mode = "I"
                    idx = v.f
                    wrapped = False
            else:
                steps.append((0, 0))
        else:
            cap_i = ms[idx].cap if idx < len(ms) else 0
            if r < 0.45:
                k = rng.randrange(0, cap_i + 1) if not wild else rng.randrange(0, cap_i + 3)
                if not wild and cap_i > 0 and rng.random() < 0.6:
                    k = rng.randrange(1, cap_i + 1)
                steps.append((rng.choice([6, 6, 6, 7, 9]), k))
            elif r < 0.80 and not wrapped:
                steps.append((8, 0))
                idx += 1
                if idx >= len(ms):
                    mode = "V"
            elif r < 0.86:
                steps.append((10, rng.randrange(0, 3)))
                wrapped = True
            elif r < 0.92:
                steps.append((11, 0))
                wrapped = True
            elif r < 0.94:
                steps.append((12, rng.randrange(0, cap_i + 2)))
                wrapped = True
            elif r < 0.985:
                steps.append((13, rng.choice([0, 1, cap_i, cap_i + 1, rng.randrange(0, cap_i + 2)])))
            else:
                steps.append((6, 0))
    case = [2, cont, nm]
    for s in specs:
        case += s
    case.append(len(steps))
    for s in steps:
        case += list(s)
    return case


def gen_case(rng):
    adv = rng.random() < 0.3
    if rng.random() < 0.55:
        return gen_buffer(rng, adv)
    return gen_vectored(rng, adv)


def generate(seed, n):
    rng = random.Random(seed)
    return [gen_case(rng) for _ in range(n)]


def describe(case):
    if case[:1] == [1] and len(case) > 1:
        flat = ""
        try:
            ns = case[4]
            codes = [case[5 + 3 * i] for i in range(ns)]
            if 6 in codes:
                flat = "+flatten"
            if any(x in codes for x in (8, 9, 10)):
                flat += "+reserve"
            if any(x in codes for x in (11, 12)):
                flat += "+views"
        except IndexError:
            pass
        return "buffer:" + KIND_NAMES.get(case[1], "?") + flat
    if case[:1] == [3] and len(case) > 1:
        extra = ""
        try:
            codes = [case[4 + 3 * i] for i in range(case[3])]
            if any(x in codes for x in (8, 9, 10)):
                extra += "+reserve"
            if any(x in codes for x in (11, 12)):
                extra += "+views"
        except IndexError:
            pass
        return "pool:" + {0: "polling", 1: "io_uring"}.get(case[1], "?") + extra
    if case[:1] == [2] and len(case) > 1:
        return "vectored:" + CONT_NAMES.get(case[1], "?")
    return "?"


def nontrivial(case, impl_out):
    """not rejected, no bare panic, and at least one fill step with a non-zero count"""
    if impl_out[:1] == [99999] or (impl_out[:1] == [2] and len(impl_out) == 2):
        return False
    try:
        if case[0] in (1, 3):
            p = 4 if case[0] == 1 else 3
            ns = case[p]
            st = case[p + 1:p + 1 + 3 * ns]
            return any((st[3 * i] in (3, 4, 5, 8, 10) and st[3 * i + 1] > 0) or st[3 * i] in (9, 11, 12)
                       for i in range(ns))
        nm = case[2]
        p = 3 + 3 * nm
        ns = case[p]
        st = case[p + 1:p + 1 + 2 * ns]
        return any(st[2 * i] in (3, 4, 6, 7, 9, 13) and st[2 * i + 1] > 0 for i in range(ns))
    except IndexError:
        return False
