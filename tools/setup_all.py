"""./check setup — build the framework from files on disk only (offline):
constants translator, every Coq file (full .vo), the extracted model driver,
and a first (cold) build of every harness binary against /repo."""
import importlib
import sys
import time

import registry
import vlib
from vlib import log


def main():
    t0 = time.time()
    ok, out = vlib.gen_consts()
    log(out.strip())
    if not ok:
        log("setup: constants translator failed")
        return 1
    # only what the registered properties need (other files may be work in progress)
    targets = []
    for pid in registry.PROPS:
        prop = importlib.import_module("p_" + pid.lower()).PROP
        targets.append(prop.prop_file[:-2] + ".vo")
    rc, out = vlib.coq_make(sorted(set(targets)), timeout=3000)
    if rc != 0:
        log(out[-4000:])
        log("setup: Coq build failed")
        return 1
    log("setup: Coq development built (%.0fs)" % (time.time() - t0))
    bad = 0
    seen = set()
    for pid in registry.PROPS:
        prop = importlib.import_module("p_" + pid.lower()).PROP
        for m in getattr(prop, "model_names", [prop.model_name]):
            if m is None:
                continue
            ok, out = vlib.build_driver(m)
            if not ok:
                log(out[-4000:])
                log("setup: model driver %s failed to build" % m)
                bad += 1
        for (b, pkg) in getattr(prop, "harness_bins", [(prop.harness_bin, prop.package)]):
            if b in seen or b is None:
                continue
            seen.add(b)
            ok, out, _ = vlib.build_harness(b, pkg)
            if not ok:
                log(out[-3000:])
                log("setup: harness %s failed to build" % b)
                bad += 1
    log("setup: harness binaries built: %s (%.0fs)" % (", ".join(sorted(seen)), time.time() - t0))
    return 1 if bad else 0
