"""./check setup — build the framework from files on disk only (offline):
constants translator, every Coq file (full .vo), the extracted model driver,
and a first (cold) build of every harness binary against /repo."""
import importlib
import sys
import time

import registry
import vlib
from vlib import log


def main():
    t0 = time.time()
    ok, out = vlib.gen_consts()
    log(out.strip())
    if not ok:
        log("setup: constants translator failed")
        return 1
    rc, out = vlib.coq_make([f[:-2] + ".vo" for f in vlib.coq_files()], timeout=3000)
    if rc != 0:
        log(out[-4000:])
        log("setup: Coq build failed")
        return 1
    log("setup: Coq development built (%.0fs)" % (time.time() - t0))
    ok, out = vlib.build_driver()
    if not ok:
        log(out[-4000:])
        log("setup: model driver build failed")
        return 1
    log("setup: model driver built (%.0fs)" % (time.time() - t0))
    bad = 0
    seen = set()
    for pid in registry.PROPS:
        prop = importlib.import_module("p_" + pid.lower()).PROP
        for (b, feats) in getattr(prop, "harness_bins", [(prop.harness_bin, prop.features)]):
            if b in seen or b is None:
                continue
            seen.add(b)
            ok, out, _ = vlib.build_harness(b, feats)
            if not ok:
                log(out[-3000:])
                log("setup: harness %s failed to build" % b)
                bad += 1
    log("setup: harness binaries built: %s (%.0fs)" % (", ".join(sorted(seen)), time.time() - t0))
    return 1 if bad else 0
