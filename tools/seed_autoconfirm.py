#!/usr/bin/env python3
"""(dev-time) confirm seeded changes using the placement path and cargo command found in demo.md.
usage: seed_autoconfirm.py <seed-dir>...   (prints a summary per seed)"""
import os, re, subprocess, sys
def run(cmd, cwd, timeout=3000):
    env = dict(os.environ, CARGO_TARGET_DIR=os.environ.get("SEEDCHK_TARGET", "/verif/target/seedchk"), CARGO_NET_OFFLINE="true")
    try:
        p = subprocess.run(cmd, cwd=cwd, shell=True, env=env, stdout=subprocess.PIPE, stderr=subprocess.STDOUT, text=True, timeout=timeout)
        return p.returncode, p.stdout
    except subprocess.TimeoutExpired as e:
        return 124, (e.stdout or b"").decode(errors="replace") if isinstance(e.stdout, bytes) else (e.stdout or "")
for sd in sys.argv[1:]:
    sd = os.path.abspath(sd); sid = os.path.basename(sd)
    md = open(os.path.join(sd, "demo.md")).read()
    md = re.sub(r"\\[ \t]*\n[ \t]*", " ", md)
    m = re.search(r"`?((?:compio[\w-]*)/(?:tests|examples)/[\w-]+\.rs)`?", md)
    cmdm = re.search(r"(cargo (?:test|run)[^\n`]*--(?:test|example|bin)[^\n`]*)", md) or re.search(r"(cargo (?:test|run)[^\n`]*)", md)
    if not m or not cmdm:
        print(sid, "CANNOT PARSE demo.md"); continue
    dest = m.group(1)
    cmd = re.sub(r"\\\n\s*", " ", cmdm.group(1))
    cmd = re.sub(r"CARGO_TARGET_DIR=\S+\s*", "", cmd)
    if "--offline" not in cmd: cmd = cmd.replace("cargo test", "cargo test --offline").replace("cargo run", "cargo run --offline")
    wt = "/tmp/seedchk_%d" % os.getpid()
    subprocess.run(["git", "-C", "/repo", "worktree", "add", "-q", "--detach", wt, "HEAD"], check=True)
    try:
        os.makedirs(os.path.dirname(os.path.join(wt, dest)), exist_ok=True)
        open(os.path.join(wt, dest), "w").write(open(os.path.join(sd, "demo.rs")).read())
        rc0, out0 = run("timeout 2400 " + cmd, wt)
        rca, outa = run("git apply %s/patch.diff" % sd, wt)
        rc1, out1 = run("timeout 2400 " + cmd, wt) if rca == 0 else (None, "")
        def res(o): return "; ".join(re.findall(r"test result: [^\n]*", o)[:3]) or o[-300:].replace("\n", " | ")
        print("%s dest=%s cmd=[%s]\n   unchanged: rc=%s %s\n   applies: %s\n   changed:   rc=%s %s" % (sid, dest, cmd, rc0, res(out0), rca == 0, rc1, res(out1)))
        sys.stdout.flush()
    finally:
        subprocess.run(["git", "-C", "/repo", "worktree", "remove", "--force", wt])
