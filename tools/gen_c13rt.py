"""Case generator for the runtime part of C13: multishot RECVMSG result buffers
(coq/model/RunC13RT.v, harness/rt/src/bin/c13rt.rs).

  op 1  UDP scenario      psize buflen clen rflags n (opts tos ttl payload expected-cmsgs)*
  op 2  unix scenario     psize buflen clen n (passcred nfds payload expected-cmsgs)*
  op 3  hostile buffer    clen bytes

Scenarios: real datagrams with real ancillary data (IP_PKTINFO / IP_TTL / IP_TOS; SCM_CREDENTIALS /
SCM_RIGHTS with 1..16 descriptors) received by ONE multishot RECVMSG into a pool of 2..4 buffers that
are reused, with a control reservation larger than what arrives; big-then-small sequences leave stale
control messages in the reserved area.  `expected-cmsgs` = n (level type len data..)* is what the
kernel is expected to deliver, in its order (data of SCM_* in the harness' canonical form).
"""
import random
import socket

FIXED = 16 + 128
try:
    LO = socket.if_nametoindex("lo")
except OSError:
    LO = 1


def lp(bs):
    return [len(bs)] + list(bs)


def le(n, k):
    return [(n >> (8 * i)) & 255 for i in range(k)]


def align8(n):
    return (n + 7) // 8 * 8


def enc_cmsgs(ms):
    out = [len(ms)]
    for (level, ty, data) in ms:
        out += [level, ty] + lp(data)
    return out


def udp_expected(opts, tos, ttl):
    ms = []
    if opts & 1:
        ms.append((0, 8, le(LO, 4) + [127, 0, 0, 1] + [127, 0, 0, 1]))     # IP_PKTINFO
    if opts & 4:
        ms.append((0, 2, le(ttl, 4)))                                       # IP_TTL
    if opts & 2:
        ms.append((0, 1, [tos]))                                            # IP_TOS
    return ms


def unix_expected(passcred, nfds):
    ms = []
    if passcred:
        ms.append((1, 2, [1, 0, 0, 0] * 3))                                 # SCM_CREDENTIALS
    if nfds:
        ms.append((1, 1, [1, 0, 0, 0] * nfds))                              # SCM_RIGHTS
    return ms


def payload(rng, n):
    return [rng.randrange(256) for _ in range(n)]


def gen_udp(rng):
    psize = rng.choice([2, 2, 3, 4])
    clen = rng.choice([80, 80, 88, 96, 128, 200, 256])
    space = rng.choice([8, 24, 48, 100, 300])
    buflen = FIXED + clen + space
    rflags = rng.choice([0, 0, 0, 32])
    ds = []
    n = rng.randrange(2, 9)
    for i in range(n):
        # big first, then smaller ones: stale control bytes in the reused buffers
        opts = 7 if i < psize and rng.random() < 0.7 else rng.choice([0, 0, 1, 2, 2, 3, 4, 5, 6, 7])
        tos = rng.choice([0, 4, 8, 16, 32, 64, 128, 252])
        ttl = rng.choice([1, 2, 64, 128, 255, rng.randrange(1, 256)])
        plen = rng.choice([1, 2, 7, space, space, max(1, space - 1), space + 1, space + 40, rng.randrange(1, space + 1)])
        ds += [opts, tos, ttl] + lp(payload(rng, plen)) + enc_cmsgs(udp_expected(opts, tos, ttl))
    return [1, psize, buflen, clen, rflags, n] + ds


def gen_unix(rng):
    psize = rng.choice([2, 2, 3, 4])
    clen = rng.choice([112, 112, 120, 128, 160, 256])
    space = rng.choice([8, 24, 64, 200])
    buflen = FIXED + clen + space
    ds = []
    n = rng.randrange(2, 8)
    for i in range(n):
        if i < psize and rng.random() < 0.7:
            passcred, nfds = 1, rng.choice([8, 12, 16])
        else:
            passcred = rng.randrange(2)
            nfds = rng.choice([0, 0, 1, 1, 2, 3, 5, 16])
        plen = rng.choice([1, 2, space, rng.randrange(1, space + 1)])
        ds += [passcred, nfds] + lp(payload(rng, plen)) + enc_cmsgs(unix_expected(passcred, nfds))
    return [2, psize, buflen, clen, n] + ds


def raw_cmsg(level, ty, data, clen=None):
    body = le(16 + len(data) if clen is None else clen, 8) + le(level, 4) + le(ty, 4) + list(data)
    return body + [0] * (-len(body) % 8)


def gen_hostile(rng):
    clen = rng.choice([0, 8, 16, 24, 64])
    r = rng.random()
    ctl = []
    for _ in range(rng.randrange(0, 3)):
        ctl += raw_cmsg(rng.randrange(3), rng.randrange(9), payload(rng, rng.choice([1, 4, 12])))
    ctl = ctl[:clen]
    stale = lambda n: [rng.choice([0, 1, 16, 17, 255]) for _ in range(n)]
    pay = payload(rng, rng.choice([0, 1, 5, 20]))
    namelen = rng.choice([0, 0, 16, 28, 110, 128])
    controllen = len(ctl)
    flags = rng.choice([0, 8, 32, 40, 0x80000000])
    if r < 0.45:
        pass                                            # as the kernel would write it
    elif r < 0.6:
        controllen = rng.choice([clen + 1, clen + 8, clen + len(pay), clen + len(pay) + 1, 200, 4096, 1 << 31, (1 << 32) - 1])
    elif r < 0.72:
        namelen = rng.choice([129, 200, 255, 65536, 1 << 31, (1 << 32) - 1])
    hdr = le(namelen, 4) + le(controllen, 4) + le(rng.choice([len(pay), len(pay) + 100, 0, (1 << 32) - 1]), 4) + le(flags, 4)
    name = payload(rng, min(namelen, 128))
    buf = hdr + name + stale(128 - len(name)) + ctl + stale(clen - len(ctl)) + pay
    if r >= 0.72:
        if r < 0.86:
            buf = buf[:rng.choice([0, 1, 8, 15, 16, 17, 100, 143, FIXED, max(0, FIXED + clen - 1)])]
        else:
            buf = [rng.choice([0, 0, 1, 255, rng.randrange(256)]) for _ in range(rng.choice([16, 144, 150, 200, 300]))]
    return [3, clen] + buf


def generate(seed, n):
    rng = random.Random(seed)
    out = []
    for _ in range(n):
        r = rng.random()
        out.append(gen_udp(rng) if r < 0.3 else gen_unix(rng) if r < 0.55 else gen_hostile(rng))
    return out


def describe(case):
    return {1: "recvmsg-multi:udp", 2: "recvmsg-multi:unix", 3: "recvmsg-out:hostile-buffer"}.get(
        case[0] if case else -1, "?")


def nontrivial(case, out):
    return bool(out) and out[0] == 0 and len(out) > 4
