"""C13, runtime part: the result buffer of a multishot RECVMSG (io_uring driver)."""
import diffcheck
import gen_c13rt


class Cur:
    def __init__(self, v):
        self.v, self.i = v, 0

    def take(self):
        x = self.v[self.i]
        self.i += 1
        return x

    def take_n(self, n):
        if n < 0 or self.i + n > len(self.v):
            raise IndexError
        s = self.v[self.i:self.i + n]
        self.i += n
        return s

    def bytes(self):
        return self.take_n(self.take())

    def rest(self):
        s = self.v[self.i:]
        self.i = len(self.v)
        return s

    def done(self):
        return self.i == len(self.v)


FIXED = gen_c13rt.FIXED


def le(bs):
    return sum(b << (8 * i) for i, b in enumerate(bs))


def space(n):
    return 16 + (n + 7) // 8 * 8


def dec_expected(c):
    return [(c.take(), c.take(), c.bytes()) for _ in range(c.take())]


def check_scenario(c, o, udp):
    psize, buflen, clen = c.take(), c.take(), c.take()
    rflags = c.take() if udp else 0
    n = c.take()
    room = buflen - FIXED - clen
    for i in range(n):
        if udp:
            opts, tos, ttl = c.take(), c.take(), c.take()
            want = gen_c13rt.udp_expected(opts, tos, ttl)          # from the recipe, not from the case
            name = (16, 1)
        else:
            passcred, nfds = c.take(), c.take()
            want = gen_c13rt.unix_expected(passcred, nfds)
            name = (0, 0)
        sent = c.bytes()
        dec_expected(c)
        st = o.take()
        if st != 0:
            return "datagram %d: the stream yielded status %d instead of a result" % (i, st)
        data = o.bytes()
        got_name = (o.take(), o.take())
        flags, anc_len = o.take(), o.take()
        got = [(o.take(), o.take(), o.bytes()) for _ in range(o.take())]
        if data != sent[:room]:
            return "datagram %d: payload of %d bytes came back as %d bytes / other content" % (i, len(sent), len(data))
        if bool(flags & 32) != (len(sent) > room):
            return "datagram %d: MSG_TRUNC flag %d for %d bytes into %d" % (i, flags & 32, len(sent), room)
        if got_name != name:
            return "datagram %d: source address (len, matches sender) = %r, expected %r" % (i, got_name, name)
        if anc_len != sum(space(len(d)) for (_, _, d) in want) or anc_len > clen:
            return ("datagram %d: ancillary() is %d bytes, the kernel delivered %d (reserved %d): the control "
                    "data must be exactly controllen bytes" % (i, anc_len, sum(space(len(d)) for (_, _, d) in want), clen))
        if got != want:
            return ("datagram %d: control messages %r, sent/enabled %r (stale bytes of the reused buffer must "
                    "not show up)" % (i, [(l, t, len(d)) for (l, t, d) in got], [(l, t, len(d)) for (l, t, d) in want]))
    if not o.done():
        return "malformed result (trailing data)"
    return None


def _oracle(case, out):
    c, o = Cur(case), Cur(out)
    op = c.take()
    if o.take() != 0:
        return "malformed result"
    if op in (1, 2):
        return check_scenario(c, o, op == 1)
    clen = c.take()
    buf = c.rest()
    if o.take() != 0:
        return "malformed result"
    off0 = FIXED + clen
    if (o.take(), o.take(), o.take()) != (0, off0, len(buf) - off0):
        return "data() is not buffer[%d..]" % off0
    controllen, namelen = le(buf[4:8]), le(buf[0:4])
    st = o.take()
    if st == 0:
        off, n = o.take(), o.take()
        body = o.take_n(n)
        if off + n > len(buf):
            return "ancillary() = [%d, %d) of a %d-byte buffer (out of bounds)" % (off, off + n, len(buf))
        if off != FIXED or n != controllen or body != buf[off:off + n]:
            return "ancillary() is %d bytes at %d; the header says controllen = %d" % (n, off, controllen)
    else:
        code = o.take()
        if FIXED + controllen <= len(buf):
            return "ancillary() panicked (code %d) although controllen = %d fits the buffer" % (code, controllen)
        if code != 2:
            return "ancillary(): unexpected panic code %d" % code
    a = o.take()
    if a == 9:
        if namelen <= 128:
            return "malformed result"
    else:
        if o.take() == 0:
            if namelen != 0:
                return "addr() = None for namelen %d" % namelen
        else:
            nb = o.bytes()
            if len(nb) != namelen or nb != buf[16:16 + namelen]:
                return "addr() is not the first namelen bytes of the name area"
    if o.take() != le(buf[12:16]):
        return "flags() differs from the header"
    if not o.done():
        return "malformed result (trailing data)"
    return None


def oracle(case, out):
    if out[:1] == [99999]:
        return None
    if out[:1] == [2] and len(out) == 2:
        if case[0] == 3 and out[1] == 3 and len(case) - 2 < FIXED + case[1]:
            return None     # documented contract of the unsafe constructor: the fixed areas must be present
        return "panic/abort (code %d) instead of a result" % out[1]
    try:
        return _oracle(case, out)
    except IndexError:
        return "malformed result %r" % (out[:40],)


class C13RT(diffcheck.DiffProp):
    pid = "C13"
    evidence_name = "C13rt"
    corpus_name = "C13rt"
    prop_file = "prop/C13.v"
    model_name = "c13rt"
    harness_bin = "c13rt"
    package = "rt"
    gen = gen_c13rt
    counts = {"quick": 160, "thorough": 3000}
    uses_consts = False
    rule = ("runtime part: cases = corpus + generated scenarios on the io_uring driver: UDP (IP_PKTINFO/IP_TTL/IP_TOS "
            "toggled per datagram, TOS/TTL varied, payloads up to and beyond the room left -> MSG_TRUNC, with and "
            "without MSG_TRUNC among the receive flags) and unix stream pairs (SO_PASSCRED toggled, SCM_RIGHTS with "
            "0..16 descriptors) received by one multishot RECVMSG (compio_driver::op::RecvMsgMulti + "
            "SubmitMulti::into_managed_with) into a pool of 2..4 reused buffers with a control reservation larger than "
            "what arrives; plus hostile buffer contents through the public RecvMsgMultiResult::new (kernel-shaped with "
            "stale bytes, controllen/namelen beyond the reservation or the buffer, short buffers, random bytes); "
            "non-trivial = a result was produced")
    trusted_base = [
        "harness/rt/src/bin/c13rt.rs (socket recipes, canonical form of SCM_RIGHTS/SCM_CREDENTIALS data: same file / "
        "own pid,uid,gid), tools/gen_c13rt.py (the kernel's cmsg order and encodings for the recipes), "
        "tools/p_c13rt.py oracle",
        "Linux io_uring multishot RECVMSG buffer layout (io_uring_recvmsg_out, name area of sizeof(sockaddr_storage) "
        "= 128, control area of msg_controllen bytes) transcribed into model/RecvMsgOut.v; kernel_fill is the "
        "environment model of what the kernel writes, checked against the running kernel by the scenarios",
    ]
    assumptions = [
        "buffers given to RecvMsgMultiResult::new come from a multishot RECVMSG (its unsafe contract): header + name "
        "area + control area present, namelen <= 128, controllen <= the reservation; for other contents only "
        "model/implementation agreement and in-bounds slices are checked (addr() with namelen > 128 is not executed)",
        "control data is not truncated in the scenarios (reservation >= what the kernel delivers)",
        "loopback interface index and 127.0.0.1 addressing as on the test machine",
    ]

    def oracle(self, case, out):
        return oracle(case, out)

    def known(self, case, out, what):
        return None


PROP = C13RT()
