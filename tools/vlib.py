"""Common machinery of the /verif checks (see DESIGN.md §1.2).

A check = (a) regenerate Consts.v from /repo, (b) make the property's Coq
targets, (c) hygiene + Print Assumptions allow-list, (d) build the extracted
model driver and the Rust harness from /repo's working tree, (e) corpus first,
then generated cases, on both sides, (f) diff + property oracle, (g) evidence.
"""
import glob
import hashlib
import json
import os
import re
import subprocess
import sys
import time

ROOT = os.path.dirname(os.path.dirname(os.path.abspath(__file__)))
COQ = os.path.join(ROOT, "coq")
TARGET = os.path.join(ROOT, "target")
OUT = os.path.join(ROOT, "out")
REPO = os.environ.get("VERIF_REPO", "/repo")
GUARD = "compio_verif"

ALLOWED_AXIOMS = {
    # stdlib-declared axioms that may appear (named in DESIGN.md §4 when they do)
    "functional_extensionality_dep",
    "proof_irrelevance",
    "FunctionalExtensionality.functional_extensionality_dep",
    "ProofIrrelevance.proof_irrelevance",
}

HYGIENE_RE = re.compile(
    r"\b(Admitted|admit|Axiom|Axioms|Parameter|Parameters|Conjecture|Conjectures|"
    r"Unset\s+Guard|bypass_check|type-in-type|impredicative-set|Admit\s+Obligations|"
    r"Unset\s+Positivity|Unset\s+Universe)\b")


def log(msg):
    print(msg, flush=True)


def sh(cmd, timeout, cwd=ROOT, env=None, stdin=None):
    e = dict(os.environ)
    e.update({"CARGO_NET_OFFLINE": "true", "CARGO_TARGET_DIR": TARGET})
    if env:
        e.update(env)
    try:
        p = subprocess.run(cmd, cwd=cwd, env=e, shell=isinstance(cmd, str), input=stdin,
                           stdout=subprocess.PIPE, stderr=subprocess.STDOUT, timeout=timeout,
                           text=True)
        return p.returncode, p.stdout
    except subprocess.TimeoutExpired as ex:
        out = ex.stdout or ""
        if isinstance(out, bytes):
            out = out.decode(errors="replace")
        return 124, (out[:-1] if out.endswith("\n") else out) + "\n[timeout after %ss]" % timeout


# ---------------------------------------------------------------------------
# Coq side

def strip_comments(src):
    out, depth, i = [], 0, 0
    while i < len(src):
        if src.startswith("(*", i):
            depth += 1
            i += 2
        elif src.startswith("*)", i) and depth > 0:
            depth -= 1
            i += 2
        else:
            if depth == 0:
                out.append(src[i])
            i += 1
    return "".join(out)


def coq_files():
    fs = []
    for d in ("gen", "model", "thm", "prop"):
        fs += sorted(glob.glob(os.path.join(COQ, d, "*.v")))
    return [os.path.relpath(f, COQ) for f in fs]


def gen_consts():
    """constants translator: regenerates coq/gen/Consts.v from the Rust source"""
    rc, out = sh([sys.executable, os.path.join(ROOT, "tools", "consts.py"), REPO,
                  os.path.join(COQ, "gen", "Consts.v")], 60)
    # fragment translator: regenerates coq/gen/Frag.v (function bodies) from the Rust source
    rc2, out2 = sh([sys.executable, os.path.join(ROOT, "tools", "rs2v.py"), REPO,
                    os.path.join(COQ, "gen", "Frag.v")], 60)
    return rc == 0 and rc2 == 0, out + out2


def coq_project():
    head = ["-Q model Compio.Model", "-Q thm Compio.Thm", "-Q prop Compio.Prop",
            "-Q gen Compio.Gen",
            "-arg -w -arg -notation-overridden,-deprecated-hint-without-locality,"
            "-deprecated-instance-without-locality,-deprecated-syntactic-definition"]
    text = "\n".join(head + coq_files()) + "\n"
    path = os.path.join(COQ, "_CoqProject")
    old = open(path).read() if os.path.exists(path) else None
    if old != text or not os.path.exists(os.path.join(COQ, "Makefile")):
        open(path, "w").write(text)
        rc, out = sh("coq_makefile -f _CoqProject -o Makefile", 60, cwd=COQ)
        if rc != 0:
            raise RuntimeError("coq_makefile failed: " + out)


def coq_make(targets, timeout=1500, jobs=16, remove_first=()):
    """make through the project Makefile; serialised by a file lock (concurrent
    makes in one tree corrupt .Makefile.d).  remove_first: compiled files to delete
    (under the lock) so that they are rebuilt and their output is seen"""
    import fcntl
    os.makedirs(TARGET, exist_ok=True)
    with open(os.path.join(TARGET, "coq_make.lock"), "w") as lk:
        fcntl.flock(lk, fcntl.LOCK_EX)
        try:
            for f in remove_first:
                try:
                    os.remove(os.path.join(COQ, f))
                except FileNotFoundError:
                    pass
            coq_project()
            # the generated files belong to the repository under check (VERIF_REPO may differ
            # between concurrent dev-time runs): regenerate them under the same lock as the make
            gen_consts()
            return sh(["make", "-j%d" % jobs] + targets, timeout, cwd=COQ)
        finally:
            fcntl.flock(lk, fcntl.LOCK_UN)


def coq_prop(prop_file, timeout=1500):
    """(re)compile a property file and everything it depends on; returns
    dict(ok, log, theorems, assumptions {thm: [axioms]})"""
    vo = prop_file[:-2] + ".vo"
    rc, out = coq_make([vo], timeout, remove_first=[vo])
    src = strip_comments(open(os.path.join(COQ, prop_file)).read())
    theorems = re.findall(r"^\s*(?:Theorem|Lemma|Corollary|Example)\s+([A-Za-z0-9_']+)", src, re.M)
    printed = re.findall(r"Print\s+Assumptions\s+([A-Za-z0-9_'.]+)\s*\.", src)
    # parse the Print Assumptions answers, in order
    answers = []
    cur = None
    for line in out.splitlines():
        if line.startswith("Closed under the global context"):
            answers.append([])
            cur = None
        elif line.startswith("Axioms:"):
            cur = []
            answers.append(cur)
        elif cur is not None:
            m = re.match(r"^([A-Za-z0-9_'.]+)\s*:", line)
            if m:
                cur.append(m.group(1))
            elif not line.startswith(" "):
                cur = None
    assumptions = {}
    for name, ans in zip(printed, answers):
        assumptions[name] = ans
    return {"ok": rc == 0, "log": out, "theorems": theorems, "printed": printed,
            "assumptions": assumptions, "answers": len(answers)}


def coqchk(prop_file, timeout=1500):
    """independent re-check of the compiled property file and everything it
    depends on (thorough tier); returns (ok, axioms list, raw summary)"""
    mod = "Compio.Prop." + os.path.basename(prop_file)[:-2]
    rc, out = sh("coqchk -silent -o -Q model Compio.Model -Q thm Compio.Thm -Q prop Compio.Prop "
                 "-Q gen Compio.Gen %s" % mod, timeout, cwd=COQ)
    summary = out[out.find("CONTEXT SUMMARY"):] if "CONTEXT SUMMARY" in out else out[-1500:]
    axioms = []
    m = re.search(r"\* Axioms:(.*?)\n\s*\n\* Constants", summary, re.S)
    if m:
        body = m.group(1).strip()
        if body != "<none>":
            axioms = [l.strip() for l in body.splitlines() if l.strip()]
    clean = (rc == 0 and "type-in-type: <none>" in summary and "unsafe (co)fixpoints: <none>" in summary
             and "positivity is assumed: <none>" in summary)
    return clean, axioms, summary


def coq_deps(prop_file):
    """transitive .v dependencies of a property file inside the development (from coqdep's .Makefile.d)"""
    dpath = os.path.join(COQ, ".Makefile.d")
    if not os.path.exists(dpath):
        return None
    deps = {}
    for line in open(dpath):
        if ":" not in line:
            continue
        lhs, rhs = line.split(":", 1)
        tgt = [t for t in lhs.split() if t.endswith(".vo")]
        if not tgt:
            continue
        deps[tgt[0]] = [t for t in rhs.split() if t.endswith(".vo") and not t.startswith("/")]
    seen, todo = set(), [prop_file[:-2] + ".vo"]
    while todo:
        t = todo.pop()
        if t in seen:
            continue
        seen.add(t)
        todo += deps.get(t, [])
    return sorted(t[:-1] for t in seen)


def hygiene(prop_file=None):
    """no Admitted/admit/Axiom/... in the development (restricted to what
    `prop_file` depends on when given: other files may be work in progress of
    another property and are covered by that property's own check)"""
    bad = []
    files = coq_deps(prop_file) if prop_file else None
    for f in (files if files else coq_files()):
        p = os.path.join(COQ, f)
        if not os.path.exists(p):
            continue
        src = strip_comments(open(p).read())
        for n, line in enumerate(src.splitlines(), 1):
            if HYGIENE_RE.search(line):
                bad.append("%s:%d: %s" % (f, n, line.strip()))
    return bad


def file_hash(paths):
    h = hashlib.sha256()
    for p in sorted(paths):
        h.update(p.encode())
        h.update(open(p, "rb").read())
    return h.hexdigest()


def build_driver(name, timeout=600):
    """extract run_<name> (coq/model/Run<NAME>.v) and build the OCaml driver
    target/model_<name> (cached by content hash of the model sources)"""
    os.makedirs(TARGET, exist_ok=True)
    up = name.upper()
    models = sorted(glob.glob(os.path.join(COQ, "model", "*.v")))
    coq_project()   # makes sure coqdep's dependency file exists
    closure = coq_deps("model/Run%s.v" % up)
    if closure and len(closure) > 1:
        srcs = [os.path.join(COQ, f) for f in closure]
    else:
        srcs = models + [os.path.join(COQ, "gen", "Consts.v")]
    srcs = [s for s in srcs if os.path.exists(s)] + [os.path.join(COQ, "extract", "driver.ml")]
    h = file_hash(srcs)
    stamp = os.path.join(TARGET, "model_%s.hash" % name)
    exe = os.path.join(TARGET, "model_%s" % name)
    if os.path.exists(exe) and os.path.exists(stamp) and open(stamp).read() == h:
        return True, "cached"
    rc, out = coq_make(["model/Run%s.vo" % up], timeout)
    if rc != 0:
        return False, out
    gen = os.path.join(COQ, "extract", "gen", name)
    os.makedirs(gen, exist_ok=True)
    ev = os.path.join(gen, "Extract_%s.v" % name)
    open(ev, "w").write(EXTRACT_TEMPLATE % {"UP": up, "name": name})
    rc, out2 = sh("coqc -Q ../../../model Compio.Model -Q ../../../gen Compio.Gen Extract_%s.v" % name,
                  timeout, cwd=gen)
    if rc != 0:
        return False, out + out2
    drv = open(os.path.join(COQ, "extract", "driver.ml")).read().replace("@RUN@", "run_" + name)
    open(os.path.join(gen, "driver.ml"), "w").write(drv)
    rc, out3 = sh("ocamlfind ocamlopt -w -a models.mli models.ml driver.ml -o %s" % exe, timeout, cwd=gen)
    if rc != 0:
        return False, out + out2 + out3
    open(stamp, "w").write(h)
    return True, out + out2 + out3


# Extraction directives used (the whole list): ExtrOcamlBasic only.
EXTRACT_TEMPLATE = """(* generated by tools/vlib.py *)
Require Extraction.
Require Import ExtrOcamlBasic.
From Compio.Model Require Run%(UP)s.
Extraction Language OCaml.
Set Extraction KeepSingleton.
Extraction "models.ml" Run%(UP)s.run_%(name)s.
"""


# ---------------------------------------------------------------------------
# Rust side

def _alt_harness(package):
    """VERIF_REPO points at another checkout (dev use: seeded changes in a scratch
    worktree while /repo is busy): build a copy of the harness whose path
    dependencies point there, in its own target directory"""
    import shutil
    base = os.path.join(TARGET, "alt_harness")
    for pkg in ("common", package):
        src = os.path.join(ROOT, "harness", pkg)
        dst = os.path.join(base, pkg)
        os.makedirs(dst, exist_ok=True)
        for root, dirs, files in os.walk(src):
            dirs[:] = [d for d in dirs if d != "target"]
            rel = os.path.relpath(root, src)
            os.makedirs(os.path.join(dst, rel), exist_ok=True)
            for f in files:
                if f == "Cargo.lock":
                    continue
                data = open(os.path.join(root, f), "rb").read()
                if f == "Cargo.toml":
                    data = data.replace(b'"/repo/', ('"%s/' % REPO.rstrip("/")).encode())
                out = os.path.join(dst, rel, f)
                if not os.path.exists(out) or open(out, "rb").read() != data:
                    open(out, "wb").write(data)
    return os.path.join(base, package)


def build_harness(bin_name, package, timeout=1700, release=False, extra_rustflags="", features=None):
    """cargo build of one harness binary (harness/<package>) against /repo's working tree"""
    alt = REPO.rstrip("/") != "/repo"
    hdir = _alt_harness(package) if alt else os.path.join(ROOT, "harness", package)
    tdir = os.path.join(TARGET, "alt") if alt else TARGET
    lock = os.path.join(hdir, "Cargo.lock")
    if not os.path.exists(lock):
        import shutil
        src = os.path.join(REPO, "Cargo.lock")
        shutil.copy(src if os.path.exists(src) else "/repo/Cargo.lock", lock)
    cmd = ["cargo", "build", "--offline", "-q", "--bin", bin_name]
    if features:
        cmd += ["--features", ",".join(features)]
    if release:
        cmd += ["--release"]
    env = {"RUSTFLAGS": ("--cfg %s -Awarnings %s" % (GUARD, extra_rustflags)).strip(),
           "CARGO_TARGET_DIR": tdir}
    rc, out = sh(cmd, timeout, cwd=hdir, env=env)
    exe = os.path.join(tdir, "release" if release else "debug", bin_name)
    return rc == 0 and os.path.exists(exe), out, exe


def write_cases(path, cases):
    with open(path, "w") as f:
        for c in cases:
            f.write(" ".join(str(x) for x in c) + "\n")


def parse_lines(text):
    res = []
    for line in text.splitlines():
        line = line.strip()
        if line == "":
            res.append([])
            continue
        try:
            res.append([int(t) for t in line.split()])
        except ValueError:
            res.append(None)
    return res


ABORT = [2, 4]   # result recorded for a case that killed the harness process


def run_impl(exe, cases_path, n, timeout=600, env=None):
    """run the harness; when the process dies on case i (abort, UB trap), record
    ABORT for it and resume at i+1"""
    results = []
    aborts = 0
    t_end = time.time() + timeout
    while len(results) < n:
        left = max(5, t_end - time.time())
        rc, out = sh([exe, cases_path, str(len(results))], left, env=env)
        lines = [l for l in parse_lines(out)]
        # only complete numeric lines count
        good = []
        for l in lines:
            if l is None:
                break
            good.append(l)
        if len(results) + len(good) > n:
            good = good[:n - len(results)]
        results += good
        if len(results) < n:
            if rc == 124:
                results.append([2, 8])  # hang
            else:
                results.append(list(ABORT))
            aborts += 1
            if aborts > 200:
                break
    return results[:n], aborts


def run_impl_sharded(exe, cases, outdir, shards=8, timeout=900, env=None):
    """run the harness over `shards` parallel processes (cases are independent)"""
    from concurrent.futures import ThreadPoolExecutor
    n = len(cases)
    shards = max(1, min(shards, n))
    size = (n + shards - 1) // shards
    parts = [cases[i:i + size] for i in range(0, n, size)]
    paths = []
    for j, part in enumerate(parts):
        pth = os.path.join(outdir, "shard_%d.txt" % j)
        write_cases(pth, part)
        paths.append(pth)
    with ThreadPoolExecutor(max_workers=len(parts)) as ex:
        res = list(ex.map(lambda t: run_impl(exe, t[0], len(t[1]), timeout=timeout, env=env),
                          zip(paths, parts)))
    out, aborts = [], 0
    for r, a in res:
        out += r
        aborts += a
    return out, aborts


def run_model(name, cases_path, timeout=600):
    exe = os.path.join(TARGET, "model_%s" % name)
    # extracted code is not tail-recursive: give it a large stack for long histories
    rc, out = sh("ulimit -s unlimited 2>/dev/null || ulimit -s 4000000 2>/dev/null; %s < %s" % (exe, cases_path),
                 timeout)
    if rc != 0:
        raise RuntimeError("model driver failed (%d): %s" % (rc, out[-2000:]))
    return parse_lines(out)


# ---------------------------------------------------------------------------
# findings / evidence

def load_known():
    p = os.path.join(ROOT, "known_findings.json")
    if not os.path.exists(p):
        return {"known": [], "fixed": []}
    return json.load(open(p))


def write_json(path, obj):
    os.makedirs(os.path.dirname(path), exist_ok=True)
    with open(path, "w") as f:
        json.dump(obj, f, indent=1, sort_keys=True)
        f.write("\n")


def write_evidence(pid, tier, seed, coverage, assumptions, wall, violations):
    ev = {
        "property_id": pid, "tier": tier, "seed": seed, "level": "proof",
        "coverage": coverage, "assumptions": assumptions,
        "wall_s": round(wall, 2), "violations": violations,
    }
    write_json(os.path.join(ROOT, "evidence", pid + ".json"), ev)


def case_key(case):
    return hashlib.sha1((" ".join(map(str, case))).encode()).hexdigest()
