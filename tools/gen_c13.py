"""Case generator for C13 (framing and ancillary codecs). One case = list of ints
(see coq/model/RunC13.v for the format).

  op 1  encode            framer, wchunk, frames
  op 2  decode            framer, schedule, stream bytes          (hostile streams)
  op 3  round trip        framer, wchunk, frames, schedule
  op 4  extract           framer, begin, bytes                    (hostile bytes)
  op 5  cmsg build        capacity, messages
  op 6  cmsg round trip   capacity, messages
  op 7  cmsg iterate      wanted size, buffer bytes
  op 8  sink program      framer, ops (feed/send item, flush, close), writer script; the codec fails on
                          flagged items after having written k bytes of them
  op 9  decode            like op 2, with a decoder that rejects frames starting with 255

Short streams are cut at every point (one case per cut) and byte by byte;
longer ones get random fragmentations.  About a third of the inputs are
adversarial: payloads containing the delimiter, zero reads and errors in the
middle of the stream, length fields that lie, truncated/corrupted control
buffers.
"""
import random

ERR_KINDS = [4, 5, 6, 7]
CHARS = {0: [0x0A], 1: [0xC3, 0xA9], 2: [0xE2, 0x84, 0x9D], 3: [0xF0, 0x9F, 0x98, 0x80], 4: [0xE2, 0x82, 0xAC]}
CTORS = {0: "new", 1: "default", 2: "clone(new)", 3: "clone(default)"}
SMALL = [0, 1, 2, 3, 10, 97, 98, 255]


def lp(bs):
    return [len(bs)] + list(bs)


# ---- framers ---------------------------------------------------------------

def gen_framer(rng):
    r = rng.random()
    if r < 0.45:
        return [1, rng.choice([1, 1, 2, 2, 3, 4, 4, 5, 6, 7, 8, 8]), rng.randrange(2)]
    if r < 0.7:
        n = rng.choice([1, 1, 2, 2, 3])
        return [2] + lp([rng.choice(SMALL) for _ in range(n)])
    if r < 0.88:
        return [3, rng.randrange(5)]
    return [4]


def delim_of(fr):
    if fr[0] == 2:
        return fr[2:2 + fr[1]]
    if fr[0] == 3:
        return CHARS[fr[1]]
    return None


def find(d, w):
    for i in range(len(w) - len(d) + 1):
        if w[i:i + len(d)] == d:
            return i
    return None


def payload(rng, fr, friendly):
    n = rng.choice([0, 0, 1, 2, 3, 5, 8, 13, 20, rng.randrange(0, 40)])
    d = delim_of(fr)
    alphabet = SMALL + (d or [])
    for _ in range(20):
        p = [rng.choice(alphabet) if rng.random() < 0.7 else rng.randrange(256) for _ in range(n)]
        if not friendly or d is None or find(d, p + d) == len(p):
            return p
    return []


def frames(rng, fr, friendly):
    return [payload(rng, fr, friendly) for _ in range(rng.choice([0, 1, 1, 2, 3, 4, 6]))]


def enc_frames(fs):
    out = [len(fs)]
    for f in fs:
        out += lp(f)
    return out


def encode_ref(fr, fs):
    """generator-side estimate of the stream length (only used to size schedules)"""
    n = 0
    for f in fs:
        if fr[0] == 1:
            n += fr[1] + len(f)
        elif fr[0] in (2, 3):
            n += len(f) + len(delim_of(fr))
        else:
            n += len(f)
    return n


# ---- schedules -------------------------------------------------------------

def enc_sched(s):
    out = [len(s)]
    for k, a in s:
        out += [k, a]
    return out


def tail(total):
    """enough large reads to deliver whatever is left (each delivers >= 16 bytes)"""
    return [(0, 1000)] * (total // 16 + 2)


def sched_random(rng, total, adversarial):
    s = []
    left = total
    while left > 0 and len(s) < 40:
        r = rng.random()
        if adversarial and r < 0.08:
            s.append((0, 0))
            continue
        if adversarial and r < 0.16:
            s.append((1, rng.choice(ERR_KINDS)))
            continue
        n = rng.choice([1, 1, 1, 2, 3, 5, 8, 15, 16, 17, 33, 64])
        s.append((0, n))
        left -= min(n, 16)
    if not adversarial or rng.random() < 0.6:
        s += tail(total)
    return s


def sched_cut(total, i):
    """two fragments cut at i (i <= 16 so that the first read is not clipped)"""
    return [(0, i)] * (1 if i > 0 else 0) + tail(total)


def sched_bytewise(total):
    return [(0, 1)] * total


# ---- control messages --------------------------------------------------------

def gen_msg(rng):
    kind = rng.choice([0, 0, 0, 0, 1, 2, 3])
    n = {0: rng.choice([0, 1, 2, 4, 4, 7, 8, 9, 12, 16, 20, 24, 33, 40]), 1: 4, 2: 12, 3: 20}[kind]
    level = rng.choice([0, 1, 41, 0xFFFFFFFF, rng.randrange(1 << 32)])
    ty = rng.choice([0, 1, 8, 50, 0x80000000, rng.randrange(1 << 32)])
    return [level, ty, kind] + lp([rng.randrange(256) for _ in range(n)])


def le(n, k):
    return [(n >> (8 * i)) & 255 for i in range(k)]


def raw_msg(level, ty, data, clen=None):
    body = le(16 + len(data) if clen is None else clen, 8) + le(level, 4) + le(ty, 4) + list(data)
    return body + [0] * (-len(body) % 8)


def gen_ctl_bytes(rng):
    r = rng.random()
    if r < 0.5:       # well-formed sequence
        b = []
        for _ in range(rng.randrange(1, 5)):
            b += raw_msg(rng.randrange(300), rng.randrange(300),
                         [rng.randrange(128) for _ in range(rng.choice([0, 1, 4, 8, 12, 20]))])
        if rng.random() < 0.3:
            b = b[:len(b) - rng.choice([1, 3, 7])]      # padding of the last one missing
        return b
    if r < 0.8:       # one header lies about its length
        b = []
        k = rng.randrange(1, 4)
        bad = rng.randrange(k)
        for i in range(k):
            data = [rng.randrange(128) for _ in range(rng.choice([0, 4, 8, 16]))]
            clen = None
            if i == bad:
                # (values above 2^63 + 15 abort a debug build only — slice precondition check, checked
                # arithmetic inside libc — and are left to corpus-free replays: the release pass of the
                # thorough tier requires profile-independent results)
                clen = rng.choice([0, 1, 15, 16, 17, 16 + len(data) + 1, 16 + len(data) + 8, 64, 200,
                                   1 << 31, 1 << 32, (1 << 63) - 1, (1 << 63) + 15])
            b += raw_msg(rng.randrange(300), rng.randrange(300), data, clen)
        return b
    n = rng.choice([0, 8, 15, 16, 17, 24, 32, 40, 64])
    return [rng.choice([0, 0, 0, 1, 16, 24, 127, rng.randrange(128)]) for _ in range(n)]


# ---- cases -------------------------------------------------------------------

def hostile_stream(rng, fr):
    n = rng.choice([0, 1, 3, 8, 9, 17, 30, rng.randrange(0, 60)])
    b = [rng.choice([0, 0, 1, 2, 5, 255, 255, rng.randrange(256)]) for _ in range(n)]
    d = delim_of(fr)
    if d and rng.random() < 0.7:
        for _ in range(rng.randrange(1, 4)):
            i = rng.randrange(0, len(b) + 1)
            b[i:i] = d
    return b


def frame_bytes(fr, p):
    if fr[0] == 1:
        hdr = le(len(p) % (1 << (8 * fr[1])), fr[1])
        return (hdr[::-1] if fr[2] else hdr) + p
    if fr[0] in (2, 3):
        return p + delim_of(fr)
    return p


def wsched(rng, total, nframes, adversarial):
    """writer script: (0,n) accept <= n, (1,kind) error (3 = Interrupted, retried), (2,0) Pending"""
    s = []
    left = total
    while left > 0 and len(s) < 60:
        r = rng.random()
        if r < 0.12:
            s.append((2, 0))
            continue
        if r < 0.2:
            s.append((1, 3))
            continue
        if adversarial and r < 0.3:
            s.append((1, rng.choice(ERR_KINDS)))
            continue
        if adversarial and r < 0.36:
            s.append((0, 0))
            continue
        n = rng.choice([1, 1, 2, 3, 5, 8, 64, 1000])
        s.append((0, n))
        left -= n
    if not adversarial or rng.random() < 0.5:
        s += [(0, 1000)] * (nframes + 1)
    return s


def gen_sink(rng):
    fr = gen_framer(rng)
    adversarial = rng.random() < 0.3
    ops, total, nframes = [], 0, 0
    for _ in range(rng.choice([1, 2, 3, 3, 4, 5, 6, 8])):
        r = rng.random()
        if r < 0.75:
            p = payload(rng, fr, True)
            if rng.random() < 0.4:
                k = rng.choice([0, 1, len(p) // 2, max(0, len(p) - 1), len(p), len(p) + 3])
                item = [1, k] + lp(p)
            else:
                item = [0, 0] + lp(p)
                total += len(frame_bytes(fr, p))
                nframes += 1
            ops.append([1 if r < 0.3 else 2] + item)
        elif r < 0.92:
            ops.append([3])
        else:
            ops.append([4])
    out = [8] + fr + [len(ops)]
    for o in ops:
        out += o
    return out + enc_sched(wsched(rng, total, nframes, adversarial))


def gen_probe_decode(rng):
    fr = gen_framer(rng)
    fs = frames(rng, fr, True)
    for f in fs:
        if f and rng.random() < 0.4:
            f[0] = 255
            d = delim_of(fr)
            if d and find(d, f + d) != len(f):
                f[0] = 254
    b = []
    for f in fs:
        b += frame_bytes(fr, f)
    return [9] + fr + enc_sched(sched_random(rng, len(b), rng.random() < 0.3)) + b


def gen_case(rng, pending):
    if pending:
        return pending.pop()
    q = rng.random()
    if q < 0.09:
        return gen_sink(rng)
    if q < 0.12:
        return gen_probe_decode(rng)
    r = rng.random()
    if r < 0.06:
        fr = gen_framer(rng)
        fs = frames(rng, fr, rng.random() < 0.7)
        if fr[0] == 1 and fr[1] == 1 and rng.random() < 0.3:
            fs.append([rng.randrange(256) for _ in range(rng.choice([255, 256, 257, 300]))])
        return [1] + fr + [rng.choice([1, 2, 3, 7, 1000])] + enc_frames(fs)
    if r < 0.52:
        fr = gen_framer(rng)
        adversarial = rng.random() < 0.3
        fs = frames(rng, fr, not adversarial)
        if fr[0] == 1 and fr[1] == 1 and rng.random() < 0.03:
            fs.append([rng.randrange(256) for _ in range(rng.choice([256, 300]))])
        total = encode_ref(fr, fs)
        head = [3] + fr + [rng.choice([1, 2, 5, 1000])] + enc_frames(fs)
        if total <= 16 and rng.random() < 0.35:
            # every cut point of a short stream, plus byte by byte
            for i in range(total + 1):
                pending.append(head + enc_sched(sched_cut(total, i)))
            return head + enc_sched(sched_bytewise(total))
        return head + enc_sched(sched_random(rng, total, adversarial))
    if r < 0.66:
        fr = gen_framer(rng)
        b = hostile_stream(rng, fr)
        if fr[0] == 1 and b and rng.random() < 0.5:
            # a length field that is plausible, huge, or all ones
            hdr = rng.choice([le(rng.randrange(0, 40), fr[1]), [255] * fr[1], [0] * fr[1],
                              le((1 << (8 * fr[1])) - rng.randrange(1, 9), fr[1])])
            if fr[2] == 1:
                hdr = hdr[::-1]
            b = hdr + b
        return [2] + fr + enc_sched(sched_random(rng, len(b), rng.random() < 0.5)) + b
    if r < 0.78:
        fr = gen_framer(rng)
        b = hostile_stream(rng, fr)
        if fr[0] == 1 and rng.random() < 0.7:
            n = len(b)
            hdr = rng.choice([[255] * fr[1], le(n, fr[1]), le(max(0, n - 1), fr[1]), le(n + 1, fr[1]),
                              le((1 << (8 * fr[1])) - fr[1], fr[1]), le((1 << (8 * fr[1])) - fr[1] - 1, fr[1]),
                              le(rng.randrange(0, 1 << (8 * fr[1])), fr[1])])
            if fr[2] == 1:
                hdr = hdr[::-1]
            b = hdr + b
        pre = [rng.randrange(256) for _ in range(rng.choice([0, 0, 0, 1, 5]))]
        return [4] + fr + [len(pre)] + pre + b
    if r < 0.9:
        op = rng.choice([5, 6, 6, 6])
        cap = rng.choice([0, 8, 15, 16, 17, 24, 32, 40, 48, 56, 64, 80, 96, rng.randrange(0, 97), 128])
        ms = [gen_msg(rng) for _ in range(rng.choice([0, 1, 1, 2, 2, 3, 4, 5]))]
        out = [op, cap, len(ms)]
        for m in ms:
            out += m
        return out
    return [7, rng.choice([0, 1, 4, 4, 8, 12, 20, 40])] + gen_ctl_bytes(rng)


def with_ctor(rng, case):
    """the framer (and BytesCodec) of the case is built by new(), Default::default() or a clone of
    either: case[1] = kind + 10 * path (AnyDelimited has no Default)"""
    if case and case[0] in (1, 2, 3, 4, 8, 9) and len(case) > 1 and case[1] < 10:
        path = rng.choice([0, 0, 1, 1, 2, 3]) if case[1] != 2 else rng.choice([0, 2])
        case = [case[0], case[1] + 10 * path] + case[2:]
    return case


def generate(seed, n):
    rng = random.Random(seed)
    crng = random.Random(seed * 7919 + 13)
    pending = []
    return [with_ctor(crng, gen_case(rng, pending)) for _ in range(n)]


OPS = {1: "encode", 2: "decode-hostile-stream", 3: "roundtrip", 4: "extract-hostile",
       5: "cmsg-build", 6: "cmsg-roundtrip", 7: "cmsg-iterate", 8: "sink-failing-codec",
       9: "decode-failing-decoder"}
FRS = {1: "len", 2: "any", 3: "char", 4: "noop"}


def describe(case):
    op = case[0] if case else -1
    name = OPS.get(op, "op%d" % op)
    if op in (1, 2, 3, 4, 8, 9) and len(case) > 1:
        kind, path = case[1] % 10, case[1] // 10
        name += ":" + FRS.get(kind, "?")
        if kind == 1 and len(case) > 2:
            name += str(case[2])
        if path:
            name += "+" + CTORS.get(path, "?")
    return name


def nontrivial(case, out):
    return bool(out) and out[0] == 0 and len(out) > 3
