#!/bin/sh
# dev helper: run a property's check against a seeded change.
#   tools/seed_run.sh <seed-dir> <Cnn> [tier]
# The change is applied in a scratch worktree of /repo (VERIF_REPO), so /repo itself is
# not touched and may be busy; outputs go to out/ as usual (evidence is restored afterwards).
SD=$(readlink -f "$1"); P=$2; T=${3:-quick}
WT=/tmp/seedrun_$$
git -C /repo worktree add -q --detach $WT HEAD || exit 2
git -C $WT apply $SD/patch.diff || { git -C /repo worktree remove --force $WT; exit 3; }
cd /verif && cp evidence/$P.json /tmp/ev_$$.json 2>/dev/null
VERIF_REPO=$WT ./check $P --tier $T > /tmp/seed_run_$$.log 2>&1; RC=$?
cp /tmp/ev_$$.json evidence/$P.json 2>/dev/null; rm -f /tmp/ev_$$.json
git -C /repo worktree remove --force $WT
echo "exit=$RC"; grep -E "^VIOLATION|^KNOWN-FINDING|quick:|thorough:|^NOTE" /tmp/seed_run_$$.log | cut -c1-220 | head -8
python3 - <<PY
import json,re
for l in open('/tmp/seed_run_$$.log'):
    m=re.match(r'VIOLATION property=\S+ replay=(\S+)', l)
    if m:
        try:
            d=json.load(open(m.group(1))); print('  what:', str(d.get('what'))[:300]); print('  case:', str(d.get('case'))[:200]); break
        except Exception as e: print(e)
PY
rm -f /tmp/seed_run_$$.log
