#!/bin/sh
# dev helper: run a property's check against a seeded change applied to /repo, then undo it.
#   tools/seed_run.sh <seed-dir> <Cnn> [tier]
SD=$(readlink -f "$1"); P=$2; T=${3:-quick}
git -C /repo diff --quiet || { echo "/repo is dirty"; exit 2; }
git -C /repo apply $SD/patch.diff || exit 3
cd /verif && ./check $P --tier $T > /tmp/seed_run_$$.log 2>&1; RC=$?
git -C /repo checkout -- .
echo "exit=$RC"; grep -E "^VIOLATION|^KNOWN-FINDING|quick:|thorough:" /tmp/seed_run_$$.log | cut -c1-200 | head -8
python3 - <<PY
import json,glob,re
for l in open('/tmp/seed_run_$$.log'):
    m=re.match(r'VIOLATION property=\S+ replay=(\S+)', l)
    if m:
        try:
            d=json.load(open(m.group(1))); print('  what:', str(d.get('what'))[:200]); break
        except Exception as e: print(e)
PY
rm -f /tmp/seed_run_$$.log
