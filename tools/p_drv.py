"""Shared parts of the driver-family checks (C01, C02, C05): history acceptance by
the extracted LTS (coq/model/DriverKeys.v, RunDRV.v) + oracles on the history."""
import diffcheck
import gen_drv

K = dict(NEW=1, FREE=2, SUBMIT=3, MORE=4, FINAL=5, SETRES=6, RING_CLOSED=7, DROP_BEGIN=8, DROP_END=9,
         CANCEL_PUSH=10, B_DISPATCH=11, B_START=12, B_END=13, P_QUEUE=14, P_CANCEL=15, DRAIN=16,
         U_POP=101, U_DROP=102, U_CANCEL=103, U_TOKEN=104, U_PUSH_READY=105)


def parse(out):
    n = out[0]
    evs = [tuple(out[1 + 3 * i: 4 + 3 * i]) for i in range(n)]
    p = 1 + 3 * n
    ns = out[p]
    slots = []
    for i in range(ns):
        kind, res, status, value, first, contig, key = out[p + 1 + 7 * i: p + 8 + 7 * i]
        slots.append(dict(kind=kind, res=res, status=status, value=value, first=first, contig=contig, key=key))
    return evs, slots


def waker_counts(out):
    """the trailer [16; count of waker 0..15]"""
    n = out[0]
    p = 1 + 3 * n
    ns = out[p]
    q = p + 1 + 7 * ns
    if len(out) >= q + 17 and out[q] == 16:
        return out[q + 1:q + 17]
    return None


def steps_of(case):
    n = case[3]
    return [tuple(case[4 + 3 * i: 7 + 3 * i]) for i in range(n)]


class DrvProp(diffcheck.DiffProp):
    model_name = "drv"
    harness_bin = "drv"
    package = "rt"
    shards = 12
    thorough_release = False
    counts = {"quick": 360, "thorough": 6000}
    uses_consts = False
    trusted_base = [
        "Coq 8.16.1 kernel (coqc, full .vo build)",
        "extraction: ExtrOcamlBasic only; coq/extract/driver.ml; coq/model/RunDRV.v decoder (three acceptors: DriverKeys.step, ResultSlot.wstep, PollDrv.astep)",
        "hook commit(s) in /repo: compio_driver::verif event log (cfg(compio_verif), add-only) report faithfully",
        "harness/rt/src/bin/drv.rs (program interpreter, event renumbering), tools/gen_drv.py, tools/p_drv.py oracles",
    ]
    assumptions = [
        "kernel CQE discipline: a submitted SQE produces CQEs only for its own user_data, one final",
        "closing the ring quiesces in-flight operations (io_uring)",
        "ThinCell reference counts are exact; single driver thread (pool threads only run frozen ops)",
        "sequential consistency of the event log order on the driver thread",
    ]

    def model_input(self, case, out):
        if not out or out[0] == 99999 or (out[:1] == [2] and len(out) == 2):
            return [case[0]]
        n = out[0]
        return [case[0]] + out[1:1 + 3 * n]

    def model_expected(self, case, out):
        if not out or out[0] == 99999 or len(out) < 2 + 3 * out[0]:
            return [1, 0, 1]
        evs, _ = parse(out)
        nkeys = sum(1 for e in evs if e[0] == K["NEW"])
        return [1, nkeys, 1]

    def base_oracle(self, case, out):
        """returns None to continue with the specific oracle, "" to accept, or a violation text"""
        if out[:1] == [99999]:
            return ""
        if out[:1] == [2] and len(out) == 2:
            return "panic/abort/hang (code %d) in the driver program" % out[1]
        if len(out) < 2 or len(out) < 2 + 3 * out[0]:
            return "malformed harness output"
        return None


def fifo_violation(case, out):
    """polling driver: the driver's own per-descriptor queue decides who gets the next bytes, so among the
    receives that WAITED IN THE QUEUE of one descriptor of a stream socket the stream offsets must follow the
    queueing order (a cancelled or dropped waiter leaves, the others keep their order).  An operation that
    completed at push time never waited and may overtake the waiters."""
    if case[0] != 1:
        return None
    evs, slots = parse(out)
    queued = {}
    for idx, (k, key, arg) in enumerate(evs):
        if k == K["P_QUEUE"] and key not in queued:
            queued[key] = (idx, arg)
    by_fd = {}
    for i, s in enumerate(slots):
        if s["kind"] == 1 and s["status"] == 1 and s["value"] > 0 and s["contig"] and s["key"] in queued:
            idx, fd = queued[s["key"]]
            by_fd.setdefault((fd, s["res"]), []).append((idx, i, s["first"]))
    for _, l in by_fd.items():
        l.sort()
        for (_, i, fi), (_, j, fj) in zip(l, l[1:]):
            if fj < fi:
                return ("polling driver: recv slot %d (queued after slot %d on the same descriptor) received earlier "
                        "bytes of the stream (offset %d before %d): the waiters' order was changed" % (j, i, fj, fi))
    return None
