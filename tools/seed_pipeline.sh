#!/bin/sh
# dev helper: confirm a seeded change and run the property's quick check against it.
#   tools/seed_pipeline.sh <Cnn> <seed-dir>...     (summary appended to ${SEED_OUT:-/tmp/seed_pipeline.out})
P=$1; shift
cd /verif
for SD in "$@"; do
  S=$(basename $SD)
  {
    echo "=== $S ($(date +%H:%M))"
    python3 tools/seed_autoconfirm.py $SD 2>&1 | tail -5
    tools/seed_suite.sh $SD 2>&1 | tail -2
    tools/seed_run.sh $SD $P 2>&1 | tail -8
  } >> ${SEED_OUT:-/tmp/seed_pipeline.out} 2>&1
done
