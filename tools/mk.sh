#!/bin/sh
# dev helper: (re)build Coq targets with the project Makefile
cd /verif && python3 -c "
import sys; sys.path.insert(0,'tools'); import vlib
vlib.gen_consts()
rc,out=vlib.coq_make(sys.argv[1:],1500); print(out[-6000:]); sys.exit(rc)" "$@"
