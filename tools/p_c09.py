"""C09 — timers never fire early and always fire."""
import json
import os

import diffcheck
import gen_c09
import vlib

B_CODES = {
    70: "pipe round trip returned different bytes",
    71: "a timer completed before its deadline (never-early, exact comparison of Instants)",
    72: "a timer had not completed 5 s after its deadline (watchdog)",
    73: "a created, polled and dropped Sleep left an entry in the runtime's timer wheel",
    74: "Timeout did not poll its inner future (first) on every poll",
    75: "an Interval tick was not start + k * period",
    76: "an Interval tick did not advance",
    77: "wheel entry with a deadline that was never inserted",
    78: "the runtime program never finished (a timer never fired)",
    79: "Timeout reported Elapsed although its inner future was ready at the first poll",
    81: "a timer whose deadline passed while other tasks kept the driver busy fired only after the traffic "
        "stopped (not within 200 traffic rounds of its deadline)",
    80: "the first delivered Interval tick was not start (a cancelled first tick moved the schedule)",
}


# ---------------------------------------------------------------------------
# mode 1: an independent statement of the property over the step outputs.
# The reference keeps the set of live timers; it knows nothing of the map, the
# generations or the split used by the implementation.

def oracle_a(case, out):
    p = gen_c09.parse_a(case)
    if p is None:
        return None if out == [99999] else "malformed case was not rejected"
    g0, steps = p
    if out == [3]:
        return None  # the harness could not keep any attempt inside its slots (machine load)
    live = {}         # insert index -> [deadline slot, waker or None, rank]
    keys = []         # per insert: True if a timer was created
    fired = set()
    cancelled = set()
    made = 0          # successful inserts
    o = 1
    if out[:1] == [2] and len(out) == 2:
        # a panic is legitimate only when the generation counter runs out
        n_ok = 0
        for s in steps:
            if s[0] == 1 and s[2] > s[1]:
                n_ok += 1
        if g0 >= 1 and n_ok >= g0 and out[1] == 9:
            return None
        return "unexpected panic %r" % out
    if out[:1] != [0]:
        return "unexpected result tag %r" % out[:1]

    def take():
        nonlocal o
        if o >= len(out):
            raise IndexError
        x = out[o]
        o += 1
        return x

    def check_min_timeout(t):
        v = take()
        if not live:
            return None if v == 0 else "min_timeout is Some although no timer is pending"
        dmin = min(e[0] for e in live.values())
        if v == 0:
            return "min_timeout is None although a timer is pending (the runtime would sleep forever)"
        if v == 7:
            take()
            return "min_timeout matches no deadline (sleeps longer or shorter than the nearest deadline)"
        if v == 2:
            return None if dmin <= t else "min_timeout is zero although the nearest deadline (slot %d) is after now (slot %d)" % (dmin, t)
        d = take()
        if dmin <= t:
            return "min_timeout is positive although the nearest deadline has passed"
        if d != dmin:
            return "min_timeout sleeps until slot %d, the nearest deadline is slot %d" % (d, dmin)
        return None

    def check_wake(t):
        n = take()
        ws = [take() for _ in range(n)]
        due = sorted((e[0], e[2], i) for i, e in live.items() if e[0] <= t)
        exp = [live[i][1] for (_, _, i) in due if live[i][1] is not None]
        for (_, _, i) in due:
            fired.add(i)
            del live[i]
        if ws != exp:
            return "wake at slot %d invoked wakers %r, expected exactly %r (due timers, once each, in deadline order)" % (t, ws, exp)
        return None

    try:
        for s in steps:
            if s[0] == 1:
                _, t, d = s
                got = take()
                want = 1 if d > t else 0
                if got != want:
                    return "insert(deadline slot %d) at slot %d returned %d" % (d, t, got)
                keys.append(bool(want))
                if want:
                    live[len(keys) - 1] = [d, None, made]
                    made += 1
                    if g0 >= 1 and made >= g0:
                        return "generation counter overflow did not panic"
            elif s[0] == 2:
                _, t, k, wk = s
                take()
                if k in live:
                    live[k][1] = wk
            elif s[0] == 3:
                _, t, k = s
                take()
                if k in live:
                    del live[k]
                cancelled.add(k)
            elif s[0] == 4:
                w = check_min_timeout(s[1])
                if w:
                    return w
            elif s[0] == 5:
                w = check_wake(s[1])
                if w:
                    return w
            elif s[0] == 6:
                _, t, k, wk = s
                r = take()
                if not keys[k]:
                    if r != 1:
                        return "a Sleep whose deadline had passed at creation is pending"
                elif k in cancelled:
                    pass
                elif k in fired:
                    if r != 1:
                        return "timer %d is pending after the wake that was due to complete it" % k
                else:
                    if r != 0:
                        return "timer %d (deadline slot %d) completed at slot %d before any wake at/after its deadline" % (k, live[k][0], t)
                    live[k][1] = wk
            elif s[0] == 7:
                w = check_min_timeout(s[1]) or check_wake(s[2])
                if w:
                    return w
        gen = take()
        if gen != made:
            return "generation counter advanced by %d for %d timers" % (gen, made)
        n = take()
        content = [(take(), take(), take()) for _ in range(n)]
        want = sorted((e[0], e[2], 0 if e[1] is None else e[1] + 1) for e in live.values())
        if content != want:
            return "final wheel content %r, expected %r (exactly the timers neither cancelled nor due)" % (content, want)
        if o != len(out):
            return "trailing output"
    except IndexError:
        return "truncated output"
    return None


def oracle_b(case, out):
    if out == [99999]:
        return None
    if out[:1] == [2] and len(out) == 2:
        # interval_at(period 0) is a documented panic
        i, steps = 3, case[2] if len(case) > 2 else 0
        widths = {1: 1, 2: 1, 3: 1, 4: 3, 5: 4, 6: 1, 7: 1, 8: 2, 9: 1, 10: 2, 11: 4}
        try:
            for _ in range(steps):
                op = case[i]
                if op in (5, 11) and case[i + 2] == 0:
                    return None
                i += 1 + widths[op]
        except (IndexError, KeyError):
            pass
        return "runtime program panicked: %r" % out
    if out[:1] != [0]:
        return "unexpected result tag %r" % out[:1]
    for c in out[1:-1]:
        if c >= 70:
            return B_CODES.get(c, "check %d failed" % c)
    if len(out) >= 2 and out[-1] in B_CODES:
        return B_CODES[out[-1]]
    if len(out) >= 2 and out[-1] != 0:
        return "%d timer(s) left in the runtime's wheel after every sleep completed or was dropped" % out[-1]
    return None


def oracle_i(case, out):
    if out == [99999]:
        return None
    if len(case) == 5 and case[3] == 0 and case[4] == 0:
        return None if out == [2, 9] else "interval_at(zero period) did not panic"
    if out[:1] == [7]:
        return "second Interval tick did not leave exactly one timer in the wheel"
    if len(out) != 5 or out[0] != 0:
        return "unexpected result %r" % out
    _, aligned, gt, le, empty = out
    if not aligned:
        return "Interval tick is not start + k * period"
    if not gt:
        return "Interval tick is not after the current time"
    if not le:
        return "Interval tick is more than one period away"
    if not empty:
        return "dropped tick left a timer in the wheel"
    return None


def oracle_l(case, out):
    """mode 4: every turn of the loop wakes exactly the due sleeps, whether or not the
    driver found an I/O completion"""
    p = gen_c09.parse_l(case)
    if p is None:
        return None if out == [99999] else "malformed case was not rejected"
    if out == [3]:
        return None
    if out[:1] != [0]:
        return "unexpected result %r" % out
    live = {}
    made = 0
    o = 1
    try:
        for s in p[1]:
            if s[0] == 1:
                _, t, d = s
                r = out[o]
                o += 1
                if r != (1 if d <= t else 0):
                    return "sleep_until(slot %d) polled at slot %d: ready=%d" % (d, t, r)
                if d > t:
                    live[made] = d
                made += 1
            elif s[0] == 2:
                _, t, ans, rem = s
                n = out[o]
                ws = out[o + 1:o + 1 + n]
                o += 1 + n
                exp = [i for (d, i) in sorted((d, i) for i, d in live.items() if d <= t)]
                for i in exp:
                    del live[i]
                if ws != exp:
                    return ("%s at slot %d with %s woke sleeps %r, expected %r" % (
                        "poll_with(ZERO)" if rem else "poll()", t,
                        "an I/O completion waiting" if ans else "nothing to complete", ws, exp))
            else:
                o += 1
                live.pop(s[2], None)
        n = out[o]
        left = out[o + 1:o + 1 + n]
        if left != sorted(live.values()) or o + 1 + n != len(out):
            return "wheel holds deadlines %r at the end, expected %r" % (left, sorted(live.values()))
    except IndexError:
        return "truncated output"
    return None


def oracle_f(case, out):
    if out == [99999]:
        return None
    if len(case) == 6 and case[3] == 0 and case[4] == 0:
        return None if out == [2, 9] else "interval_at(zero period) did not panic"
    if len(case) != 6 or out[:1] != [0] or len(out) != case[5] + 2:
        return "unexpected result %r" % out
    for j, f in enumerate(out[1:-1]):
        if f != 1:
            return ("attempt %d at the first tick (earlier attempts dropped before start) does not sleep "
                    "until start" % (j + 1))
    if out[-1] != 1:
        return "dropped tick left a timer in the wheel"
    return None


def oracle_t(case, out):
    """mode 6: every timer fires while the traffic is still running, never early, nothing left"""
    if out == [99999]:
        return None
    if out[:1] == [2]:
        return "traffic program panicked: %r" % out
    if len(case) < 5 or out[:1] != [0] or len(out) != case[4] + 2:
        return B_CODES.get(out[1], "unexpected result %r" % out) if len(out) == 2 else "unexpected result %r" % out
    for c in out[1:-1]:
        if c != 1:
            return B_CODES.get(c, "check %d failed" % c)
    if out[-1] != 0:
        return "%d timer(s) left in the runtime's wheel" % out[-1]
    return None


class C09(diffcheck.DiffProp):
    pid = "C09"
    manifest = dict(
        text="Unbounded Coq theorems (all programs of wheel operations, all key sets including equal deadlines, all clock sequences, monotone or not) about an executable model of TimerRuntime, Sleep, Timeout, Interval and the Runtime::poll fragment. The model is tied to compio-runtime on every run by an exact differential check of the real timer wheel on a real-time slot clock, end-to-end programs on a real Runtime with tolerance-free one-sided oracles, and exact Interval arithmetic read back from the runtime's wheel.",
        note="Trusted: the Coq kernel; ExtrOcamlBasic extraction plus the OCaml driver; the Rust harness (slot clock by spin-wait on Instant::now, counting wakers, nominal clock of the Runtime programs); hook c6d33ab (forwarding shims only); std BTreeMap (ordered map, split_off, in-order iteration), TimerKey's derived Ord, and Instant being a monotone total order with saturating subtraction (modelled, not verified). The deadline == now boundary is proved on the model but cannot be exercised dynamically (1 ns window). That the driver returns from poll(timeout) on time is checked only one-sidedly (never early: exact; within a 5 s watchdog), not proved. No axioms.",
        technique="Coq proof (induction over programs of timer-wheel operations) + differential correspondence on the real wheel and runtime")
    prop_file = "prop/C09.v"
    model_name = "c09"
    harness_bin = "c09"
    package = "rt"
    gen = gen_c09
    counts = {"quick": 1600, "thorough": 24000}
    rule = ("cases = corpus (witness of the fixed Interval cast, boundary programs) + random programs: "
            "mode 1 = 2..17 operations on the real timer wheel (insert/update_waker/cancel/min_timeout/wake/"
            "Sleep::poll/Runtime::poll fragment) with deadlines past, now, next, near, far and equal, on a "
            "non-decreasing slot clock executed in real time; mode 2 = 2..7-step programs on a real Runtime "
            "(both drivers, incl. timers next to I/O that completes at every driver poll and Intervals whose first "
            "tick is cancelled); mode 3 = Interval arithmetic with offsets/periods up to 1500 years; mode 4 = "
            "Runtime::poll_with/poll turns by hand with and without a waiting completion; mode 5 = first tick "
            "dropped 1..5 times, deadline read back from the wheel; mode 6 = 1..4 timers (sleep_until/timeout_at/"
            "timeout/sleep) next to pipe / socketpair ping-pong, cross-thread wakes, spawn_blocking results or inline "
            "file ops that keep the driver delivering completions until >= 300 ms and >= 200 rounds after the last "
            "deadline, all ten driver x traffic combinations; ~3% malformed. "
            "distinct = distinct case lines; non-trivial = accepted, and (mode 1) a timer entered the wheel and "
            "the wheel was observed afterwards, (mode 2/3) the program ran")
    trusted_base = [
        "Coq 8.16.1 kernel (coqc, full .vo build); vm_compute only in example lemmas",
        "extraction: ExtrOcamlBasic only, no Extract Constant; coq/extract/driver.ml; ocamlfind ocamlopt",
        "harness/rt/src/bin/c09.rs (slot clock by spin-wait on Instant::now, counting wakers, nominal clock of "
        "mode 2), tools/gen_c09.py, tools/p_c09.py oracle, tools/diffcheck.py",
        "hook commit c6d33ab (compio-runtime time::verif): forwarding shims to TimerRuntime, read access to its "
        "generation counter and map",
        "std::collections::BTreeMap (ordered map: insert/remove/get_mut/first_key_value/split_off/in-order "
        "into_iter), the derived lexicographic Ord of TimerKey, std::time::Instant monotonic and totally ordered, "
        "Instant - Instant saturating: modelled, not verified",
        "the driver returns from poll(timeout) no later than the watchdog after the timeout (checked one-sidedly "
        "in mode 2, not proved)",
    ]
    assumptions = [
        "the clock (every Instant::now() read by the wheel) is an arbitrary sequence of values supplied by the "
        "environment; theorems that need it say so (none needs monotonicity)",
        "wakers do not re-enter the timer wheel from inside wake() (the executor's wakers only schedule)",
        "what driver.poll answers (a completion, TimedOut, Interrupted, another error) is an input of the "
        "environment; every answer but 'another error' (a panic in poll_with) is followed by wake()",
        "once a tick of an Interval has completed the clock has reached its start (from never-early and a "
        "monotone Instant); only C09_interval_first_tick_cancel_safe / C09_interval_tick use it",
        "fewer than 2^64 timers are created per runtime (insert panics at the end of the generation counter; "
        "the panic is modelled and exercised)",
        "Instant arithmetic does not overflow (i64 seconds): sleep(Duration::MAX) style overflow panics of std "
        "are outside the model",
    ]

    def oracle(self, case, out):
        if not case or not out:
            return None
        try:
            if case[0] == 1:
                return oracle_a(case, out)
            if case[0] == 2:
                return oracle_b(case, out)
            if case[0] == 3:
                return oracle_i(case, out)
            if case[0] == 4:
                return oracle_l(case, out)
            if case[0] == 5:
                return oracle_f(case, out)
            if case[0] == 6:
                return oracle_t(case, out)
        except Exception as e:  # malformed output must not crash the check
            return "oracle could not decode the output: %r" % (e,)
        return None if out == [99999] else "malformed case was not rejected"

    def known(self, case, out, what):
        return None

    def run(self, tier, seed, replay=None):
        side = os.path.join(vlib.OUT, "C09", "side.txt")
        os.makedirs(os.path.dirname(side), exist_ok=True)
        if os.path.exists(side):
            os.remove(side)
        os.environ["VERIF_C09_SIDE"] = side
        rc = diffcheck.run(self, tier, seed, replay)
        # timing statistics of this run into the evidence
        stats = {"mode2_programs": 0, "mode2_steps": 0, "mode2_indeterminate_steps": 0,
                 "mode1_cases_retried_with_longer_slots": 0, "mode1_cases_given_up": 0}
        if os.path.exists(side):
            for line in open(side):
                f = line.split()
                if f[:1] == ["B"] and len(f) == 5 and f[2].isdigit() and f[4].isdigit():
                    stats["mode2_programs"] += 1
                    stats["mode2_steps"] += int(f[2])
                    stats["mode2_indeterminate_steps"] += int(f[4])
                elif f[:1] == ["T"] and len(f) == 11:
                    stats["traffic_programs"] = stats.get("traffic_programs", 0) + 1
                    if f[8].isdigit() and f[10].isdigit():
                        stats["traffic_max_lateness_rounds"] = max(stats.get("traffic_max_lateness_rounds", 0), int(f[8]))
                        stats["traffic_max_lateness_us"] = max(stats.get("traffic_max_lateness_us", 0), int(f[10]))
                elif f[:2] == ["A", "retries"]:
                    stats["mode1_cases_retried_with_longer_slots"] += 1
                elif f[:2] == ["A", "gave-up"]:
                    stats["mode1_cases_given_up"] += 1
        evp = os.path.join(vlib.ROOT, "evidence", "C09.json")
        try:
            ev = json.load(open(evp))
            ev["coverage"]["timing"] = stats
            ev["coverage"]["timing_note"] = (
                "mode 2: a step whose measured result differs from the nominal one although no one-sided check "
                "failed is indeterminate (the machine was late); it is counted here and not compared. "
                "mode 1: an attempt in which a step left its real-time slot is discarded and the case re-run "
                "with slots twice as long (200 us .. 400 ms)")
            vlib.write_json(evp, ev)
        except (OSError, ValueError, KeyError):
            pass
        return rc


PROP = C09()
